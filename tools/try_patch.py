"""apply a patch to a scratch copy of /repo's working tree (sources only) and
run checks against it:  python3-vt tools/try_patch.py <patch> C02 [C03 ...]
prints each check's exit code and VIOLATION lines; removes the copy."""
import os
import shutil
import subprocess
import sys
import tempfile

HERE = os.path.dirname(os.path.dirname(os.path.abspath(__file__)))


def make_copy():
    d = tempfile.mkdtemp(prefix="vcheck-variant-")
    subprocess.check_call(["rsync", "-a", "--exclude", ".git", "--exclude", "*.so", "--exclude", "__pycache__",
                           "--exclude", "build", "--exclude", "*.egg-info", "/repo/", d + "/"])
    return d


def run_checks(root, pids, quiet=False):
    res = {}
    for pid in pids:
        env = dict(os.environ, VCHECK_REPO=root)
        p = subprocess.run(["python3-vt", "-m", "vcheck.run", pid, "--no-evidence"], cwd=HERE, env=env,
                           capture_output=True, text=True)
        res[pid] = (p.returncode, p.stdout)
    return res


def main():
    patch = os.path.abspath(sys.argv[1])
    pids = sys.argv[2:]
    d = make_copy()
    try:
        r = subprocess.run(["patch", "-p1", "-s", "-i", patch], cwd=d, capture_output=True, text=True)
        if r.returncode != 0:
            print("PATCH FAILED:", r.stdout, r.stderr)
            return 3
        res = run_checks(d, pids)
        for pid, (rc, out) in res.items():
            print("== %s rc=%d" % (pid, rc))
            for l in out.splitlines():
                if l.startswith(("VIOLATION", "  ", "ANALYSIS-ERROR", "KNOWN")) or "tier=" in l:
                    print(l[:400])
    finally:
        shutil.rmtree(d, ignore_errors=True)
    return 0


if __name__ == "__main__":
    sys.exit(main())
