"""regression run of ONE check against every recorded patch (16 jobs):
    python3-vt tools/check_one.py Cxx [--benign-only|--breaking-only]
  * breaking: every patch of selftest/expect.json whose must_fire lists Cxx, plus every seeded/<Cxx>-*/patch.diff  -> wants rc=1
  * benign:   every selftest/benign/*/patch.diff                                                          -> wants rc=0 (rc=2 tolerated, rc=1 is a false alarm)
prints one line per patch that is not as wanted and a summary."""
import glob
import json
import os
import shutil
import subprocess
import sys
from concurrent.futures import ThreadPoolExecutor

HERE = os.path.dirname(os.path.dirname(os.path.abspath(__file__)))
sys.path.insert(0, HERE)
from vcheck.selftest import make_copy   # noqa


def one(args):
    pid, path = args
    d = make_copy()
    try:
        r = subprocess.run(["patch", "-p1", "-s", "-f", "-i", path], cwd=d, capture_output=True, text=True)
        if r.returncode != 0:
            return path, None, ""
        env = dict(os.environ, VCHECK_REPO=d)
        p = subprocess.run(["python3-vt", "-m", "vcheck.run", pid, "--no-evidence"], cwd=HERE, env=env, capture_output=True, text=True)
        lines = [l.strip()[:300] for l in p.stdout.splitlines() if l.startswith(("  ", "ANALYSIS-ERROR"))]
        return path, p.returncode, " | ".join(lines[:3])
    finally:
        shutil.rmtree(d, ignore_errors=True)


def main():
    pid = sys.argv[1]
    exp = json.load(open(os.path.join(HERE, "selftest", "expect.json")))["patches"]
    breaking = sorted({os.path.join(HERE, rel) for rel, e in exp.items() if pid in e.get("must_fire", [])} |
                      set(glob.glob(os.path.join(HERE, "seeded", pid + "-*", "patch.diff"))))
    benign = sorted(glob.glob(os.path.join(HERE, "selftest", "benign", "*", "patch.diff")))
    if "--benign-only" in sys.argv:
        breaking = []
    if "--breaking-only" in sys.argv:
        benign = []
    with ThreadPoolExecutor(max_workers=16) as ex:
        rb = list(ex.map(one, [(pid, p) for p in breaking]))
        rg = list(ex.map(one, [(pid, p) for p in benign]))
    bad = 0
    for path, rc, info in rb:
        if rc != 1:
            bad += 1
            print("BREAKING not detected rc=%s  %s  %s" % (rc, os.path.relpath(path, HERE), info))
    fa = nv = 0
    for path, rc, info in rg:
        if rc == 1:
            fa += 1
            print("FALSE ALARM rc=1  %s  %s" % (os.path.relpath(path, HERE), info))
        elif rc == 2:
            nv += 1
            print("no verdict rc=2  %s  %s" % (os.path.relpath(path, HERE), info[:200]))
    print("%s: breaking %d/%d detected; benign %d patches: %d false alarms, %d no verdict" % (pid, len(rb) - bad, len(rb), len(rg), fa, nv))


if __name__ == "__main__":
    main()
