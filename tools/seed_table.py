"""write seeded/README.md: one row per kept seeded change (from seeded/*/meta.json and selftest/expect.json)"""
import glob
import json
import os

HERE = os.path.dirname(os.path.dirname(os.path.abspath(__file__)))
exp = json.load(open(os.path.join(HERE, "selftest", "expect.json")))["patches"]
rows = []
for d in sorted(glob.glob(os.path.join(HERE, "seeded", "*"))):
    mp = os.path.join(d, "meta.json")
    if not os.path.exists(mp):
        continue
    m = json.load(open(mp))
    sid = os.path.basename(d)
    e = exp.get("seeded/%s/patch.diff" % sid, {})
    fired = e.get("must_fire", m.get("detected_by", []))
    first = m.get("detected_by", [])
    rules = m.get("rules_fired", {})
    note = "" if set(first) & set(fired) or not fired else "missed when first run; check strengthened"
    if not fired:
        note = "NOT DETECTED"
    rows.append((sid, m.get("breaks_property"), (m.get("summary") or "").replace("|", "/").replace("\n", " ")[:230],
                 (m.get("needs") or "").replace("|", "/").replace("\n", " ")[:200], ", ".join(fired) or "-", note))
with open(os.path.join(HERE, "seeded", "README.md"), "w") as f:
    f.write("# Seeded changes (written by independent sub-agents from the property text only)\n\n")
    f.write("Each directory holds `patch.diff` (apply with `git -C /repo apply`), `demo.py` (exits 0 on the unmodified tree, non-zero with the patch) and\n"
            "`meta.json` (what it needs to manifest, what was run to confirm it: demo on clean and patched tree, full suite on the patched tree, extensions rebuilt for C/C++ changes).\n"
            "`detected by` is the current result of `tools/matrix.py` (all checks run against the patched tree); the thorough tier re-checks it on every run.\n"
            "`note`: *missed when first run* = the property's check did not exit 1 on it when the change was first confirmed (silent or no verdict); the check was then strengthened.\n"
            "`retired/` holds changes that stopped being breaking after a repair of /repo (C04-r3-2 after fix 3e2b666); `C15-r4-2/patch.diff` was re-applied by hand\n"
            "onto 3e2b666 (original kept as `patch.pre-3e2b666.diff`).\n\n")
    f.write("| id | property | change | needs | detected by | note |\n|---|---|---|---|---|---|\n")
    for r in rows:
        f.write("| %s | %s | %s | %s | %s | %s |\n" % r)
print(len(rows), "rows;", sum(1 for r in rows if r[4] == "-"), "undetected;", sum(1 for r in rows if "missed" in r[5]), "missed at first")
