"""print the per-campaign summary of selftest/expect.json and selftest/benign/{expect,raw}.json as markdown (pasted into DESIGN.md section 13)"""
import collections
import json
import os
import re

HERE = os.path.dirname(os.path.dirname(os.path.abspath(__file__)))
exp = json.load(open(os.path.join(HERE, "selftest", "expect.json")))["patches"]
bexp = json.load(open(os.path.join(HERE, "selftest", "benign", "expect.json")))
rp = os.path.join(HERE, "selftest", "benign", "raw.json")
braw = json.load(open(rp)) if os.path.exists(rp) else {}

t = collections.defaultdict(collections.Counter)
for rel, e in exp.items():
    if rel.startswith("selftest/regress"):
        rnd, own = "reverts of the 30 repaired defects", None
    else:
        sid = rel.split("/")[1]
        m = re.match(r"(C\d\d)-(r\d)-", sid)
        rnd, own = ("seeding %s" % m.group(2)[1:], m.group(1)) if m else ("seeding 1", sid[:3])
    t[rnd]["n"] += 1
    if own is None:
        t[rnd]["own"] += bool(e["must_fire"])
    else:
        t[rnd]["own"] += own in e["must_fire"]
        t[rnd]["other"] += own not in e["must_fire"] and bool(e["must_fire"])
    t[rnd]["none"] += not e["must_fire"]
    t[rnd]["also_nv"] += bool(e["analysis_error"])
print("| breaking set | patches | reported (exit 1) by the property's own check | by another check only | not reported | patches on which some *other* check ends in exit 2 |\n|---|---|---|---|---|---|")
for k in sorted(t):
    c = t[k]
    print("| %s | %d | %d | %d | %d | %d |" % (k, c["n"], c["own"], c["other"], c["none"], c["also_nv"]))
print()
b = collections.defaultdict(collections.Counter)
for sid, e in bexp.items():
    m = re.match(r"C\d\d-(b\d)-", sid)
    rnd = "benign %s" % (m.group(1)[1:] if m else "1")
    b[rnd]["n"] += 1
    b[rnd]["fa"] += any(rc == 1 for rc in e.values())
    b[rnd]["nv"] += any(rc == 2 for rc in e.values())
    r = braw.get(sid, {})
    b[rnd]["rfa"] += any(rc == 1 for rc in r.values())
    b[rnd]["rnv"] += any(rc == 2 for rc in r.values())
print("| benign set | patches | false alarms (exit 1), default | patches with a no-verdict (exit 2), default | false alarms, gate off | no-verdict, gate off |\n|---|---|---|---|---|---|")
for k in sorted(b):
    c = b[k]
    print("| %s | %d | %d | %d | %d | %d |" % (k, c["n"], c["fa"], c["nv"], c["rfa"], c["rnv"]))
tot = collections.Counter()
for c in b.values():
    tot.update(c)
print("| all | %d | %d | %d | %d | %d |" % (tot["n"], tot["fa"], tot["nv"], tot["rfa"], tot["rnv"]))
nvc = collections.Counter(p for e in bexp.values() for p, rc in e.items() if rc == 2)
print("\nno-verdict by check (default):", ", ".join("%s %d" % x for x in sorted(nvc.items())))
