"""selftest/benign/raw.json = what the rules say on the recorded refactors with the churn gate off (VCHECK_CHURN=0).
The gate can only turn a failing instance into "no verdict", so raw differs from expect.json (default settings) at most
where expect.json records exit 2: only those (patch, check) pairs are re-run, with the gate off.
    python3-vt tools/benign_raw.py"""
import json
import os
import shutil
import subprocess
import sys
from concurrent.futures import ThreadPoolExecutor

HERE = os.path.dirname(os.path.dirname(os.path.abspath(__file__)))
sys.path.insert(0, HERE)
from vcheck.selftest import make_copy   # noqa

B = os.path.join(HERE, "selftest", "benign")


def one(args):
    sid, pid = args
    d = make_copy()
    try:
        r = subprocess.run(["patch", "-p1", "-s", "-f", "-i", os.path.join(B, sid, "patch.diff")], cwd=d, capture_output=True, text=True)
        if r.returncode != 0:
            return sid, pid, None
        env = dict(os.environ, VCHECK_REPO=d, VCHECK_CHURN="0")
        p = subprocess.run(["python3-vt", "-m", "vcheck.run", pid, "--no-evidence"], cwd=HERE, env=env, capture_output=True, text=True)
        return sid, pid, p.returncode
    finally:
        shutil.rmtree(d, ignore_errors=True)


def main():
    exp = json.load(open(os.path.join(B, "expect.json")))
    todo = [(sid, pid) for sid, e in sorted(exp.items()) for pid, rc in sorted(e.items()) if rc == 2]
    raw = {sid: dict(e) for sid, e in exp.items()}
    with ThreadPoolExecutor(max_workers=int(os.environ.get("VCHECK_JOBS", "14"))) as ex:
        for sid, pid, rc in ex.map(one, todo):
            print("%-12s %s default rc=2 -> gate off rc=%s" % (sid, pid, rc))
            if rc is not None:
                raw[sid][pid] = rc
    json.dump(raw, open(os.path.join(B, "raw.json"), "w"), indent=1, sort_keys=True)
    print("re-run %d pairs; raw false alarms: %d" % (len(todo), sum(1 for e in raw.values() for rc in e.values() if rc == 1)))


if __name__ == "__main__":
    main()
