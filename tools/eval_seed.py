"""confirm a candidate seeded change and run the checks against it.

    python3-vt tools/eval_seed.py <seed dir> [--checks C01,C15,...] [--keep-as <id>]

<seed dir> holds patch.diff, demo.py, meta.json (as produced by a sub-agent).
Steps, all in a scratch git worktree of /repo under /tmp/ev (removed afterwards):
  1. demo.py on the unmodified tree must exit 0;
  2. the patch must apply; C/C++ changes are rebuilt in place;
  3. demo.py on the patched tree must exit non-zero;
  4. the repository's test suite must still pass on the patched tree;
  5. the named checks (default: the property's own check and C15) are run with VCHECK_REPO=<patched tree>.
Prints a JSON summary; with --keep-as the seed is copied to /verif/seeded/<id>/ with the summary merged into meta.json.
"""
import json
import os
import shutil
import subprocess
import sys
import time

HERE = os.path.dirname(os.path.dirname(os.path.abspath(__file__)))
PY = "/venv/bin/python"


def sh(cmd, cwd, timeout=1800, env=None):
    p = subprocess.run(cmd, cwd=cwd, shell=isinstance(cmd, str), capture_output=True, text=True, timeout=timeout, env=env)
    return p.returncode, (p.stdout + p.stderr)


def main():
    a = sys.argv[1:]
    seed = os.path.abspath(a[0])
    checks = None
    keep = None
    if "--checks" in a:
        checks = a[a.index("--checks") + 1].split(",")
    if "--keep-as" in a:
        keep = a[a.index("--keep-as") + 1]
    benign = "--benign" in a
    meta = json.load(open(os.path.join(seed, "meta.json")))
    pid = meta.get("property")
    if checks is None:
        checks = sorted({pid, "C15"})
    if benign and "--checks" not in a:
        import glob
        checks = sorted(os.path.basename(x)[:-3] for x in glob.glob(os.path.join(HERE, "checks", "C*.py")))
    patch = os.path.join(seed, "patch.diff")
    touched = [l[6:].strip() for l in open(patch) if l.startswith("+++ b/")]
    is_c = any(t.endswith((".c", ".cc", ".cpp", ".h", ".hpp", ".i")) for t in touched)
    wt = "/tmp/ev/%s-%d" % (os.path.basename(os.path.dirname(seed)) + "-" + os.path.basename(seed), os.getpid())
    os.makedirs("/tmp/ev", exist_ok=True)
    res = {"seed": seed, "property": pid, "touched": touched, "c_change": is_c}
    rc, out = sh(["git", "-C", "/repo", "worktree", "add", "-q", "--detach", wt, "HEAD"], "/")
    if rc != 0:
        print("cannot create worktree:", out)
        return 3
    try:
        for dp, dn, fn in os.walk("/repo/esutil"):
            for f in fn:
                if f.endswith(".so"):
                    rel = os.path.relpath(os.path.join(dp, f), "/repo")
                    shutil.copy2(os.path.join("/repo", rel), os.path.join(wt, rel))
        shutil.copy2(os.path.join(seed, "demo.py"), os.path.join(wt, "_demo.py"))
        rc, out = sh([PY, "_demo.py"], wt, 900)
        res["demo_clean_rc"] = rc
        res["demo_clean_tail"] = out[-300:]
        rc, out = sh(["git", "apply", patch], wt)
        res["patch_applies"] = rc == 0
        if rc != 0:
            res["patch_error"] = out[-300:]
            print(json.dumps(res, indent=1))
            return 1
        if is_c:
            t0 = time.time()
            rc, out = sh([PY, "setup.py", "build_ext", "--inplace", "-q"], wt, 1800)
            res["rebuild_rc"] = rc
            res["rebuild_s"] = round(time.time() - t0)
            if rc != 0:
                res["rebuild_tail"] = out[-500:]
        rc, out = sh([PY, "_demo.py"], wt, 900)
        res["demo_patched_rc"] = rc
        res["demo_patched_tail"] = out[-400:]
        rc, out = sh([PY, "-m", "pytest", "-q", "-p", "no:cacheprovider", "--timeout=900", "-x", "-q"], wt, 1800)
        res["suite_rc"] = rc
        res["suite_tail"] = out.strip().splitlines()[-1] if out.strip() else ""
        res["confirmed"] = bool(res["demo_clean_rc"] == 0 and res["demo_patched_rc"] != 0 and res["suite_rc"] == 0)
        if benign:
            res["confirmed"] = bool(res["demo_clean_rc"] == 0 and res["demo_patched_rc"] == 0 and res["suite_rc"] == 0 and res.get("rebuild_rc", 0) == 0)
        det = {}
        for c in checks:
            env = dict(os.environ, VCHECK_REPO=wt)
            rc, out = sh(["python3-vt", "-m", "vcheck.run", c, "--no-evidence"], HERE, 600, env)
            lines = [l for l in out.splitlines() if l.startswith(("VIOLATION", "  ", "ANALYSIS-ERROR"))]
            det[c] = {"rc": rc, "rules": sorted({l.split("rule=")[1].split(" ")[0] + " " + l.split("instance=")[1].split(" -- ")[0] for l in lines if "rule=" in l and "instance=" in l}),
                      "error": [l[:300] for l in lines if l.startswith("ANALYSIS-ERROR")]}
        res["checks"] = det
        res["detected_by"] = sorted(c for c, d in det.items() if d["rc"] == 1)
        res["analysis_errors"] = sorted(c for c, d in det.items() if d["rc"] == 2)
    finally:
        sh(["git", "-C", "/repo", "worktree", "remove", "--force", wt], "/")
        shutil.rmtree(wt, ignore_errors=True)
        sh(["git", "-C", "/repo", "worktree", "prune"], "/")
    print(json.dumps(res, indent=1))
    if keep and res.get("confirmed"):
        dst = os.path.join(HERE, "selftest", "benign", keep) if benign else os.path.join(HERE, "seeded", keep)
        os.makedirs(dst, exist_ok=True)
        for f in ("patch.diff", "demo.py"):
            shutil.copy2(os.path.join(seed, f), os.path.join(dst, f))
        meta["breaks_property"] = None if benign else pid
        if benign:
            meta["keeps_property"] = pid
            meta["false_alarms_when_first_run"] = res["detected_by"]
            meta["analysis_errors_when_first_run"] = res["analysis_errors"]
        meta["what_i_ran"] = {"demo_on_clean_tree_rc": res["demo_clean_rc"], "demo_on_patched_tree_rc": res["demo_patched_rc"],
                              "demo_patched_output_tail": res["demo_patched_tail"][-200:], "suite_on_patched_tree": res["suite_tail"],
                              "rebuilt_extensions": is_c, "checks_run": {c: d["rc"] for c, d in det.items()}}
        meta["detected_by"] = res["detected_by"]
        meta["rules_fired"] = {c: d["rules"] for c, d in det.items() if d["rules"]}
        json.dump(meta, open(os.path.join(dst, "meta.json"), "w"), indent=1)
    return 0


if __name__ == "__main__":
    sys.exit(main())
