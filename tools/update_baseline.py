"""refresh /verif/baseline from /repo's committed HEAD (python modules outside tests/, and the C/C++ sources the checks parse).
Run after every reviewed change of /repo (a `fix:` commit).  The baseline is used only by vcheck/rename.py to undo pure renames."""
import os
import subprocess
import sys

HERE = os.path.dirname(os.path.dirname(os.path.abspath(__file__)))
dst = os.path.join(HERE, "baseline")
files = subprocess.check_output(["git", "-C", "/repo", "ls-tree", "-r", "--name-only", "HEAD", "esutil"], text=True).split()
keep = [f for f in files if "/tests/" not in f and f.endswith((".py", ".c", ".cc", ".cpp", ".h", ".hpp", ".hxx")) and not f.endswith(("_wrap.cc", "_wrap.cpp"))]
import shutil
shutil.rmtree(dst, ignore_errors=True)
for f in keep:
    p = os.path.join(dst, f)
    os.makedirs(os.path.dirname(p), exist_ok=True)
    with open(p, "wb") as out:
        out.write(subprocess.check_output(["git", "-C", "/repo", "show", "HEAD:" + f]))
head = subprocess.check_output(["git", "-C", "/repo", "rev-parse", "HEAD"], text=True).strip()
open(os.path.join(dst, "COMMIT"), "w").write(head + "\n")
print("baseline: %d files from %s" % (len(keep), head[:7]))
