"""apply a textual replacement to a scratch copy of /repo and run checks:
   python3-vt tools/try_edit.py <relpath> <old> <new> Cxx [Cyy ...]
old must occur exactly once (or give --all before relpath).  Removes the copy."""
import os
import shutil
import sys

sys.path.insert(0, os.path.dirname(os.path.abspath(__file__)))
from try_patch import make_copy, run_checks


def main():
    a = sys.argv[1:]
    allo = False
    if a[0] == "--all":
        allo = True
        a = a[1:]
    rel, old, new = a[:3]
    pids = a[3:]
    old = old.encode().decode("unicode_escape")
    new = new.encode().decode("unicode_escape")
    d = make_copy()
    try:
        p = os.path.join(d, rel)
        s = open(p).read()
        if s.count(old) != 1 and not allo:
            print("EDIT FAILED: %d occurrences" % s.count(old))
            return 3
        open(p, "w").write(s.replace(old, new))
        for pid, (rc, out) in run_checks(d, pids).items():
            print("== %s rc=%d" % (pid, rc))
            for l in out.splitlines():
                if l.startswith(("VIOLATION", "  ", "ANALYSIS-ERROR", "KNOWN")):
                    print(l[:330])
    finally:
        shutil.rmtree(d, ignore_errors=True)


if __name__ == "__main__":
    sys.exit(main())
