"""run every check against every benign change (candidates under /tmp/benign/C*/N and kept ones under selftest/benign/*):
prints the checks that do not exit 0.   python3-vt tools/benign_matrix.py [--kept] [--only substr [--merge]]"""
import glob
import json
import os
import shutil
import subprocess
import sys
from concurrent.futures import ThreadPoolExecutor

HERE = os.path.dirname(os.path.dirname(os.path.abspath(__file__)))
sys.path.insert(0, HERE)
from vcheck.selftest import make_copy, run_check   # noqa

PIDS = sorted(os.path.basename(p)[:-3] for p in glob.glob(os.path.join(HERE, "checks", "C*.py")))


def one(path):
    d = make_copy()
    try:
        r = subprocess.run(["patch", "-p1", "-s", "-f", "-i", path], cwd=d, capture_output=True, text=True)
        if r.returncode != 0:
            return path, None
        out = {}
        for pid in PIDS:
            env = dict(os.environ, VCHECK_REPO=d)
            p = subprocess.run(["python3-vt", "-m", "vcheck.run", pid, "--no-evidence"], cwd=HERE, env=env, capture_output=True, text=True)
            if p.returncode != 0:
                lines = [l.strip()[:260] for l in p.stdout.splitlines() if l.startswith(("  ", "ANALYSIS-ERROR"))]
                out[pid] = (p.returncode, lines)
        return path, out
    finally:
        shutil.rmtree(d, ignore_errors=True)


def main():
    only = sys.argv[sys.argv.index("--only") + 1] if "--only" in sys.argv else ""
    if "--kept" in sys.argv:
        paths = sorted(glob.glob(os.path.join(HERE, "selftest", "benign", "*", "patch.diff")))
    else:
        paths = sorted(glob.glob("/tmp/benign/C*/[1-9]/patch.diff"))
    paths = [p for p in paths if only in p]
    n1 = n2 = 0
    record = {}
    with ThreadPoolExecutor(max_workers=int(os.environ.get('VCHECK_JOBS', '8'))) as ex:
        for path, out in ex.map(one, paths):
            tag = "/".join(path.split("/")[-3:-1])
            if out is not None and "--kept" in sys.argv:
                # which checks look at the files this patch touches is not known here: record every check's verdict
                record[path.split("/")[-2]] = {pid: (out[pid][0] if pid in out else 0) for pid in PIDS}
            if out is None:
                print("%-12s patch does not apply" % tag)
                continue
            if not out:
                print("%-12s silent" % tag)
            for pid, (rc, lines) in out.items():
                n1 += rc == 1
                n2 += rc == 2
                print("%-12s %s rc=%d" % (tag, pid, rc))
                for l in lines[:8]:
                    print("        " + l)
    print("false alarms: %d   analysis errors: %d   patches: %d" % (n1, n2, len(paths)))
    if "--kept" in sys.argv and only and "--merge" in sys.argv:
        # refresh only the selected patches in the frozen table
        name = "raw.json" if os.environ.get("VCHECK_CHURN") == "0" else "expect.json"
        path = os.path.join(HERE, "selftest", "benign", name)
        table = json.load(open(path))
        for sid, e in record.items():
            own = sid.split("-")[0]
            table[sid] = {pid: rc for pid, rc in e.items() if pid == own or rc != 0}
        json.dump(table, open(path, "w"), indent=1, sort_keys=True)
    if "--kept" in sys.argv and not only:
        # keep only the checks whose verdict is worth re-checking: the property's own check and any check that did not stay silent
        slim = {}
        for sid, e in record.items():
            own = sid.split("-")[0]
            slim[sid] = {pid: rc for pid, rc in e.items() if pid == own or rc != 0}
        # with the churn gate switched off (VCHECK_CHURN=0) the result is what the rules say on their own: kept apart in raw.json
        name = "raw.json" if os.environ.get("VCHECK_CHURN") == "0" else "expect.json"
        json.dump(slim, open(os.path.join(HERE, "selftest", "benign", name), "w"), indent=1, sort_keys=True)


if __name__ == "__main__":
    main()
