"""write selftest/benign/README.md: one row per kept behaviour-preserving change (from selftest/benign/*/meta.json,
expect.json = verdicts with the default settings, raw.json = verdicts with the churn gate off)"""
import glob
import json
import os

HERE = os.path.dirname(os.path.dirname(os.path.abspath(__file__)))
B = os.path.join(HERE, "selftest", "benign")
exp = json.load(open(os.path.join(B, "expect.json")))
raw = json.load(open(os.path.join(B, "raw.json"))) if os.path.exists(os.path.join(B, "raw.json")) else {}


def show(e):
    if e is None:
        return "?"
    bad = {p: rc for p, rc in e.items() if rc}
    if not bad:
        return "all checks exit 0"
    return ", ".join("%s %s" % (p, "FALSE ALARM" if rc == 1 else "no verdict") for p, rc in sorted(bad.items()))


rows = []
for d in sorted(glob.glob(os.path.join(B, "*", "meta.json"))):
    m = json.load(open(d))
    sid = os.path.basename(os.path.dirname(d))
    first = sorted(set(m.get("false_alarms_when_first_run") or [])), sorted(set(m.get("analysis_errors_when_first_run") or []))
    f = "; ".join(x for x in ("alarm: " + " ".join(first[0]) if first[0] else "", "no verdict: " + " ".join(first[1]) if first[1] else "") if x) or "-"
    rows.append((sid, m.get("keeps_property") or m.get("property") or sid[:3], (m.get("summary") or "").replace("|", "/").replace("\n", " ")[:260], f,
                 show(exp.get(sid)), show(raw.get(sid)) if raw else "-"))
with open(os.path.join(B, "README.md"), "w") as f:
    f.write("# Behaviour-preserving changes (written by independent sub-agents from the property text only)\n\n"
            "Each directory holds `patch.diff`, `demo.py` (a property test that passes with and without the patch) and `meta.json`.\n"
            "`Cxx-n` = first campaign, `Cxx-b2-n` = second (more than cosmetic: equivalent algorithms, helpers extracted/merged, dispatch tables,\n"
            "pointer stepping in C, fast paths), `Cxx-b3-n` = third (performance / robustness / API-hygiene rewrites), `Cxx-b4-n` = fourth (small: 2-15\n"
            "lines in the statements the rules watch), `Cxx-b5-n`, `Cxx-b6-n` = fifth and sixth (medium: 15-35 lines in one file), `Cxx-b7-n` = seventh (small, written after the last\n"
            "strengthening round); `retired/` = early refactors that no longer apply after /repo fix 3e2b666.\n"
            "`when first run` = checks that did not exit 0 when the change was first confirmed.  `now` = `tools/benign_matrix.py --kept` with the default\n"
            "settings (frozen in `expect.json`, replayed by the thorough tier: a check that exits 1 on one of these fails its self-test);\n"
            "`rules alone` = the same with `VCHECK_CHURN=0` (`raw.json`).  no verdict = exit 2 (ANALYSIS-ERROR), never a VIOLATION line.\n\n"
            "| id | property | change | when first run | now | rules alone |\n|---|---|---|---|---|---|\n")
    for r in rows:
        f.write("| %s | %s | %s | %s | %s | %s |\n" % r)


def tally(t):
    fa = sum(1 for e in t.values() for rc in e.values() if rc == 1)
    nv = sum(1 for e in t.values() if any(rc == 2 for rc in e.values()))
    return fa, nv


print(len(rows), "rows; default: %d false alarms, %d patches without verdict" % tally(exp), "; gate off: %d / %d" % tally(raw) if raw else "")
