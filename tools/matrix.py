"""detection matrix: apply every patch under selftest/regress/ and seeded/*/ to a scratch copy of the current tree and run
every check against it (16 jobs).  Writes selftest/expect.json: patch -> checks that fire (frozen as must_fire).
    python3-vt tools/matrix.py [--only <substring>]"""
import glob
import json
import os
import shutil
import subprocess
import sys
from concurrent.futures import ThreadPoolExecutor

HERE = os.path.dirname(os.path.dirname(os.path.abspath(__file__)))
sys.path.insert(0, HERE)
from vcheck.selftest import make_copy, run_check   # noqa

PIDS = sorted(os.path.basename(p)[:-3] for p in glob.glob(os.path.join(HERE, "checks", "C*.py")))


def one(rel):
    d = make_copy()
    try:
        r = subprocess.run(["patch", "-p1", "-s", "-f", "-i", os.path.join(HERE, rel)], cwd=d, capture_output=True, text=True)
        if r.returncode != 0:
            return rel, None
        out = {}
        for pid in PIDS:
            rc, rules, tail = run_check(d, pid)
            out[pid] = (rc, rules, tail if rc == 2 else "")
        return rel, out
    finally:
        shutil.rmtree(d, ignore_errors=True)


def main():
    only = sys.argv[sys.argv.index("--only") + 1] if "--only" in sys.argv else ""
    rels = sorted(os.path.relpath(p, HERE) for p in glob.glob(os.path.join(HERE, "selftest", "regress", "*.diff")) + glob.glob(os.path.join(HERE, "seeded", "*", "patch.diff")))
    rels = [r for r in rels if only in r]
    path = os.path.join(HERE, "selftest", "expect.json")
    exp = json.load(open(path)) if os.path.exists(path) and only else {"patches": {}}   # a full run starts afresh (drops removed patches)
    with ThreadPoolExecutor(max_workers=int(os.environ.get('VCHECK_JOBS', '8'))) as ex:
        for rel, out in ex.map(one, rels):
            if out is None:
                print("%-50s does not apply" % rel)
                continue
            fired = sorted(p for p, (rc, rules, t) in out.items() if rc == 1)
            errs = sorted(p for p, (rc, rules, t) in out.items() if rc == 2)
            print("%-50s fired: %s%s" % (rel, " ".join("%s[%s]" % (p, ",".join(out[p][1])) for p in fired) or "-", ("  ERRORS: %s" % errs) if errs else ""))
            for p in errs:
                print("     ", p, out[p][2][-200:].replace("\n", " | "))
            exp["patches"][rel] = {"must_fire": fired, "analysis_error": errs}
    json.dump(exp, open(path, "w"), indent=1, sort_keys=True)


if __name__ == "__main__":
    main()
