"""regenerate MANIFEST.json from the per-property metadata in checks/Cxx.py
(module attribute MANIFEST = dict(text=, note=, technique=, design_ref=)) and
tools/not_applicable.json"""
import importlib
import json
import os
import sys

HERE = os.path.dirname(os.path.dirname(os.path.abspath(__file__)))
sys.path.insert(0, HERE)

props = [json.loads(l) for l in open(os.path.join(HERE, "properties.jsonl"))]
na = json.load(open(os.path.join(HERE, "tools", "not_applicable.json")))
checks = []
nal = []
served = []
for p in props:
    pid = p["id"]
    path = os.path.join(HERE, "checks", pid + ".py")
    meta = None
    if os.path.exists(path) and pid not in na:
        mod = importlib.import_module("checks." + pid)
        meta = getattr(mod, "MANIFEST", None)
    if meta is None:
        nal.append({"property_id": pid, "reason": na.get(pid, "check not built yet (work in progress); see DESIGN.md section 5")})
        continue
    served.append(pid)
    checks.append({
        "property_id": pid,
        "quick_cmd": "python3-vt -m vcheck.run %s --tier quick" % pid,
        "thorough_cmd": "python3-vt -m vcheck.run %s --tier thorough" % pid,
        "evidence_file": "/verif/evidence/%s.json" % pid,
        "replay_cmd_template": "python3-vt -m vcheck.run --replay {path}",
        "engine": "vcheck",
        "level_claimed": {"category": "other", "text": meta["text"], "design_ref": meta.get("design_ref", "DESIGN.md section 5/" + pid)},
        "level_note": meta["note"],
        "technique": meta["technique"],
    })
m = {
    "version": 1,
    "setup_cmd": "python3-vt -m vcheck.setup",
    "hooks": {"guard": "ESUTIL_VERIF",
              "enable": "none needed: no check executes repository code; every check parses /repo's current working tree",
              "baseline_off_cmd": "cd /repo && /venv/bin/python -m pytest -ra -q -p no:cacheprovider --timeout=900 --continue-on-collection-errors",
              "source_commits": [], "add_only": True},
    "engines": [{"name": "vcheck", "path": "/verif/vcheck", "serves_properties": served,
                 "kind_free_text": "repository-specific static analysis: Python ast + statement CFG (networkx dominators, reaching "
                                   "definitions, liveness, flag-specialised paths), clang JSON AST + CFG for C/C++, alias/effect "
                                   "analysis, printf/scanf table agreement, symbolic term normal forms (sympy as normaliser only)"}],
    "checks": checks,
    "notes": "Static analysis only: nothing under /repo is imported, executed or handed to a solver by a registered check. "
             "Exit 2 + 'ANALYSIS-ERROR' means the checker could not do its job (vanished anchor, floor not reached) and is not a verdict. "
             "known_findings.json lists recorded defects (open) and repaired ones (fixed).",
    "not_applicable": nal,
}
json.dump(m, open(os.path.join(HERE, "MANIFEST.json"), "w"), indent=1)
import jsonschema
jsonschema.validate(m, json.load(open("/root/.vp/MANIFEST.schema.json")))
print("MANIFEST.json: %d checks, %d not applicable" % (len(checks), len(nal)))
