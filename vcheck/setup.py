"""setup: verify the tools are present, warm the clang AST cache, validate
known_findings.json.  Offline; nothing is fetched or installed."""
import json
import os
import shutil
import sys

from .core import VERIF, AnalysisError


def main():
    ok = True
    for tool in ("clang", "clang++"):
        if shutil.which(tool) is None:
            print("setup: %s not found" % tool)
            ok = False
    try:
        import networkx  # noqa
        import sympy  # noqa
    except Exception as e:
        print("setup: tooling venv lacks a module: %s" % e)
        ok = False
    try:
        from . import cfront
        for tu in cfront.TUS:
            d = cfront.load_tu(tu)
            print("setup: %s: %d declarations" % (tu, len(d)))
    except AnalysisError as e:
        # a tree that does not compile is reported by the checks themselves
        print("setup: clang cache not warmed: %s" % e)
    kf = os.path.join(VERIF, "known_findings.json")
    if os.path.exists(kf):
        d = json.load(open(kf))
        for k in d.get("open", []):
            for req in ("property", "rule", "key", "what"):
                if req not in k:
                    print("setup: known_findings entry lacks %s: %s" % (req, k))
                    ok = False
    print("setup: %s" % ("ok" if ok else "FAILED"))
    return 0 if ok else 1


if __name__ == "__main__":
    sys.exit(main())
