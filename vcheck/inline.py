"""Undo "extract helper" refactorings before analysis (opt-in, `PyRepo(inline=True)`).

A function or method that does not exist in the reviewed baseline (`/verif/baseline`) and is simple enough is a *new private
helper*.  Calls to it from functions of the same module are replaced by its body, so that the rules see the caller the way it
reads with the helper folded back in (then `rename.undo_renames` aligns the names with the baseline).  The transformation is
semantics preserving by construction or it is not done:

  * helper: no decorators other than staticmethod, no *args/**kwargs, no nested def/lambda-captured rebinding, no yield/global/
    nonlocal/try/with/loops-with-return, not recursive; every `return` is in tail position once guard-clause returns
    `if c: return x; rest` are read as `if c: return x else: rest`;
  * call site: the call is the whole right-hand side of an assignment, a `return`, an expression statement, or occurs at a
    position of a simple statement (Assign / AugAssign / Return / Expr / `if` test / Raise) that is evaluated unconditionally
    and before any other call of the statement that could observe the helper's effects (we hoist only when the call is the
    leftmost-outermost call of the statement or all calls left of it are themselves inlined helpers);
  * a list display/comprehension `[h(a) for a in (x, y, z)]` with a literal tuple/list of names is unrolled first;
  * parameters: a parameter the helper never assigns is substituted by the argument when that is a name, constant or attribute
    chain of names (pure, cheap), otherwise bound to a fresh local; a parameter the helper assigns reuses the caller's variable
    when the argument is a plain name that the call statement itself rebinds (`ra, dec = h(ra, dec)`), else a fresh local;
  * helper locals keep their names unless the caller uses the name, then they get a suffix.

Nothing is taken from the baseline except the list of function names that already existed there.
"""
import ast
import copy

from . import rename

MAX_ROUNDS = 4


def _is_simple_pure(e):
    if isinstance(e, (ast.Name, ast.Constant)):
        return True
    if isinstance(e, ast.Attribute):
        return _is_simple_pure(e.value)
    if isinstance(e, ast.UnaryOp) and isinstance(e.operand, ast.Constant):
        return True
    return False


class _Unsupported(Exception):
    pass


def _tailify(body):
    """statement list in which every Return is in tail position, or raise _Unsupported"""
    out = []
    for i, s in enumerate(body):
        if isinstance(s, ast.If) and _has_return(s) and i < len(body) - 1:
            rest = body[i + 1:]
            b_ends = _ends(s.body)
            o_ends = _ends(s.orelse) if s.orelse else False
            if b_ends and not s.orelse:
                new = ast.If(test=s.test, body=_tailify(s.body), orelse=_tailify(rest))
            elif b_ends and not o_ends:
                new = ast.If(test=s.test, body=_tailify(s.body), orelse=_tailify(s.orelse + rest))
            elif o_ends and not b_ends:
                new = ast.If(test=s.test, body=_tailify(s.body + rest), orelse=_tailify(s.orelse))
            elif b_ends and o_ends:
                new = ast.If(test=s.test, body=_tailify(s.body), orelse=_tailify(s.orelse))
            else:
                raise _Unsupported("return inside an if that also falls through")
            ast.copy_location(new, s)
            out.append(new)
            return out
        if isinstance(s, ast.If) and _has_return(s):
            new = ast.If(test=s.test, body=_tailify(s.body), orelse=_tailify(s.orelse) if s.orelse else [])
            ast.copy_location(new, s)
            out.append(new)
            continue
        if isinstance(s, ast.Return):
            if i != len(body) - 1:
                raise _Unsupported("code after return")
            out.append(s)
            continue
        if _has_return(s):
            raise _Unsupported("return inside %s" % type(s).__name__)
        out.append(s)
    return out


def _has_return(s):
    for x in ast.walk(s):
        if isinstance(x, ast.Return):
            return True
    return False


def _ends(body):
    """does the statement list always leave the function (return / raise) at its end"""
    if not body:
        return False
    last = body[-1]
    if isinstance(last, (ast.Return, ast.Raise)):
        return True
    if isinstance(last, ast.If) and last.orelse:
        return _ends(last.body) and _ends(last.orelse)
    return False


class Helper:
    def __init__(self, fn, cls=None):
        self.fn = fn
        self.cls = cls
        self.name = fn.name
        a = fn.args
        if a.vararg or a.kwarg or a.posonlyargs:
            raise _Unsupported("signature")
        self.static = False
        for d in fn.decorator_list:
            if isinstance(d, ast.Name) and d.id == "staticmethod":
                self.static = True
            else:
                raise _Unsupported("decorator")
        for x in ast.walk(fn):
            if x is fn:
                continue
            if isinstance(x, (ast.FunctionDef, ast.AsyncFunctionDef, ast.Lambda, ast.Yield, ast.YieldFrom, ast.Global, ast.Nonlocal, ast.Try, ast.With,
                              ast.ClassDef, ast.Await, ast.Delete, ast.NamedExpr)):
                raise _Unsupported(type(x).__name__)
            if isinstance(x, ast.Call):
                f = x.func
                nm = f.id if isinstance(f, ast.Name) else (f.attr if isinstance(f, ast.Attribute) else None)
                if nm == fn.name:
                    raise _Unsupported("recursive")
                if nm in ("locals", "vars", "globals", "eval", "exec"):
                    raise _Unsupported("introspection")
        body = list(fn.body)
        if body and isinstance(body[0], ast.Expr) and isinstance(body[0].value, ast.Constant) and isinstance(body[0].value.value, str):
            body = body[1:]
        self.body = _tailify(body)
        self.params = [x.arg for x in a.args] + [x.arg for x in a.kwonlyargs]
        self.positional = [x.arg for x in a.args]
        self.defaults = {}
        for p, d in zip(reversed(a.args), reversed(a.defaults)):
            self.defaults[p.arg] = d
        for p, d in zip(a.kwonlyargs, a.kw_defaults):
            if d is not None:
                self.defaults[p.arg] = d
        self.assigned = set()
        for x in ast.walk(fn):
            if isinstance(x, ast.Name) and isinstance(x.ctx, (ast.Store, ast.Del)):
                self.assigned.add(x.id)
        # names bound by comprehensions stay local to them
        self.locals = self.assigned - set(self.params)


class _Sub(ast.NodeTransformer):
    def __init__(self, names, exprs):
        self.names = names      # local name -> new name
        self.exprs = exprs      # param name -> expression to substitute

    def visit_Name(self, n):
        if n.id in self.exprs and isinstance(n.ctx, ast.Load):
            return ast.copy_location(copy.deepcopy(self.exprs[n.id]), n)
        if n.id in self.names:
            return ast.copy_location(ast.Name(id=self.names[n.id], ctx=n.ctx), n)
        return n


def _names_in(fn):
    out = set()
    for x in ast.walk(fn):
        if isinstance(x, ast.Name):
            out.add(x.id)
        elif isinstance(x, ast.arg):
            out.add(x.arg)
    return out


class Inliner:
    def __init__(self, tree, helpers, log, relpath):
        self.tree = tree
        self.helpers = helpers          # (cls or None, name) -> Helper
        self.log = log
        self.relpath = relpath
        self.counter = 0

    # -- resolution --------------------------------------------------------
    def resolve(self, call, cls):
        f = call.func
        if isinstance(f, ast.Name):
            return self.helpers.get((None, f.id)), None
        if isinstance(f, ast.Attribute) and isinstance(f.value, ast.Name) and f.value.id in ("self", "cls") and cls is not None:
            h = self.helpers.get((cls, f.attr))
            return h, f.value
        return None, None

    # -- one call ------------------------------------------------------------
    def expand(self, call, h, recv, caller_names, rebound, want):
        """-> (statements, result expression or None).  want: 'value' | 'none'"""
        params = list(h.positional)
        bind = {}
        if h.cls is not None and not h.static:
            if not params:
                raise _Unsupported("method without self")
            bind[params[0]] = recv
            params = params[1:]
        if any(isinstance(a, ast.Starred) for a in call.args) or any(k.arg is None for k in call.keywords):
            raise _Unsupported("star args")
        if len(call.args) > len(params):
            raise _Unsupported("arity")
        for p, a in zip(params, call.args):
            bind[p] = a
        for k in call.keywords:
            if k.arg in bind or k.arg not in h.params:
                raise _Unsupported("keyword")
            bind[k.arg] = k.value
        for p in h.params:
            if p not in bind:
                if p in h.defaults:
                    bind[p] = h.defaults[p]
                else:
                    raise _Unsupported("missing argument")
        self.counter += 1
        k = self.counter
        pre = []
        names, exprs = {}, {}
        used = set(caller_names)
        for p in h.params:
            a = bind[p]
            if p not in h.assigned:
                if _is_simple_pure(a):
                    exprs[p] = a
                    continue
            elif isinstance(a, ast.Name) and a.id in rebound and sum(1 for q in h.params for x in ast.walk(bind[q]) if isinstance(x, ast.Name) and x.id == a.id) == 1:
                names[p] = a.id
                continue
            new = p if p not in used else "%s__%d" % (p, k)
            used.add(new)
            names[p] = new
            pre.append(ast.Assign(targets=[ast.Name(id=new, ctx=ast.Store())], value=copy.deepcopy(a), lineno=call.lineno))
        for l in sorted(h.locals):
            new = l if l not in used else "%s__%d" % (l, k)
            used.add(new)
            names[l] = new
        caller_names |= used
        body = [_Sub(names, exprs).visit(copy.deepcopy(s)) for s in h.body]
        res = {"n": 0}
        rv = "_ret__%d" % k

        def fix(stmts):
            out = []
            for s in stmts:
                if isinstance(s, ast.Return):
                    res["n"] += 1
                    if want == "value":
                        out.append(ast.Assign(targets=[ast.Name(id=rv, ctx=ast.Store())], value=s.value or ast.Constant(value=None), lineno=call.lineno))
                    elif s.value is not None and not _is_simple_pure(s.value):
                        out.append(ast.Expr(value=s.value))
                    if not out:
                        out.append(ast.Pass())
                elif isinstance(s, ast.If):
                    s.body = fix(s.body) or [ast.Pass()]
                    s.orelse = fix(s.orelse)
                    out.append(s)
                else:
                    out.append(s)
            return out
        body = fix(body)
        result = None
        if want == "value":
            if res["n"] == 0:
                result = ast.Constant(value=None)
            elif res["n"] == 1 and body and isinstance(body[-1], ast.Assign) and isinstance(body[-1].targets[0], ast.Name) and body[-1].targets[0].id == rv:
                result = body.pop().value
            else:
                result = ast.Name(id=rv, ctx=ast.Load())
                if not _ends_assigning(body, rv):
                    # some path falls off the end: returns None there
                    body.insert(0, ast.Assign(targets=[ast.Name(id=rv, ctx=ast.Store())], value=ast.Constant(value=None), lineno=call.lineno))
        stmts = pre + body
        for s in stmts:
            for x in ast.walk(s):
                if not hasattr(x, "lineno") or True:
                    x.lineno = getattr(call, "lineno", 1)
                    x.col_offset = getattr(call, "col_offset", 0)
                    x.end_lineno = getattr(call, "end_lineno", x.lineno)
                    x.end_col_offset = getattr(call, "end_col_offset", 0)
        return stmts, result

    # -- statements ------------------------------------------------------------
    def first_inlinable(self, stmt, cls):
        """the helper call evaluated first in a simple statement (leftmost-innermost in evaluation order), or None"""
        if isinstance(stmt, ast.Assign):
            roots = [stmt.value]
        elif isinstance(stmt, ast.AugAssign):
            if not isinstance(stmt.target, ast.Name):
                return None
            roots = [stmt.value]
        elif isinstance(stmt, (ast.Return, ast.Expr)):
            roots = [stmt.value] if stmt.value is not None else []
        elif isinstance(stmt, ast.If):
            roots = [stmt.test]
        elif isinstance(stmt, ast.Raise):
            roots = [stmt.exc] if stmt.exc is not None else []
        else:
            return None
        order = []

        def ev(e, cond):
            """append calls in evaluation order; cond = evaluated only conditionally"""
            if isinstance(e, ast.BoolOp):
                ev(e.values[0], cond)
                for v in e.values[1:]:
                    ev(v, True)
                return
            if isinstance(e, ast.IfExp):
                ev(e.test, cond)
                ev(e.body, True)
                ev(e.orelse, True)
                return
            if isinstance(e, (ast.ListComp, ast.SetComp, ast.DictComp, ast.GeneratorExp, ast.Lambda)):
                order.append((None, True))
                return
            if isinstance(e, ast.Call):
                ev(e.func, cond)
                for a in e.args:
                    ev(a, cond)
                for k in e.keywords:
                    ev(k.value, cond)
                order.append((e, cond))
                return
            if isinstance(e, ast.Compare) and len(e.ops) > 1:
                ev(e.left, cond)
                ev(e.comparators[0], cond)
                for c in e.comparators[1:]:
                    ev(c, True)
                return
            for c in ast.iter_child_nodes(e):
                if isinstance(c, ast.expr):
                    ev(c, cond)
        for r in roots:
            ev(r, False)
        out = []
        first = True
        for c, cond in order:
            if c is None:
                break
            h, recv = (None, None) if cond else self.resolve(c, cls)
            if h is not None:
                out.append((c, h, recv, first))
            elif not cond:
                first = False       # an unknown call comes first: hoisting statements above it could reorder effects
        return out

    def unroll(self, stmt):
        """`a, b = [h(x) for x in (p, q)]` -> `a, b = (h(p), h(q))`"""
        if not isinstance(stmt, ast.Assign):
            return
        v = stmt.value
        if isinstance(v, (ast.ListComp, ast.GeneratorExp)) and len(v.generators) == 1:
            g = v.generators[0]
            if not g.ifs and not g.is_async and isinstance(g.target, ast.Name) and isinstance(g.iter, (ast.Tuple, ast.List)) \
                    and all(_is_simple_pure(e) for e in g.iter.elts) and len(g.iter.elts) <= 12:
                elts = [_Sub({}, {g.target.id: e}).visit(copy.deepcopy(v.elt)) for e in g.iter.elts]
                stmt.value = ast.copy_location(ast.Tuple(elts=elts, ctx=ast.Load()), v)

    def block(self, stmts, cls, caller_names, fname, in_try=False):
        out = []
        for s in stmts:
            for fld in ("body", "orelse", "finalbody"):
                if hasattr(s, fld) and isinstance(getattr(s, fld), list) and not isinstance(s, (ast.FunctionDef, ast.ClassDef)):
                    setattr(s, fld, self.block(getattr(s, fld), cls, caller_names, fname, in_try or isinstance(s, ast.Try)))
            if isinstance(s, ast.Try):
                for hd in s.handlers:
                    hd.body = self.block(hd.body, cls, caller_names, fname, True)
            self.unroll(s)
            guard = 0
            touched = False
            while guard < 32:
                guard += 1
                hits = self.first_inlinable(s, cls) or []
                done = False
                for call, h, recv, is_first in hits:
                    rebound = set()
                    if isinstance(s, ast.Assign):
                        for t in s.targets:
                            for x in ast.walk(t):
                                if isinstance(x, ast.Name):
                                    rebound.add(x.id)
                    whole = (isinstance(s, (ast.Assign, ast.Return, ast.Expr)) and s.value is call)
                    want = "none" if (isinstance(s, ast.Expr) and whole) else "value"
                    try:
                        pre, result = self.expand(call, h, recv, set(caller_names), rebound if (whole and not in_try) else set(), want)
                    except _Unsupported:
                        continue
                    if pre and not is_first:
                        continue            # statements would have to be hoisted above a call that is evaluated earlier
                    done = True
                    break
                if not done:
                    break
                caller_names |= {x.id for st in pre for x in ast.walk(st) if isinstance(x, ast.Name)}
                touched = True
                self.log.append((self.relpath, fname, h.name))
                out.extend(pre)
                if want == "none":
                    s = None
                    break
                # tuple-to-tuple: pairwise assignments, dropping `x = x`
                if whole and isinstance(s, ast.Assign) and len(s.targets) == 1 and isinstance(s.targets[0], ast.Tuple) and isinstance(result, ast.Tuple) \
                        and len(result.elts) == len(s.targets[0].elts) and all(isinstance(t, ast.Name) for t in s.targets[0].elts) \
                        and all(isinstance(r, ast.Name) for r in result.elts):
                    tn = [t.id for t in s.targets[0].elts]
                    rn = [r.id for r in result.elts]
                    if tn == rn:
                        s = None
                        break
                    if not (set(tn) & set(rn)) or all(a == b or b not in tn for a, b in zip(tn, rn)):
                        for a, b in zip(tn, rn):
                            if a != b:
                                out.append(ast.copy_location(ast.Assign(targets=[ast.Name(id=a, ctx=ast.Store())], value=ast.Name(id=b, ctx=ast.Load()), lineno=s.lineno), s))
                        s = None
                        break
                if whole and isinstance(s, ast.Assign) and len(s.targets) == 1 and isinstance(s.targets[0], ast.Name) and isinstance(result, ast.Name) \
                        and result.id == s.targets[0].id:
                    s = None
                    break
                _replace(s, call, result)
            if s is not None and touched:
                out.extend(_split_tuple_assign(s))
            elif s is not None:
                out.append(s)
        return out


def _split_tuple_assign(s):
    """`a, b = (e1, e2)` -> `a = e1; b = e2` when no later element reads an earlier target"""
    if isinstance(s, ast.Assign) and len(s.targets) == 1 and isinstance(s.targets[0], ast.Tuple) and isinstance(s.value, (ast.Tuple, ast.List)) \
            and len(s.value.elts) == len(s.targets[0].elts) and all(isinstance(t, ast.Name) for t in s.targets[0].elts):
        tn = [t.id for t in s.targets[0].elts]
        for j, e in enumerate(s.value.elts):
            reads = {x.id for x in ast.walk(e) if isinstance(x, ast.Name)}
            if reads & set(tn[:j]):
                return [s]
        return [ast.copy_location(ast.Assign(targets=[ast.Name(id=t, ctx=ast.Store())], value=e, lineno=s.lineno), s) for t, e in zip(tn, s.value.elts)]
    return [s]


def _ends_assigning(body, rv):
    if not body:
        return False
    last = body[-1]
    if isinstance(last, ast.Assign) and isinstance(last.targets[0], ast.Name) and last.targets[0].id == rv:
        return True
    if isinstance(last, ast.Raise):
        return True
    if isinstance(last, ast.If) and last.orelse:
        return _ends_assigning(last.body, rv) and _ends_assigning(last.orelse, rv)
    return False


def _replace(stmt, old, new):
    for parent in ast.walk(stmt):
        for fld, val in ast.iter_fields(parent):
            if val is old:
                setattr(parent, fld, new)
                return True
            if isinstance(val, list):
                for i, v in enumerate(val):
                    if v is old:
                        val[i] = new
                        return True
    return False


def inline_new_helpers(tree, relpath, log=None):
    """fold functions that the baseline does not have back into their callers (in place); returns the number of call sites"""
    base = rename._baseline_funcs(relpath)
    if not base:
        return 0
    log = log if log is not None else []
    n0 = len(log)
    for _ in range(MAX_ROUNDS):
        helpers = {}
        for node in tree.body:
            if isinstance(node, ast.FunctionDef) and node.name not in base:
                try:
                    helpers[(None, node.name)] = Helper(node)
                except _Unsupported:
                    pass
            elif isinstance(node, ast.ClassDef):
                for sub in node.body:
                    if isinstance(sub, ast.FunctionDef) and (node.name + "." + sub.name) not in base and node.name + ".__init__" in base or \
                            isinstance(sub, ast.FunctionDef) and (node.name + "." + sub.name) not in base and any(k.startswith(node.name + ".") for k in base):
                        try:
                            helpers[(node.name, sub.name)] = Helper(sub, cls=node.name)
                        except _Unsupported:
                            pass
        if not helpers:
            break
        before = len(log)
        inl = Inliner(tree, helpers, log, relpath)
        for node in tree.body:
            if isinstance(node, ast.FunctionDef):
                node.body = inl.block(node.body, None, _names_in(node), node.name)
            elif isinstance(node, ast.ClassDef):
                for sub in node.body:
                    if isinstance(sub, ast.FunctionDef):
                        sub.body = inl.block(sub.body, node.name, _names_in(sub), node.name + "." + sub.name)
        if len(log) == before:
            break
    ast.fix_missing_locations(tree)
    return len(log) - n0
