"""C / C++ side of the effect analysis (E2): which PyObject* arguments of an
extension entry point can be written through.

A pointer variable is *derived* from an array object when it is assigned from
an expression containing PyArray_DATA / PyArray_BYTES / PyArray_GETPTR* of
that object or from another derived pointer (flow-insensitive closure).  An
object is *written* when a derived pointer (or a direct accessor expression)
is the base of a store, or is passed as destination to a libc reader/copier,
or is passed to another function of the TU whose parameter is written
(fixpoint over the TU's call graph).
"""
from . import cfront
from .cstr import c_string_literal, parse_tuple_format

ACCESSORS = ("PyArray_DATA", "PyArray_BYTES", "PyArray_GETPTR1", "PyArray_GETPTR2", "PyArray_GetPtr")
DEST0 = ("fread", "memcpy", "memset", "memmove", "strcpy", "strncpy", "sprintf", "snprintf", "fgets", "read")
SCANF = {"fscanf": 2, "sscanf": 2, "scanf": 1}


def _refs(n):
    return {x.get("referencedDecl", {}).get("name") for x in cfront.walk(n) if x.get("kind") == "DeclRefExpr"}


def _objs_in(expr, derived):
    """array objects that an expression's value points into"""
    out = set()
    for x in cfront.walk(expr):
        if x.get("kind") in ("CallExpr",) and cfront.callee_name(x) in ACCESSORS:
            for a in cfront.call_args(x)[:1]:
                for r in _refs(a):
                    out.add(r)
        if x.get("kind") == "DeclRefExpr":
            nm = x.get("referencedDecl", {}).get("name")
            if nm in derived:
                out |= derived[nm]
        if x.get("kind") == "MemberExpr" and cfront.render(x) in derived:
            out |= derived[cfront.render(x)]
    return out


def analyse_function(fn, tu_funcs, summaries):
    """returns dict: obj name (param or parsed local) -> list of write descriptions"""
    body = cfront.body_of(fn)
    derived = {}
    for c in fn.get("inner", []) or []:
        if c.get("kind") == "ParmVarDecl" and "*" in c.get("type", {}).get("qualType", "") and c.get("name"):
            derived[c["name"]] = {c["name"]}
    # closure of pointer derivation
    for _ in range(6):
        changed = False
        for x in cfront.walk(body):
            k = x.get("kind")
            tgt = None
            src = None
            if k == "VarDecl":
                init = [c for c in x.get("inner", []) if isinstance(c, dict) and c.get("kind")]
                if init and "*" in x.get("type", {}).get("qualType", ""):
                    tgt, src = x.get("name"), init[-1]
            elif k == "BinaryOperator" and x.get("opcode") == "=":
                l = cfront.strip(x["inner"][0])
                if l.get("kind") in ("DeclRefExpr", "MemberExpr") and "*" in l.get("type", {}).get("qualType", ""):
                    tgt, src = cfront.render(l), x["inner"][1]
            elif k == "CompoundAssignOperator":
                continue
            if tgt and src is not None:
                o = _objs_in(src, derived)
                if o - derived.get(tgt, set()):
                    derived.setdefault(tgt, set()).update(o)
                    changed = True
        if not changed:
            break
    writes = {}

    def add(objs, what, line):
        for o in objs:
            writes.setdefault(o, []).append("%s (line %s)" % (what, line))

    for x in cfront.walk(body):
        k = x.get("kind")
        if (k == "BinaryOperator" and x.get("opcode") == "=") or k == "CompoundAssignOperator" or \
                (k == "UnaryOperator" and x.get("opcode") in ("++", "--")):
            l = cfront.strip(x["inner"][0])
            base = None
            if l.get("kind") == "ArraySubscriptExpr":
                base = l["inner"][0]
            elif l.get("kind") == "UnaryOperator" and l.get("opcode") == "*":
                base = l["inner"][0]
            if base is not None:
                add(_objs_in(base, derived), "store through %s" % cfront.render(l), x.get("line"))
        if k in ("CallExpr", "CXXMemberCallExpr"):
            nm = cfront.callee_name(x)
            args = cfront.call_args(x)
            if nm in DEST0 and args:
                add(_objs_in(args[0], derived), "%s destination %s" % (nm, cfront.render(args[0])), x.get("line"))
            elif nm in SCANF:
                for a in args[SCANF[nm]:]:
                    add(_objs_in(a, derived), "%s destination %s" % (nm, cfront.render(a)), x.get("line"))
            elif nm in summaries and nm not in ACCESSORS:
                cs = summaries[nm]
                for i, a in enumerate(args):
                    if i in cs.get("ptr_writes", ()):
                        add(_objs_in(a, derived), "passed to %s() which writes through parameter %d" % (nm, i), x.get("line"))
                        # the argument may be the object itself (PyObject*)
                        for r in _refs(a):
                            if cfront.strip(a).get("kind") == "DeclRefExpr":
                                add({r}, "passed to %s() which writes through parameter %d" % (nm, i), x.get("line"))
    return writes, derived


def tu_summaries(tu_name):
    """function name -> {'ptr_writes': set(param indices written through), 'params': [...], 'writes': {...}}"""
    decls = cfront.load_tu(tu_name)
    funcs = cfront.functions(decls)
    summ = {}
    for name, fn in funcs.items():
        summ[name] = {"ptr_writes": set(), "params": cfront.params_of(fn), "writes": {}}
    for _ in range(8):
        changed = False
        for name, fn in funcs.items():
            w, derived = analyse_function(fn, funcs, summ)
            params = summ[name]["params"]
            idx = {i for i, p in enumerate(params) if p in w}
            summ[name]["writes"] = w
            if idx != summ[name]["ptr_writes"]:
                summ[name]["ptr_writes"] = idx
                changed = True
        if not changed:
            break
    return funcs, summ


def parse_tuple_binding(fn):
    """for a METH_VARARGS function: positional index -> local variable name, and the format string"""
    for c in cfront.calls_in(cfront.body_of(fn)):
        if cfront.callee_name(c) in ("PyArg_ParseTuple", "_PyArg_ParseTuple_SizeT", "PyArg_ParseTupleAndKeywords"):
            args = cfront.call_args(c)
            fmt = c_string_literal(args[1])
            names = []
            for a in args[2:]:
                s = cfront.strip(a)
                if s.get("kind") == "UnaryOperator" and s.get("opcode") == "&":
                    names.append(cfront.render(s["inner"][0]))
                else:
                    names.append(cfront.render(s))
            return fmt, names
    return None, []
