"""Small AST pattern matcher with metavariables, used to state rules about the
*shape* of an expression or statement without naming the repository's locals.

    pat.match("(_X >= _LO) & (_X <= _HI)", node)      -> {"_X": <ast>, "_LO": <ast>, "_HI": <ast>} or None
    pat.find("_A[_I] = _V", tree)                      -> [(node, binds), ...]

Names that start with an underscore followed by an upper-case letter are
metavariables: they match any expression, and a repeated metavariable must
match structurally equal sub-trees.  `__` matches anything without binding.
`commutative=True` lets `+ * & | and or == !=` match with operands exchanged.
Everything else (operators, call names, attribute names, constants, arity)
must agree.
"""
import ast

COMM_BIN = (ast.Add, ast.Mult, ast.BitAnd, ast.BitOr, ast.BitXor)
COMM_CMP = (ast.Eq, ast.NotEq)


def _is_meta(n):
    return isinstance(n, ast.Name) and len(n.id) >= 2 and n.id[0] == "_" and (n.id[1].isupper() or n.id == "__")


def _dump(n):
    return ast.dump(n, annotate_fields=False, include_attributes=False) if isinstance(n, ast.AST) else repr(n)


def _parse(p):
    t = ast.parse(p.strip())
    if len(t.body) != 1:
        raise ValueError("pattern must be one statement or expression: %r" % p)
    b = t.body[0]
    return b.value if isinstance(b, ast.Expr) else b


_cache = {}


def compile_(p):
    if isinstance(p, ast.AST):
        return p
    if p not in _cache:
        _cache[p] = _parse(p)
    return _cache[p]


def _m(p, n, b, comm):
    if _is_meta(p):
        if p.id == "__":
            return True
        if p.id in b:
            return _dump(_strip_ctx(b[p.id])) == _dump(_strip_ctx(n))
        b[p.id] = n
        return True
    if isinstance(p, ast.AST):
        if type(p) is not type(n):
            return False
        if comm and isinstance(p, ast.BinOp) and isinstance(p.op, COMM_BIN) and type(p.op) is type(n.op):
            for l, r in ((n.left, n.right), (n.right, n.left)):
                b2 = dict(b)
                if _m(p.left, l, b2, comm) and _m(p.right, r, b2, comm):
                    b.clear()
                    b.update(b2)
                    return True
            return False
        if comm and isinstance(p, ast.BoolOp) and type(p.op) is type(n.op) and len(p.values) == len(n.values) == 2:
            for l, r in ((n.values[0], n.values[1]), (n.values[1], n.values[0])):
                b2 = dict(b)
                if _m(p.values[0], l, b2, comm) and _m(p.values[1], r, b2, comm):
                    b.clear()
                    b.update(b2)
                    return True
            return False
        if comm and isinstance(p, ast.Compare) and len(p.ops) == 1 and len(n.ops) == 1 and isinstance(p.ops[0], COMM_CMP) and type(p.ops[0]) is type(n.ops[0]):
            for l, r in ((n.left, n.comparators[0]), (n.comparators[0], n.left)):
                b2 = dict(b)
                if _m(p.left, l, b2, comm) and _m(p.comparators[0], r, b2, comm):
                    b.clear()
                    b.update(b2)
                    return True
            return False
        for f in p._fields:
            if f in ("ctx", "type_comment", "kind"):
                continue
            if not _m(getattr(p, f, None), getattr(n, f, None), b, comm):
                return False
        return True
    if isinstance(p, list):
        if not isinstance(n, list) or len(p) != len(n):
            return False
        return all(_m(x, y, b, comm) for x, y in zip(p, n))
    return p == n


def _strip_ctx(n):
    import copy
    n = copy.deepcopy(n)
    for x in ast.walk(n):
        if hasattr(x, "ctx"):
            x.ctx = ast.Load()
    return n


def match(pattern, node, commutative=True, binds=None):
    """bindings dict if node has the shape of pattern, else None"""
    b = dict(binds or {})
    return b if _m(compile_(pattern), node, b, commutative) else None


def find(pattern, tree, commutative=True, nested=False):
    """[(node, binds)] for every sub-tree of `tree` that matches (nested function bodies skipped unless nested=True)"""
    p = compile_(pattern)
    out = []
    todo = [tree]
    while todo:
        n = todo.pop()
        if isinstance(n, type(p)) or _is_meta(p):
            b = match(p, n, commutative)
            if b is not None:
                out.append((n, b))
        for c in ast.iter_child_nodes(n):
            if not nested and isinstance(c, (ast.FunctionDef, ast.AsyncFunctionDef, ast.ClassDef, ast.Lambda)) and c is not tree:
                continue
            todo.append(c)
    out.sort(key=lambda t: (getattr(t[0], "lineno", 0), getattr(t[0], "col_offset", 0)))
    return out


def same(a, b):
    """structural equality of two expressions (contexts ignored)"""
    return _dump(_strip_ctx(a)) == _dump(_strip_ctx(b))


def text(n):
    try:
        return ast.unparse(n)
    except Exception:
        return _dump(n)
