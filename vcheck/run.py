"""CLI:  python3-vt -m vcheck.run Cxx [--tier quick|thorough]
         python3-vt -m vcheck.run --replay <violation.json>

exit 0: property held on everything analysed (known findings are printed)
exit 1: VIOLATION line(s) printed
exit 2: ANALYSIS-ERROR (the checker could not do its job; says nothing about /repo)
"""
import argparse
import importlib
import json
import os
import sys
import traceback

from .core import AnalysisError, Check, VERIF


def main(argv=None):
    if os.environ.get("PYTHONHASHSEED") != "0" and argv is None:
        # sympy's normal forms can depend on set iteration order: fix the hash seed so that a verdict is reproducible
        os.environ["PYTHONHASHSEED"] = "0"
        os.execv(sys.executable, [sys.executable, "-m", "vcheck.run"] + sys.argv[1:])
    ap = argparse.ArgumentParser()
    ap.add_argument("pid", nargs="?")
    ap.add_argument("--tier", default=os.environ.get("VERIF_TIER", "quick"))
    ap.add_argument("--replay")
    ap.add_argument("--no-evidence", action="store_true")
    args = ap.parse_args(argv)
    seed = int(os.environ.get("VERIF_SEED", "0") or 0)
    only = None
    pid = args.pid
    if args.replay:
        with open(args.replay) as f:
            r = json.load(f)
        pid = r["property"]
        only = (r["rule"], r["key"])
    if not pid:
        ap.error("property id or --replay required")
    tier = "thorough" if args.tier == "thorough" else "quick"
    sys.path.insert(0, VERIF)
    try:
        mod = importlib.import_module("checks.%s" % pid)
        chk = Check(pid, tier=tier, seed=seed, only=only)
        mod.run(chk)
        if tier == "thorough" and only is None:
            from . import selftest
            selftest.run_for(pid, mod, chk)
        rc = chk.finish(write_evidence=not args.no_evidence)
    except AnalysisError as e:
        print("ANALYSIS-ERROR %s: %s" % (pid, e))
        return 2
    except Exception as e:  # internal failure of the checker: never a violation
        print("ANALYSIS-ERROR %s: internal error %s: %s" % (pid, type(e).__name__, e))
        traceback.print_exc()
        return 2
    return rc


if __name__ == "__main__":
    sys.exit(main())
