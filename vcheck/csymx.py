"""E6 for C: lower loop-free C functions (plus the reduction idiom
`for (i=lo;i<hi;i++) { t = f(i); acc += g(t,i); }`) from the clang AST to sympy
terms.  Callee calls stay as function symbols (one-level conformance)."""
import sympy as sp

from . import cfront
from .core import AnalysisError

MATH = {"sqrt": sp.sqrt, "sinh": sp.sinh, "sin": sp.sin, "cos": sp.cos, "fabs": sp.Abs, "exp": sp.exp, "log": sp.log,
        "cosh": sp.cosh, "tan": sp.tan, "acos": sp.acos, "asin": sp.asin, "atan": sp.atan, "atan2": sp.atan2, "pow": lambda a, b: a ** b, "log10": lambda a: sp.log(a, 10)}


class CUnsupported(AnalysisError):
    pass


def num(v):
    s = str(v)
    try:
        r = sp.Rational(s)
    except Exception:
        r = sp.Float(s, 30)
    # recognise pi written as a literal
    if abs(float(r) - 3.141592653589793) < 1e-14:
        return sp.pi
    return r


class Lower:
    def __init__(self, fn, symbols=None):
        self.fn = fn
        self.env = {}
        self.params = cfront.params_of(fn)
        for p in self.params:
            self.env[p] = sp.Symbol(p)
        if symbols:
            self.env.update(symbols)

    def expr(self, n):
        k = n.get("kind")
        inner = n.get("inner", []) or []
        if k in ("ImplicitCastExpr", "ParenExpr", "CStyleCastExpr", "ConstantExpr"):
            return self.expr(inner[-1] if k == "CStyleCastExpr" else inner[0])
        if k == "FloatingLiteral":
            return num(n["value"])
        if k == "IntegerLiteral":
            return sp.Integer(int(n["value"]))
        if k == "DeclRefExpr":
            nm = n["referencedDecl"]["name"]
            if nm in self.env:
                return self.env[nm]
            return sp.Symbol(nm)
        if k in ("CXXStaticCastExpr", "CXXFunctionalCastExpr", "CXXReinterpretCastExpr", "CXXConstCastExpr", "ExprWithCleanups",
                 "MaterializeTemporaryExpr", "CXXBindTemporaryExpr") and inner:
            return self.expr(inner[-1])
        if k == "MemberExpr" and inner and cfront.strip(inner[0]).get("kind") == "CXXThisExpr":
            nm = n["name"]
            return self.env.get(nm, sp.Symbol(nm))
        if k == "MemberExpr":
            base = self.expr(inner[0])
            return sp.Symbol("%s.%s" % (base, n["name"]))
        if k == "ArraySubscriptExpr":
            b = self.expr(inner[0])
            i = self.expr(inner[1])
            return sp.Function(str(b))(i)
        if k == "UnaryOperator":
            v = self.expr(inner[0])
            op = n["opcode"]
            if op == "-":
                return -v
            if op == "+":
                return v
            if op == "!":
                return sp.Not(v) if getattr(v, "is_Boolean", False) or getattr(v, "is_Relational", False) else sp.Eq(v, 0)
            raise CUnsupported("C unary operator %s" % op)
        if k == "BinaryOperator":
            op = n["opcode"]
            a = self.expr(inner[0])
            b = self.expr(inner[1])
            if op == "+":
                return a + b
            if op == "-":
                return a - b
            if op == "*":
                return a * b
            if op == "/":
                return a / b
            if op == "<<":
                return a * sp.Integer(2) ** b
            if op == ">>":
                return sp.floor(a / sp.Integer(2) ** b)
            if op == "%":
                return sp.Mod(a, b)
            if op in ("<", ">", "<=", ">=", "==", "!="):
                return {"<": sp.Lt, ">": sp.Gt, "<=": sp.Le, ">=": sp.Ge, "==": sp.Eq, "!=": sp.Ne}[op](a, b)
            if op == "&&":
                return sp.And(self.truth(a), self.truth(b))
            if op == "||":
                return sp.Or(self.truth(a), self.truth(b))
            raise CUnsupported("C binary operator %s" % op)
        if k == "CallExpr":
            name = cfront.callee_name(n)
            if not name:
                raise CUnsupported("indirect call (line %s)" % n.get("line"))
            args = [self.expr(a) for a in inner[1:]]
            if name in MATH:
                return MATH[name](*args)
            return sp.Function(name)(*args)
        if k == "ConditionalOperator":
            c = self.truth(self.expr(inner[0]))
            return sp.Piecewise((self.expr(inner[1]), c), (self.expr(inner[2]), True))
        raise CUnsupported("C expression kind %s (line %s)" % (k, n.get("line")))

    def truth(self, v):
        if getattr(v, "is_Boolean", False) or getattr(v, "is_Relational", False):
            return v
        return sp.Ne(v, 0)

    def run(self, stmts, cond=sp.true):
        """returns [(cond, return term)]"""
        res = []
        for st in stmts:
            k = st.get("kind")
            inner = st.get("inner", []) or []
            if k == "DeclStmt":
                for v in inner:
                    init = [c for c in v.get("inner", []) if isinstance(c, dict) and c.get("kind")]
                    if init:
                        self.env[v["name"]] = self.expr(init[-1])
            elif k == "BinaryOperator" and st.get("opcode") == "=":
                lhs = cfront.strip(inner[0])
                if lhs.get("kind") == "DeclRefExpr":
                    self.env[lhs["referencedDecl"]["name"]] = self.expr(inner[1])
                else:
                    self.env[cfront.render(lhs)] = self.expr(inner[1])
            elif k == "CompoundAssignOperator":
                lhs = cfront.strip(inner[0])
                nm = lhs["referencedDecl"]["name"] if lhs.get("kind") == "DeclRefExpr" else cfront.render(lhs)
                v = self.expr(inner[1])
                cur = self.env.get(nm, sp.Symbol(nm))
                self.env[nm] = {"+=": cur + v, "-=": cur - v, "*=": cur * v, "/=": cur / v}[st["opcode"]]
            elif k == "IfStmt":
                c = self.truth(self.expr(inner[0]))
                save = dict(self.env)
                tb = inner[1]
                r1 = self.run(tb["inner"] if tb.get("kind") == "CompoundStmt" else [tb], sp.And(cond, c))
                env_t = self.env
                self.env = dict(save)
                r2 = []
                if len(inner) > 2:
                    eb = inner[2]
                    r2 = self.run(eb["inner"] if eb.get("kind") == "CompoundStmt" else [eb], sp.And(cond, sp.Not(c)))
                env_f = self.env
                res += r1 + r2
                t1 = any(cc == sp.And(cond, c) for cc, _ in r1)
                t2 = any(cc == sp.And(cond, sp.Not(c)) for cc, _ in r2)
                if t1 and not t2:
                    self.env = env_f
                elif t2 and not t1:
                    self.env = env_t
                else:
                    merged = {}
                    for v in set(env_t) | set(env_f):
                        a, b = env_t.get(v), env_f.get(v)
                        if a is not None and b is not None and a == b:
                            merged[v] = a
                        elif a is not None and b is not None:
                            merged[v] = sp.Piecewise((a, c), (b, True))
                        else:
                            merged[v] = a if a is not None else b
                    self.env = merged
            elif k == "ReturnStmt":
                res.append((cond, self.expr(inner[0]) if inner else None))
                return res
            elif k == "ForStmt":
                init, _cv, test, inc, body = (inner + [{}] * 5)[:5]
                i0 = cfront.strip(init)
                if not (i0.get("kind") == "BinaryOperator" and i0.get("opcode") == "="):
                    raise CUnsupported("for-loop init form")
                ivar = cfront.render(i0["inner"][0])
                lo = self.expr(i0["inner"][1])
                t = cfront.strip(test)
                if not (t.get("kind") == "BinaryOperator" and t.get("opcode") in ("<", "<=") and cfront.render(t["inner"][0]) == ivar):
                    raise CUnsupported("for-loop test form")
                hi = self.expr(t["inner"][1]) - (1 if t["opcode"] == "<" else 0)
                inc_txt = cfront.render(inc)
                if inc_txt not in (ivar + "++", "++" + ivar, "(%s += 1)" % ivar):
                    raise CUnsupported("for-loop increment form %s" % inc_txt)
                i = sp.Symbol(ivar, integer=True)
                save = dict(self.env)
                self.env[ivar] = i
                accs = {}
                for b in (body.get("inner", []) if body.get("kind") == "CompoundStmt" else [body]):
                    bk = b.get("kind")
                    if bk == "CompoundAssignOperator" and b.get("opcode") == "+=":
                        nm = cfront.render(b["inner"][0])
                        accs[nm] = accs.get(nm, 0) + self.expr(b["inner"][1])
                    elif bk == "BinaryOperator" and b.get("opcode") == "=" and cfront.strip(b["inner"][0]).get("kind") == "DeclRefExpr":
                        self.env[cfront.render(b["inner"][0])] = self.expr(b["inner"][1])
                    else:
                        raise CUnsupported("loop body statement %s is not the reduction idiom" % bk)
                self.env = save
                for nm, term in accs.items():
                    self.env[nm] = self.env.get(nm, sp.Symbol(nm)) + sp.Sum(term, (i, lo, hi))
            elif k in ("NullStmt",):
                pass
            elif k in ("CallExpr",):
                pass
            else:
                raise CUnsupported("C statement kind %s (line %s)" % (k, st.get("line")))
        return res


def lower_function(fn, symbols=None):
    L = Lower(fn, symbols)
    body = cfront.body_of(fn)
    r = L.run(body.get("inner", []) or [])
    return r, L


def merged_return(rets):
    rets = [(c, v) for c, v in rets if v is not None]
    if not rets:
        return None
    if len(rets) == 1:
        return rets[0][1]
    return sp.Piecewise(*([(v, c) for c, v in rets[:-1]] + [(rets[-1][1], True)]))


def stmt_rhs_table(fn, symbols=None):
    """per-statement view for loop-heavy code: list of (lhs text, rhs term, node) for every plain assignment, with all
    variables left symbolic (one-level conformance of each statement)"""
    L = Lower(fn, symbols)
    L.env = {}                      # every variable stays a symbol
    out = []
    for x in cfront.walk(cfront.body_of(fn)):
        if x.get("kind") == "BinaryOperator" and x.get("opcode") == "=":
            try:
                out.append((cfront.render(x["inner"][0]), L.expr(x["inner"][1]), x))
            except (CUnsupported, TypeError, ValueError):
                out.append((cfront.render(x["inner"][0]), None, x))
    return out
