"""E2 -- buffer ownership / effect analysis (Python side, with C summaries).

Abstract value of an expression: a set of tags
    ('P', root, rel, arr)  -- may be the caller-owned object `root` itself
                              (rel='same') or share its buffer (rel='view');
                              arr: known to be an ndarray (conversion provenance
                              or declared by the scope table)
    ('F',)                 -- may be a fresh object
Flow-sensitive forward dataflow over the statement CFG (join = union),
interprocedural through resolved package callees (summaries memoised per
(function, literal flag values)), cross-language through C effect summaries.
"""
import ast

from . import rules
from .cfg import eval_test, NOTNONE
from .core import AnalysisError, call_name, dotted_name, kwarg, norm, walk_no_nested

FRESH = ("F",)

# ---- library semantics table (DESIGN 3.3 / appendix D); one line of reason each
NP_ALIAS_FUNCS = {  # result may share the buffer of argument 0
    "atleast_1d": "returns the input itself when it is already an ndarray of ndim>=1",
    "atleast_2d": "view/reshape of input", "atleast_3d": "view of input",
    "asarray": "no copy when dtype/order already match", "asanyarray": "no copy when already an array",
    "ascontiguousarray": "no copy when already contiguous", "asfortranarray": "no copy when already F-ordered",
    "ravel": "view when contiguous", "reshape": "view when possible", "squeeze": "view", "transpose": "view",
    "require": "no copy when requirements are met", "broadcast_to": "view", "expand_dims": "view",
    "swapaxes": "view", "moveaxis": "view", "real": "view", "imag": "view", "diagonal": "view",
    "broadcast_arrays": "views of the inputs",
}
NP_SAME_FUNCS = {"atleast_1d", "asarray", "asanyarray", "ascontiguousarray", "require", "asfortranarray"}
ND_ALIAS_METHODS = {"view", "ravel", "reshape", "squeeze", "transpose", "swapaxes", "newbyteorder", "diagonal", "getfield"}
ND_MUT_METHODS = {"sort", "fill", "resize", "put", "itemset", "setfield", "partition", "setflags"}
LIST_MUT_METHODS = {"pop", "append", "remove", "insert", "extend", "clear", "reverse", "update", "setdefault", "popitem"}
UNARY_UFUNCS = {"deg2rad", "rad2deg", "sin", "cos", "tan", "arcsin", "arccos", "arctan", "sqrt", "abs", "absolute", "fabs",
                "negative", "log", "log10", "log2", "exp", "floor", "ceil", "rint", "square", "sign", "radians", "degrees",
                "sinh", "cosh", "tanh", "isnan", "isfinite", "logical_not", "conjugate", "reciprocal", "trunc", "expm1", "log1p"}
BINARY_UFUNCS = {"add", "subtract", "multiply", "divide", "true_divide", "floor_divide", "power", "arctan2", "mod", "fmod",
                 "remainder", "maximum", "minimum", "hypot", "logical_and", "logical_or", "greater", "less", "equal",
                 "not_equal", "bitwise_and", "bitwise_or", "left_shift", "right_shift", "copysign"}
NP_DEST0 = {"copyto", "place", "putmask", "put", "fill_diagonal"}   # argument 0 is written
FANCY_SOURCES = {"where", "argsort", "nonzero", "arange", "searchsorted", "unique", "flatnonzero", "argwhere", "where1",
                 "lexsort", "random_indices", "randint", "permutation", "choice", "zeros", "ones", "array", "isin", "in1d"}


LIB_HEADS = {"numpy", "math", "os", "sys", "copy", "pprint", "scipy", "time", "warnings", "re", "json", "subprocess",
             "tempfile", "pydoc", "itertools", "functools", "collections", "random", "struct", "shutil", "glob", "string",
             "xml", "yaml", "fitsio", "pyfits", "astropy", "concurrent", "stdout", "stderr", "builtins", "types", "numbers"}
KNOWN_PURE_METHODS = {"copy", "flatten", "tolist", "tobytes", "tostring", "sum", "mean", "std", "min", "max", "argsort", "cumsum",
                      "round", "nonzero", "take", "repeat", "searchsorted", "argmax", "argmin", "conj", "dot", "any", "all", "var",
                      "prod", "item", "encode", "decode", "lower", "upper", "strip", "split", "keys", "items", "values", "get",
                      "format", "join", "count", "index", "compress", "cumprod", "ptp", "astype", "byteswap", "clip", "write",
                      "flush", "close", "seek", "tell", "read", "readline", "startswith", "endswith", "replace", "find", "rstrip",
                      "lstrip", "isdigit", "title", "uniform", "random", "normal", "randint", "choice", "random_sample", "standard_normal",
                      "integers", "permutation", "cumulative_trapezoid", "splitlines", "ljust", "rjust", "zfill", "trace", "outer"}


class Site:
    __slots__ = ("fi", "node", "kind", "what", "chain", "needs_arr")

    def __init__(self, fi, node, kind, what, chain=(), needs_arr=False):
        self.fi = fi
        self.node = node
        self.kind = kind        # data | meta | container
        self.what = what
        self.chain = tuple(chain)
        self.needs_arr = needs_arr

    def where(self):
        return self.fi.where(self.node)

    def key(self):
        return "%s::%s" % (self.fi.qualname, self.what)

    def describe(self):
        via = "".join(" <- called from %s" % c for c in self.chain)
        return "%s in %s (%s)%s" % (self.what, self.fi.qualname, self.where(), via)


class Summary:
    def __init__(self):
        self.mut = {}        # param -> [Site]
        self.ret = set()     # tags over the function's own params / FRESH
        self.returns_none_only = True
        self.unknown_calls = []
        self.escapes = {}    # param -> set of 'self.attr' it is stored into


class Effects:
    def __init__(self, repo, c_summaries=None, exempt_funcs=()):
        self.repo = repo
        self.c = c_summaries or {}
        self.memo = {}
        self.stack = []
        self.unknown = {}
        self.lib_calls = 0
        self.resolved = 0
        self.unresolved = 0
        self.attr_types = {}
        self._index_attr_types()

    # -- class attribute provenance:  self.x = Class(...) ------------------
    def _index_attr_types(self):
        for q, fi in self.repo.funcs.items():
            if not fi.cls:
                continue
            for x in walk_no_nested(fi.node):
                if isinstance(x, ast.Assign) and isinstance(x.value, ast.Call):
                    for t in x.targets:
                        if isinstance(t, ast.Attribute) and isinstance(t.value, ast.Name) and t.value.id == "self":
                            d = dotted_name(x.value.func)
                            if d:
                                full = self.repo.resolve_name(fi.module, d)
                                self.attr_types.setdefault((fi.module.name, fi.cls, t.attr), set()).add(full)

    # -- callee resolution --------------------------------------------------
    def resolve(self, fi, call, localtypes):
        """returns ('py', FuncInfo, bound_self) | ('c', key) | ('class', full) | None"""
        f = call.func
        d = dotted_name(f)
        repo = self.repo
        if isinstance(f, ast.Name):
            full = repo.resolve_name(fi.module, f.id)
            if repo.has(full):
                return ("py", repo.func(full), False)
            if repo.class_of(full):
                init = full + ".__init__"
                if repo.has(init):
                    return ("py", repo.func(init), True)
                return ("class", full)
            if full in self.c:
                return ("c", full)
            return None
        if isinstance(f, ast.Attribute):
            base = f.value
            # self.m(...)
            if isinstance(base, ast.Name) and base.id in ("self", "cls") and fi.cls:
                q = "%s.%s.%s" % (fi.module.name, fi.cls, f.attr)
                if repo.has(q):
                    return ("py", repo.func(q), True)
                # inherited
                r = self._inherited(fi, f.attr)
                if r is not None:
                    return r
            # super(C, self).m(...) / super().m(...)
            if isinstance(base, ast.Call) and isinstance(base.func, ast.Name) and base.func.id == "super" and fi.cls:
                r = self._inherited(fi, f.attr)
                if r is not None:
                    return r
            # self.attr.m(...) / local.m(...) via constructor provenance
            types = set()
            if isinstance(base, ast.Attribute) and isinstance(base.value, ast.Name) and base.value.id == "self" and fi.cls:
                types = self.attr_types.get((fi.module.name, fi.cls, base.attr), set())
            elif isinstance(base, ast.Attribute) and isinstance(base.value, ast.Attribute):
                # self._robj.robj.m(...): type of attribute `robj` of the class of self._robj
                inner = base.value
                if isinstance(inner.value, ast.Name) and inner.value.id == "self" and fi.cls:
                    for t in self.attr_types.get((fi.module.name, fi.cls, inner.attr), set()):
                        co = repo.class_of(t)
                        if co:
                            types |= self.attr_types.get((co[0].name, co[1].name, base.attr), set())
            elif isinstance(base, ast.Name) and base.id in localtypes:
                types = localtypes[base.id]
            for t in types:
                q = t + "." + f.attr
                if q in self.c:
                    return ("c", q)
                if repo.has(q):
                    return ("py", repo.func(q), True)
            if d:
                full = repo.resolve_name(fi.module, d)
                if full in self.c:
                    return ("c", full)
                if repo.has(full):
                    return ("py", repo.func(full), False)
                if repo.class_of(full):
                    init = full + ".__init__"
                    if repo.has(init):
                        return ("py", repo.func(init), True)
                    return ("class", full)
        return None

    def classify_unresolved(self, fi, c, full, nm):
        import builtins
        f = c.func
        head = full.split(".")[0] if full else ""
        if isinstance(f, ast.Name) and (hasattr(builtins, f.id) or f.id in ("xrange", "unicode", "long")):
            self.lib_calls += 1
        elif head in LIB_HEADS:
            self.lib_calls += 1
        elif isinstance(f, ast.Attribute) and nm in KNOWN_PURE_METHODS | ND_ALIAS_METHODS | ND_MUT_METHODS | LIST_MUT_METHODS:
            self.lib_calls += 1
        else:
            self.unresolved += 1
            k = dotted_name(f) or nm or "?"
            self.unknown[k] = self.unknown.get(k, 0) + 1

    def _inherited(self, fi, attr):
        cd = fi.module.classes.get(fi.cls)
        if cd is None:
            return None
        for b in cd.bases:
            bd = dotted_name(b)
            if bd:
                bq = self.repo.resolve_name(fi.module, bd) + "." + attr
                if bq in self.c:
                    return ("c", bq)
                if self.repo.has(bq):
                    return ("py", self.repo.func(bq), True)
        return None

    # -- summaries ----------------------------------------------------------
    def summary(self, fi, flags=None):
        flags = dict(flags or {})
        key = (fi.qualname, tuple(sorted((k, repr(v)) for k, v in flags.items())))
        if key in self.memo:
            return self.memo[key]
        if key in self.stack:
            return Summary()        # recursion: optimistic first iterate (fixpoint below)
        self.stack.append(key)
        try:
            s = _Analyse(self, fi, flags).run()
        finally:
            self.stack.pop()
        self.memo[key] = s
        return s


def _literal(node):
    if isinstance(node, ast.Constant) and (node.value is None or isinstance(node.value, (bool, str, int))):
        return True, node.value
    return False, None


class _Analyse:
    def __init__(self, eng, fi, flags):
        self.eng = eng
        self.fi = fi
        self.flags = flags
        self.cfg = rules.cfg_of(fi)
        self.view = self.cfg.specialise(flags=flags) if flags else self.cfg.view()
        self.sum = Summary()
        self.params = [p.lstrip("*") for p in fi.params]
        self.localtypes = {}
        self.fancy = set()
        self.sites_seen = set()

    # ---- value of expressions -----------------------------------------
    def val(self, e, env):
        if e is None:
            return {FRESH}
        if isinstance(e, ast.Name):
            return set(env.get(e.id, {FRESH}))
        if isinstance(e, ast.Constant):
            return {FRESH}
        if isinstance(e, ast.Attribute):
            k = norm(e)
            if k in env:
                return set(env[k])
            if e.attr in ("T", "real", "imag", "flat", "base"):
                return self._as_view(self.val(e.value, env))
            return {FRESH}
        if isinstance(e, ast.Subscript):
            base = self.val(e.value, env)
            if self._is_fancy_index(e.slice, env):
                return {FRESH}
            out = {("P", t[1], "view", t[3]) if t[0] == "P" else t for t in base}
            return out or {FRESH}
        if isinstance(e, ast.Starred):
            return self.val(e.value, env)
        if isinstance(e, (ast.Tuple, ast.List, ast.Set)):
            out = set()
            for x in e.elts:
                out |= self.val(x, env)
            return out or {FRESH}
        if isinstance(e, ast.IfExp):
            return self.val(e.body, env) | self.val(e.orelse, env)
        if isinstance(e, ast.BoolOp):
            out = set()
            for x in e.values:
                out |= self.val(x, env)
            return out
        if isinstance(e, ast.NamedExpr):
            v = self.val(e.value, env)
            env[e.target.id] = v
            return v
        if isinstance(e, ast.Call):
            return self.call_value(e, env)
        if isinstance(e, (ast.BinOp, ast.UnaryOp, ast.Compare, ast.JoinedStr, ast.Dict, ast.ListComp, ast.GeneratorExp,
                          ast.DictComp, ast.SetComp, ast.Lambda, ast.FormattedValue, ast.Slice)):
            return {FRESH}
        if isinstance(e, (ast.Yield, ast.YieldFrom, ast.Await)):
            return {FRESH}
        raise AnalysisError("effects: unhandled expression kind %s at %s" % (type(e).__name__, self.fi.where(e)))

    def _as_view(self, tags, arr=True):
        return {("P", t[1], "view", True if arr else t[3]) if t[0] == "P" else t for t in tags}

    def _mark_arr(self, tags):
        return {("P", t[1], t[2], True) if t[0] == "P" else t for t in tags}

    def _is_fancy_index(self, idx, env):
        """True when the subscript certainly produces a copy (advanced indexing)"""
        if isinstance(idx, ast.Tuple):
            return any(self._is_fancy_index(x, env) for x in idx.elts)
        if isinstance(idx, (ast.List, ast.Compare, ast.ListComp)):
            return True
        if isinstance(idx, ast.BinOp) and isinstance(idx.op, (ast.BitAnd, ast.BitOr)):
            return True
        if isinstance(idx, ast.UnaryOp) and isinstance(idx.op, ast.Invert):
            return True
        if isinstance(idx, ast.Name):
            return idx.id in self.fancy
        if isinstance(idx, ast.Subscript):
            return self._is_fancy_index(idx.value, env) if isinstance(idx.value, ast.Name) and idx.value.id in self.fancy and \
                isinstance(idx.slice, ast.Slice) else (isinstance(idx.value, ast.Name) and idx.value.id in self.fancy and
                                                       not isinstance(idx.slice, (ast.Constant, ast.Name)))
        if isinstance(idx, ast.Call):
            return call_name(idx) in FANCY_SOURCES
        return False

    # ---- calls -----------------------------------------------------------
    def call_value(self, c, env):
        """value of a call expression (effects are handled by call_effects)"""
        f = c.func
        nm = call_name(c)
        d = dotted_name(f) or ""
        mod = d.split(".")[0] if "." in d else ""
        full = self.eng.repo.resolve_name(self.fi.module, d) if d else ""
        is_np = full.startswith("numpy.") or full == "numpy"
        if is_np or (isinstance(f, ast.Name) and full.startswith("numpy")):
            if nm == "array":
                cp = kwarg(c, "copy")
                if cp is not None and isinstance(cp, ast.Constant) and cp.value in (False, None) and c.args:
                    return self._as_view(self.val(c.args[0], env)) | {FRESH}
                if cp is not None and not isinstance(cp, ast.Constant) and c.args:
                    lit = self._flagval(cp)
                    if lit is True:
                        return {FRESH}
                    return self._as_view(self.val(c.args[0], env)) | {FRESH}
                return {FRESH}
            if nm in NP_ALIAS_FUNCS and c.args:
                v = self.val(c.args[0], env)
                if nm in NP_SAME_FUNCS:
                    return self._mark_arr(v) | {FRESH}
                return self._as_view(v) | {FRESH}
            if nm in UNARY_UFUNCS | BINARY_UFUNCS or nm == "clip":
                out = self._ufunc_out(c, nm)
                if out is not None:
                    return self._mark_arr(self.val(out, env))
            return {FRESH}
        if isinstance(f, ast.Attribute):
            recv = self.val(f.value, env)
            has_p = any(t[0] == "P" for t in recv)
            if nm in ND_ALIAS_METHODS and has_p:
                return self._as_view(recv)
            if nm == "astype" and has_p:
                cp = kwarg(c, "copy")
                if cp is not None and not (isinstance(cp, ast.Constant) and cp.value is True):
                    return self._as_view(recv) | {FRESH}
                return {FRESH}
            if nm == "byteswap" and has_p:
                ip = c.args[0] if c.args else kwarg(c, "inplace")
                v = self._flagval(ip) if ip is not None else False
                if v is False:
                    return {FRESH}
                if v is True:
                    return self._mark_arr(recv)
                return self._mark_arr(recv) | {FRESH}
            if nm == "clip" and has_p:
                o = kwarg(c, "out")
                if o is not None:
                    return self._mark_arr(self.val(o, env))
                return {FRESH}
            if nm in ("copy", "flatten", "tolist", "tobytes", "tostring", "sum", "mean", "std", "min", "max", "argsort",
                      "cumsum", "round", "nonzero", "take", "repeat", "searchsorted", "argmax", "argmin", "conj", "dot",
                      "any", "all", "var", "prod", "item", "encode", "decode", "lower", "upper", "strip", "split", "keys",
                      "items", "values", "get", "format", "join", "count", "index", "compress", "cumprod", "ptp"):
                if nm == "get" and has_p:
                    return self._as_view(recv, arr=False) | {FRESH}
                return {FRESH}
        # package callee
        r = self.eng.resolve(self.fi, c, self.localtypes)
        if r is not None and r[0] == "py":
            callee, bound = r[1], r[2]
            if callee.name == "__init__":
                return {FRESH}
            binding, cflags = self._bind(c, callee, bound, env)
            s = self.eng.summary(callee, cflags)
            out = set()
            for t in s.ret:
                if t == FRESH:
                    out.add(FRESH)
                elif t[0] == "P":
                    for a in binding.get(t[1], ()):
                        if a == FRESH:
                            out.add(FRESH)
                        else:
                            rel = "view" if (t[2] == "view" or a[2] == "view") else "same"
                            out.add(("P", a[1], rel, a[3] or t[3]))
            return out or {FRESH}
        return {FRESH}

    def _flagval(self, e):
        """literal value of an expression under the current flag assumptions: True/False/None(unknown)"""
        if isinstance(e, ast.Constant):
            return bool(e.value) if e.value is not None else False
        if isinstance(e, ast.Name) and e.id in self.flags:
            v = self.flags[e.id]
            return bool(v) if v is not NOTNONE else None
        return None

    def _ufunc_out(self, c, nm):
        o = kwarg(c, "out")
        if o is not None:
            return o
        if nm in UNARY_UFUNCS and len(c.args) >= 2:
            return c.args[1]
        if nm in BINARY_UFUNCS and len(c.args) >= 3:
            return c.args[2]
        if nm == "clip" and len(c.args) >= 4:
            return c.args[3]
        return None

    def _bind(self, c, callee, bound, env):
        """map callee param -> abstract value of the actual; collect literal flags"""
        params = [p for p in callee.params if not p.startswith("*")]
        if bound and params and params[0] in ("self", "cls"):
            params = params[1:]
        binding = {}
        cflags = {}
        for i, a in enumerate(c.args):
            if isinstance(a, ast.Starred):
                continue
            if i < len(params):
                binding[params[i]] = self.val(a, env)
                ok, v = _literal(a)
                if ok:
                    cflags[params[i]] = v
                elif isinstance(a, ast.Name) and a.id in self.flags:
                    cflags[params[i]] = self.flags[a.id]
        for k in c.keywords:
            if k.arg is None:
                continue
            binding[k.arg] = self.val(k.value, env)
            ok, v = _literal(k.value)
            if ok:
                cflags[k.arg] = v
            elif isinstance(k.value, ast.Name) and k.value.id in self.flags:
                cflags[k.arg] = self.flags[k.value.id]
        for p in params:
            if p not in binding and p in callee.defaults:
                ok, v = _literal(callee.defaults[p])
                if ok and p not in cflags:
                    cflags[p] = v
        # keep only flags that the callee actually tests / forwards (keeps the memo small)
        used = {x.id for x in ast.walk(callee.node) if isinstance(x, ast.Name)}
        cflags = {k: v for k, v in cflags.items() if k in used and (v is None or isinstance(v, (bool, str)))}
        return binding, cflags

    # ---- effects of one CFG node ------------------------------------------
    def record(self, tags, node, kind, what, chain=(), needs_arr=False, site_fi=None):
        for t in tags:
            if t[0] != "P":
                continue
            if kind == "meta" and t[2] != "same":
                continue
            if needs_arr and not t[3]:
                # in-place operator on a bare parameter of unknown type: only a mutation if the caller passes an array
                k = (t[1], id(node), what, "ifarr")
                if k in self.sites_seen:
                    continue
                self.sites_seen.add(k)
                self.sum.mut.setdefault(t[1], []).append(Site(site_fi or self.fi, node, kind, what, chain, needs_arr=True))
                continue
            k = (t[1], id(node), what)
            if k in self.sites_seen:
                continue
            self.sites_seen.add(k)
            self.sum.mut.setdefault(t[1], []).append(Site(site_fi or self.fi, node, kind, what, chain))

    def call_effects(self, c, env, node):
        f = c.func
        nm = call_name(c)
        d = dotted_name(f) or ""
        full = self.eng.repo.resolve_name(self.fi.module, d) if d else ""
        is_np = full.startswith("numpy")
        if is_np:
            out = self._ufunc_out(c, nm) if (nm in UNARY_UFUNCS | BINARY_UFUNCS or nm == "clip") else kwarg(c, "out")
            if out is not None:
                self.record(self.val(out, env), c, "data", "numpy.%s(... out=%s)" % (nm, norm(out)))
            if nm in NP_DEST0 and c.args:
                self.record(self.val(c.args[0], env), c, "data", "numpy.%s(%s, ...)" % (nm, norm(c.args[0])))
            if nm == "shuffle" and c.args:
                self.record(self.val(c.args[0], env), c, "data", "shuffle(%s)" % norm(c.args[0]))
            return
        if isinstance(f, ast.Attribute):
            recv = self.val(f.value, env)
            has_p = any(t[0] == "P" for t in recv)
            if has_p:
                if nm in ND_MUT_METHODS:
                    self.record(recv, c, "data", "%s.%s()" % (norm(f.value), nm))
                    return
                if nm == "byteswap":
                    ip = c.args[0] if c.args else kwarg(c, "inplace")
                    v = self._flagval(ip) if ip is not None else False
                    if v is not False:
                        self.record(recv, c, "data", "%s.byteswap(%s)" % (norm(f.value), norm(ip)))
                    return
                if nm in LIST_MUT_METHODS:
                    self.record(recv, c, "container", "%s.%s()" % (norm(f.value), nm))
                    return
                o = kwarg(c, "out")
                if o is not None:
                    self.record(self.val(o, env), c, "data", "%s.%s(out=%s)" % (norm(f.value), nm, norm(o)))
            else:
                o = kwarg(c, "out")
                if o is not None:
                    self.record(self.val(o, env), c, "data", "%s(out=%s)" % (nm, norm(o)))
            if nm == "shuffle" and c.args:
                self.record(self.val(c.args[0], env), c, "data", "%s(%s)" % (norm(f), norm(c.args[0])))
        r = self.eng.resolve(self.fi, c, self.localtypes)
        if r is None:
            self.eng.classify_unresolved(self.fi, c, full, nm)
            return
        self.eng.resolved += 1
        if r[0] == "py":
            callee, bound = r[1], r[2]
            binding, cflags = self._bind(c, callee, bound, env)
            s = self.eng.summary(callee, cflags)
            for p, sites in s.mut.items():
                actual = binding.get(p)
                if not actual:
                    continue
                for st in sites:
                    chain = st.chain + ("%s (%s)" % (self.fi.qualname, self.fi.where(c)),)
                    tags = actual
                    if st.needs_arr:
                        self.record({t for t in tags if t[0] == "P"}, st.node, st.kind, st.what, chain, needs_arr=True, site_fi=st.fi)
                    else:
                        self.record(tags, st.node, st.kind, st.what, chain, site_fi=st.fi)
            for p, attrs in s.escapes.items():
                actual = binding.get(p)
                if actual and bound and isinstance(f, ast.Attribute):
                    pass
        elif r[0] == "c":
            cs = self.eng.c[r[1]]
            for idx in cs.get("writes", ()):
                if idx < len(c.args):
                    self.record(self.val(c.args[idx], env), c, "data",
                                "C/C++ %s writes through argument %d (%s)" % (r[1].split("esutil.")[-1], idx, norm(c.args[idx])))

    def node_effects(self, n, env):
        a = n.ast
        if a is None:
            return
        for c in rules.stmts_calls(n):
            self.call_effects(c, env, n)
        if n.kind != "stmt":
            return
        if isinstance(a, ast.Assign):
            for t in a.targets:
                self._store(t, a, env)
        elif isinstance(a, ast.AugAssign):
            t = a.target
            if isinstance(t, ast.Name):
                self.record(env.get(t.id, set()), a, "data", "%s %s= ... (in-place operator on an array)" % (
                    t.id, _opsym(a.op)), needs_arr=True)
            elif isinstance(t, ast.Subscript):
                if not self._store_creates_nothing(t, env):
                    self.record(self.val(t.value, env), a, "data", "%s %s= ..." % (norm(t), _opsym(a.op)))
            elif isinstance(t, ast.Attribute):
                pass
        elif isinstance(a, ast.Delete):
            for t in a.targets:
                if isinstance(t, ast.Subscript):
                    self.record(self.val(t.value, env), a, "container", "del %s" % norm(t))

    def _store_creates_nothing(self, t, env):
        return False

    def _store(self, t, a, env):
        if isinstance(t, (ast.Tuple, ast.List)):
            for e in t.elts:
                self._store(e, a, env)
        elif isinstance(t, ast.Subscript):
            self.record(self.val(t.value, env), a, "data", "%s = ..." % norm(t))
        elif isinstance(t, ast.Attribute):
            if t.attr in ("dtype", "shape", "strides", "flags"):
                self.record(self.val(t.value, env), a, "meta", "%s = ... (attribute of the caller's object)" % norm(t))

    # ---- transfer -----------------------------------------------------------
    def transfer(self, n, env):
        env = dict(env)
        a = n.ast
        if a is None:
            return env
        if n.kind == "loop" and isinstance(a, (ast.For, ast.AsyncFor)):
            v = self.val(a.iter, env)
            # iterating an array / list yields elements that are views (rows, fields) or the contained arrays
            it_is_range = isinstance(a.iter, ast.Call) and call_name(a.iter) in ("range", "xrange", "enumerate", "zip")
            if it_is_range and call_name(a.iter) in ("enumerate", "zip"):
                vv = set()
                for x in a.iter.args:
                    vv |= self.val(x, env)
                self._bind_target(a.target, vv, env)
            elif it_is_range:
                self._bind_target(a.target, {FRESH}, env)
            else:
                self._bind_target(a.target, v, env)
            return env
        if n.kind == "with":
            for it in a.items:
                v = self.val(it.context_expr, env)
                if it.optional_vars is not None:
                    self._bind_target(it.optional_vars, v, env)
                    if isinstance(it.context_expr, ast.Call) and isinstance(it.optional_vars, ast.Name):
                        self._note_type(it.optional_vars.id, it.context_expr)
            return env
        if n.kind != "stmt":
            return env
        if isinstance(a, ast.Assign):
            v = self.val(a.value, env)
            self._note_fancy(a)
            for t in a.targets:
                if isinstance(t, ast.Name) and isinstance(a.value, ast.Call):
                    self._note_type(t.id, a.value)
                if isinstance(t, (ast.Tuple, ast.List)) and isinstance(a.value, (ast.Tuple, ast.List)) and len(t.elts) == len(a.value.elts):
                    vals = [self.val(x, env) for x in a.value.elts]
                    for tt, vv in zip(t.elts, vals):
                        self._bind_target(tt, vv, env)
                else:
                    self._bind_target(t, v, env)
        elif isinstance(a, ast.AugAssign):
            if isinstance(a.target, ast.Name):
                cur = env.get(a.target.id, {FRESH})
                # x op= y keeps the same object for arrays, makes a new one for immutables
                env[a.target.id] = set(cur) | {FRESH}
        elif isinstance(a, ast.AnnAssign) and a.value is not None:
            self._bind_target(a.target, self.val(a.value, env), env)
        return env

    def _note_type(self, name, call):
        d = dotted_name(call.func)
        if d:
            full = self.eng.repo.resolve_name(self.fi.module, d)
            if self.eng.repo.class_of(full) or any(k.startswith(full + ".") for k in self.eng.c):
                self.localtypes.setdefault(name, set()).add(full)

    def _note_fancy(self, a):
        v = a.value
        src = None
        if isinstance(v, ast.Call) and call_name(v) in FANCY_SOURCES:
            src = True
        elif isinstance(v, (ast.Compare, ast.List)):
            src = True
        elif isinstance(v, ast.BinOp) and isinstance(v.op, (ast.BitAnd, ast.BitOr)):
            src = True
        elif isinstance(v, ast.Subscript) and isinstance(v.value, ast.Name) and v.value.id in self.fancy:
            src = True
        if src:
            for t in a.targets:
                for x in ast.walk(t):
                    if isinstance(x, ast.Name):
                        self.fancy.add(x.id)

    def _bind_target(self, t, v, env):
        if isinstance(t, ast.Name):
            env[t.id] = set(v)
        elif isinstance(t, (ast.Tuple, ast.List)):
            for e in t.elts:
                self._bind_target(e, v, env)
        elif isinstance(t, ast.Starred):
            self._bind_target(t.value, v, env)
        elif isinstance(t, ast.Attribute):
            env[norm(t)] = set(v)
            if isinstance(t.value, ast.Name) and t.value.id == "self":
                for tag in v:
                    if tag[0] == "P":
                        self.sum.escapes.setdefault(tag[1], set()).add(norm(t))

    # ---- driver ---------------------------------------------------------------
    def run(self):
        cfg, view = self.cfg, self.view
        init = {}
        for p in self.params:
            init[p] = {("P", p, "same", False)}
        IN = {}
        IN[cfg.entry.id] = init
        order = [n for n in cfg.nodes if view.reachable(n)]
        for _ in range(12):
            changed = False
            for n in order:
                if n.id == cfg.entry.id:
                    env = init
                else:
                    env = None
                    for p in view.pred(n):
                        o = IN.get(("out", p.id))
                        if o is None:
                            continue
                        if env is None:
                            env = {k: set(v) for k, v in o.items()}
                        else:
                            for k, v in o.items():
                                if k in env:
                                    env[k] |= v
                                else:
                                    env[k] = set(v) | {FRESH}
                            for k in list(env):
                                if k not in o:
                                    env[k] = env[k] | {FRESH}
                    if env is None:
                        continue
                IN[n.id] = env
                out = self.transfer(n, env)
                if IN.get(("out", n.id)) != out:
                    IN[("out", n.id)] = out
                    changed = True
            if not changed:
                break
        # effects and returns with the converged environments
        for n in order:
            env = IN.get(n.id)
            if env is None:
                continue
            self.node_effects(n, dict(env))
            if n.kind == "return":
                if n.ast.value is not None and not (isinstance(n.ast.value, ast.Constant) and n.ast.value.value is None):
                    self.sum.returns_none_only = False
                    self.sum.ret |= self.val(n.ast.value, dict(env))
        return self.sum


def _opsym(op):
    return {ast.Add: "+", ast.Sub: "-", ast.Mult: "*", ast.Div: "/", ast.FloorDiv: "//", ast.Mod: "%", ast.Pow: "**",
            ast.BitAnd: "&", ast.BitOr: "|", ast.BitXor: "^", ast.LShift: "<<", ast.RShift: ">>", ast.MatMult: "@"}.get(type(op), "?")


def return_tags_per_return(eng, fi, flags=None):
    """for C16: per return statement the abstract value (list of (node, tags))"""
    an = _Analyse(eng, fi, dict(flags or {}))
    cfg, view = an.cfg, an.view
    an.run()
    # re-run to collect per-return values
    an2 = _Analyse(eng, fi, dict(flags or {}))
    out = []
    init = {p: {("P", p, "same", False)} for p in an2.params}
    IN = {cfg.entry.id: init}
    order = [n for n in cfg.nodes if view.reachable(n)]
    for _ in range(12):
        changed = False
        for n in order:
            if n.id == cfg.entry.id:
                env = init
            else:
                env = None
                for p in view.pred(n):
                    o = IN.get(("out", p.id))
                    if o is None:
                        continue
                    if env is None:
                        env = {k: set(v) for k, v in o.items()}
                    else:
                        for k, v in o.items():
                            env[k] = (env[k] | v) if k in env else (set(v) | {FRESH})
                        for k in list(env):
                            if k not in o:
                                env[k] = env[k] | {FRESH}
                if env is None:
                    continue
            IN[n.id] = env
            o2 = an2.transfer(n, env)
            if IN.get(("out", n.id)) != o2:
                IN[("out", n.id)] = o2
                changed = True
        if not changed:
            break
    for n in order:
        if n.kind == "return" and n.ast.value is not None and n.id in IN:
            out.append((n, an2.val(n.ast.value, dict(IN[n.id]))))
    return out
