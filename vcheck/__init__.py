"""vcheck: repository-specific static analysis for esutil (see /verif/DESIGN.md)"""
