"""C / C++ front-end: clang's type-resolved, macro-expanded JSON AST.

clang is used as a parser only (-fsyntax-only); nothing is compiled or run.
Dumps are cached under /verif/.cache keyed by a digest of the translation unit,
the repo headers it can include and the flags, and rebuilt whenever absent.
"""
import hashlib
import itertools
import json
import os
import subprocess

import networkx as nx

from .core import AnalysisError, REPO, VERIF

CACHE = os.path.join(VERIF, ".cache")

# translation units built by setup.py that the checks look at
TUS = {
    "records": dict(path="esutil/recfile/records.cpp", cxx=True, filt="Records",
                    inc=["esutil/include", "esutil/recfile"]),
    "htmc": dict(path="esutil/htm/htmc.cc", cxx=True,
                 filt=["HTMC", "Matcher", "gcirc", "sphdist", "eq2xyz", "PAIR_INFO"],
                 inc=["esutil/include", "esutil/htm", "esutil/htm/htm_src"]),
    "spatialindex": dict(path="esutil/htm/htm_src/SpatialIndex.cpp", cxx=True, filt=["SpatialIndex"],
                         inc=["esutil/htm/htm_src", "esutil/htm"]),
    "spatialconvex": dict(path="esutil/htm/htm_src/SpatialConvex.cpp", cxx=True, filt=["SpatialConvex"],
                          inc=["esutil/htm/htm_src", "esutil/htm"]),
    "cosmolib": dict(path="esutil/cosmology/cosmolib.c", cxx=False, filt="", inc=["esutil/cosmology"],
                     own_only=True),
    "cosmolib_pywrap": dict(path="esutil/cosmology/cosmolib_pywrap.c", cxx=False, filt="PyCosmo",
                            inc=["esutil/cosmology"]),
    "chist": dict(path="esutil/stat/chist_pywrap.c", cxx=False, filt="PyCHist", inc=[]),
    "cgauleg": dict(path="esutil/integrate/cgauleg_pywrap.c", cxx=False, filt="PyCGauleg", inc=[]),
}

_inc_cache = {}
FUNC_KINDS = ("FunctionDecl", "CXXMethodDecl", "CXXConstructorDecl", "CXXDestructorDecl")


def _py_includes():
    if "v" in _inc_cache:
        return _inc_cache["v"]
    py = "/venv/bin/python"
    if not os.path.exists(py):
        raise AnalysisError("/venv/bin/python (used only to ask for include directories) is missing")
    try:
        out = subprocess.check_output(
            [py, "-c", "import numpy,sysconfig;print(numpy.get_include());print(sysconfig.get_paths()['include'])"],
            text=True, stderr=subprocess.DEVNULL)
    except Exception as e:  # pragma: no cover
        raise AnalysisError("cannot obtain numpy/python include dirs: %s" % e)
    v = out.split()
    _inc_cache["v"] = v
    return v


def _digest(spec, root):
    h = hashlib.sha256()
    h.update(json.dumps(spec, sort_keys=True).encode())
    h.update(b"v7")
    paths = [os.path.join(root, spec["path"])]
    for d in spec["inc"]:
        dd = os.path.join(root, d)
        if os.path.isdir(dd):
            for fn in sorted(os.listdir(dd)):
                if fn.endswith((".h", ".hpp", ".hxx", ".H")):
                    paths.append(os.path.join(dd, fn))
    for p in paths:
        try:
            with open(p, "rb") as f:
                h.update(os.path.relpath(p, root).encode())
                h.update(f.read())
        except OSError:
            raise AnalysisError("source file %s missing" % p)
    return h.hexdigest()[:24]


def file_scope_names(src):
    """names of free functions and of classes/structs DEFINED at file or namespace scope in a C/C++ source text (brace-depth scan over
    the text with comments and literals removed): local helpers and helper classes a translation unit may grow"""
    import re
    src = re.sub(r"/\*.*?\*/", " ", src, flags=re.S)
    src = re.sub(r"//[^\n]*", " ", src)
    src = re.sub(r'"(?:\\.|[^"\\\n])*"', '""', src)
    src = re.sub(r"'(?:\\.|[^'\\\n])*'", "''", src)
    src = re.sub(r"^[ \t]*#[^\n]*(?:\\\n[^\n]*)*", " ", src, flags=re.M)
    out = []
    stack = []          # 'ns' | 'class' | 'fn' | 'other'
    start = 0           # start of the current declaration text
    i, n = 0, len(src)
    while i < n:
        c = src[i]
        if c == "{":
            head = src[start:i]
            kind = "other"
            if all(k == "ns" for k in stack):
                h = head.strip()
                m = re.search(r"\b(class|struct)\s+([A-Za-z_]\w*)\b[^;(){}]*$", h)
                if re.search(r"\bnamespace\b[^;(){}]*$", h) or re.search(r'\bextern\s*""\s*$', h):
                    kind = "ns"
                elif m and "(" not in h[m.start():]:
                    kind = "class"
                    out.append(m.group(2))
                elif ")" in h and not re.search(r"\b(enum|union)\b[^()]*$", h):
                    # function definition: the identifier before the first parenthesis at depth 0
                    depth = 0
                    first = None
                    for j, ch in enumerate(h):
                        if ch == "(":
                            if depth == 0 and first is None:
                                first = j
                            depth += 1
                        elif ch == ")":
                            depth -= 1
                    if first is not None:
                        mm = re.search(r"([A-Za-z_~][\w:~]*)\s*$", h[:first])
                        if mm and "=" not in h[:first]:
                            kind = "fn"
                            nm = mm.group(1)
                            if "::" not in nm and not nm.startswith("operator"):
                                out.append(nm)
            stack.append(kind)
            start = i + 1
        elif c == "}":
            if stack:
                stack.pop()
            start = i + 1
        elif c == ";":
            start = i + 1
        i += 1
    return list(dict.fromkeys(out))


def load_tu(name, root=None, _raw=False):
    """list of top-level declaration dicts of the TU that belong to repo files"""
    root = root or REPO
    if not _raw and os.environ.get("VCHECK_NO_RENAME") != "1" and os.path.abspath(root) != os.path.abspath(os.path.join(VERIF, "baseline")):
        decls = load_tu(name, root, _raw=True)
        try:
            undo_c_renames(decls, name)
        except AnalysisError:
            pass
        return decls
    spec = TUS[name]
    dg = _digest(spec, root)
    os.makedirs(CACHE, exist_ok=True)
    ctag = ("base_" + name) if os.path.abspath(root) == os.path.abspath(os.path.join(VERIF, "baseline")) else name
    cpath = os.path.join(CACHE, "%s-%s.json" % (ctag, dg))
    if os.path.exists(cpath):
        try:
            with open(cpath) as f:
                return json.load(f)
        except Exception:
            pass
    np_inc, py_inc = _py_includes()
    filts = spec["filt"] if isinstance(spec["filt"], list) else [spec["filt"]]
    if spec["filt"]:
        # file-local helper functions (static [inline] ...) are part of the code under analysis too
        import re
        try:
            src = open(os.path.join(root, spec["path"]), encoding="utf-8", errors="replace").read()
            extra = re.findall(r"^[ \t]*static\s+(?:inline\s+)?[A-Za-z_][\w \t\*:<>,]*?\b([A-Za-z_]\w*)\s*\(", src, re.M)
            # ... and so are free functions and helper classes that the reviewed baseline does not have (extracted helpers)
            try:
                bsrc = open(os.path.join(VERIF, "baseline", spec["path"]), encoding="utf-8", errors="replace").read()
                known = set(file_scope_names(bsrc))
            except OSError:
                known = set()
            extra += [x for x in file_scope_names(src) if x not in known]
            extra = [x for x in dict.fromkeys(extra) if x not in ("if", "for", "while", "switch", "return", "main")
                     and not any(f and f in x for f in filts)]
            filts = list(filts) + extra[:24]
        except OSError:
            pass
    docs = []
    for filt in filts:
        cmd = ["clang++" if spec["cxx"] else "clang"]
        if spec["cxx"]:
            cmd.append("-std=c++11")
        cmd += ["-fsyntax-only", "-w", "-Xclang", "-ast-dump=json"]
        if filt:
            cmd += ["-Xclang", "-ast-dump-filter=" + filt]
        cmd += ["-I" + np_inc, "-I" + py_inc]
        cmd += ["-I" + os.path.join(root, d) for d in spec["inc"]]
        cmd.append(os.path.join(root, spec["path"]))
        p = subprocess.run(cmd, capture_output=True, text=True)
        if p.returncode != 0:
            raise AnalysisError("clang reported errors in %s (the tree does not compile?): %s"
                                % (spec["path"], p.stderr[-500:]))
        dec = json.JSONDecoder()
        s = p.stdout
        i = 0
        n = len(s)
        while i < n:
            while i < n and s[i] not in "{[":
                i += 1
            if i >= n:
                break
            obj, j = dec.raw_decode(s, i)
            docs.append(obj)
            i = j
    decls = []
    for d in docs:
        if d.get("kind") == "TranslationUnitDecl":
            cur_file = None
            for c in d.get("inner", []):
                f = _loc_file(c)
                if f:
                    cur_file = f
                if spec.get("own_only"):
                    if cur_file and os.path.abspath(cur_file).startswith(os.path.abspath(root)):
                        decls.append(c)
                else:
                    decls.append(c)
        else:
            decls.append(d)
    decls = [_slim(d) for d in decls]
    tmp = cpath + ".tmp%d" % os.getpid()
    with open(tmp, "w") as f:
        json.dump(decls, f)
    os.replace(tmp, cpath)
    # keep the cache small: at most 12 entries per TU (variants of the tree analysed by the self-tests), oldest dropped first
    mine = sorted((fn for fn in os.listdir(CACHE) if fn.startswith(ctag + "-") and fn.endswith(".json")),
                  key=lambda fn: os.path.getmtime(os.path.join(CACHE, fn)) if os.path.exists(os.path.join(CACHE, fn)) else 0)
    for fn in mine[:-12]:
        if fn != os.path.basename(cpath):
            try:
                os.unlink(os.path.join(CACHE, fn))
            except OSError:
                pass
    return decls


def _loc_file(c):
    loc = c.get("loc", {})
    for k in (loc, loc.get("spellingLoc", {}), loc.get("expansionLoc", {})):
        if "file" in k:
            return k["file"]
    rng = c.get("range", {}).get("begin", {})
    for k in (rng, rng.get("spellingLoc", {}), rng.get("expansionLoc", {})):
        if "file" in k:
            return k["file"]
    return None


_DROP = ("isUsed", "isReferenced", "mangledName", "previousDecl", "isImplicit")
_line_state = {"line": 0}


def _slim(n):
    """drop bulky keys; attach a best-effort line number (clang elides the line
    when it equals the previously printed one, so a running value is kept)"""
    if isinstance(n, dict):
        out = {}
        kind = n.get("kind")
        for k in ("loc", "range"):
            v = n.get(k)
            if isinstance(v, dict):
                ln = _first_line(v)
                if ln is not None:
                    _line_state["line"] = ln
        if kind:
            out["line"] = _line_state["line"]
        for k, v in n.items():
            if k in _DROP or k in ("loc", "range"):
                continue
            if k == "id" and kind not in ("CXXRecordDecl", "ClassTemplateDecl"):
                continue
            if k == "parentDeclContextId" and kind not in FUNC_KINDS:
                continue
            out[k] = _slim(v)
        return out
    if isinstance(n, list):
        return [_slim(x) for x in n]
    return n


def _first_line(v):
    """first 'line' key found in a loc/range object (expansion location preferred)"""
    if "begin" in v:
        return _first_line(v["begin"])
    if "expansionLoc" in v and "line" in v["expansionLoc"]:
        return v["expansionLoc"]["line"]
    if "line" in v:
        return v["line"]
    if "spellingLoc" in v and "line" in v["spellingLoc"] and "expansionLoc" not in v:
        return v["spellingLoc"]["line"]
    return None


# --------------------------------------------------------------------------
# indexing
# --------------------------------------------------------------------------

def has_body(d):
    return any(c.get("kind") == "CompoundStmt" for c in d.get("inner", []))


def body_of(d):
    for c in d.get("inner", []):
        if c.get("kind") == "CompoundStmt":
            return c
    return None


def params_of(d):
    return [c.get("name", "") for c in d.get("inner", []) if c.get("kind") == "ParmVarDecl"]


def functions(decls):
    """name -> function decl with a body.  Plain names map to the first
    definition; C++ methods are also entered as 'Class::name'."""
    out = {}
    classes = {}

    def collect(d):
        if d.get("kind") in ("CXXRecordDecl",) and d.get("id") and d.get("name"):
            classes[d["id"]] = d["name"]
        if d.get("kind") in ("CXXRecordDecl", "NamespaceDecl", "LinkageSpecDecl", "ClassTemplateDecl"):
            for c in d.get("inner", []) or []:
                collect(c)

    for d in decls:
        collect(d)

    def visit(d, cls=None):
        k = d.get("kind")
        if k in FUNC_KINDS and has_body(d):
            c = cls or classes.get(d.get("parentDeclContextId"))
            if c:
                out.setdefault("%s::%s" % (c, d.get("name")), d)
            out.setdefault(d.get("name"), d)
        if k in ("CXXRecordDecl", "NamespaceDecl", "LinkageSpecDecl", "ClassTemplateDecl"):
            for c in d.get("inner", []) or []:
                visit(c, d.get("name") if k == "CXXRecordDecl" else cls)

    for d in decls:
        visit(d)
    return out


def walk(n):
    todo = [n]
    while todo:
        x = todo.pop()
        if isinstance(x, dict):
            if "kind" in x:
                yield x
            todo.extend(reversed(x.get("inner", []) or []))


def strip(n):
    """skip casts / parens / temporaries"""
    while isinstance(n, dict) and n.get("kind") in (
            "ImplicitCastExpr", "ParenExpr", "CStyleCastExpr", "ConstantExpr", "ExprWithCleanups",
            "MaterializeTemporaryExpr", "CXXBindTemporaryExpr", "CXXFunctionalCastExpr",
            "CXXStaticCastExpr", "CXXReinterpretCastExpr", "CXXConstCastExpr") and n.get("inner"):
        n = n["inner"][-1] if n.get("kind") == "CXXFunctionalCastExpr" else n["inner"][0]
    return n


def cast_type(n):
    """type of an explicit cast node, else None"""
    if n.get("kind") in ("CStyleCastExpr", "CXXStaticCastExpr", "CXXReinterpretCastExpr"):
        return n.get("type", {}).get("qualType")
    return None


def callee_name(call):
    k = call.get("kind")
    if k not in ("CallExpr", "CXXMemberCallExpr", "CXXOperatorCallExpr"):
        return None
    c = strip(call["inner"][0])
    if c.get("kind") == "DeclRefExpr":
        return c.get("referencedDecl", {}).get("name")
    if c.get("kind") == "MemberExpr":
        return c.get("name")
    if c.get("kind") == "UnresolvedLookupExpr":
        return c.get("name")
    return None


def call_args(call):
    inner = call.get("inner", [])
    if call.get("kind") == "CXXOperatorCallExpr":
        return inner[1:]
    return inner[1:]


def calls_in(n):
    return [x for x in walk(n) if x.get("kind") in ("CallExpr", "CXXMemberCallExpr")]


def render(n):
    """position-independent text of an expression (casts dropped)"""
    if not isinstance(n, dict):
        return "?"
    k = n.get("kind")
    inner = n.get("inner", []) or []
    if k in ("ImplicitCastExpr", "ParenExpr", "ConstantExpr", "ExprWithCleanups", "MaterializeTemporaryExpr",
             "CXXBindTemporaryExpr"):
        return render(inner[0]) if inner else "?"
    if k in ("CStyleCastExpr", "CXXStaticCastExpr", "CXXReinterpretCastExpr", "CXXFunctionalCastExpr",
             "CXXConstCastExpr"):
        return render(inner[-1]) if inner else "?"
    if k == "DeclRefExpr":
        return n.get("referencedDecl", {}).get("name", "?")
    if k == "MemberExpr":
        base = render(inner[0]) if inner else "this"
        if inner and strip(inner[0]).get("kind") == "CXXThisExpr":
            return n.get("name", "?")
        return base + ("->" if n.get("isArrow") else ".") + n.get("name", "?")
    if k == "CXXThisExpr":
        return "this"
    if k in ("IntegerLiteral", "FloatingLiteral"):
        return str(n.get("value"))
    if k == "StringLiteral":
        return n.get("value", '""')
    if k == "CharacterLiteral":
        v = n.get("value")
        return repr(chr(v)) if isinstance(v, int) and 0 <= v < 256 else str(v)
    if k == "CXXBoolLiteralExpr":
        return "true" if n.get("value") else "false"
    if k in ("GNUNullExpr", "CXXNullPtrLiteralExpr"):
        return "NULL"
    if k in ("UnaryOperator",):
        op = n.get("opcode", "?")
        if n.get("isPostfix"):
            return render(inner[0]) + op
        return op + render(inner[0])
    if k in ("BinaryOperator", "CompoundAssignOperator"):
        return "(%s %s %s)" % (render(inner[0]), n.get("opcode", "?"), render(inner[1]))
    if k == "ConditionalOperator":
        return "(%s ? %s : %s)" % tuple(render(x) for x in inner[:3])
    if k == "ArraySubscriptExpr":
        return "%s[%s]" % (render(inner[0]), render(inner[1]))
    if k in ("CallExpr", "CXXMemberCallExpr"):
        return "%s(%s)" % (render(inner[0]), ", ".join(render(a) for a in inner[1:]))
    if k == "CXXOperatorCallExpr":
        op = callee_name(n) or "op"
        args = inner[1:]
        if op == "operator[]" and len(args) == 2:
            return "%s[%s]" % (render(args[0]), render(args[1]))
        sym = op.replace("operator", "")
        if len(args) == 2:
            return "(%s %s %s)" % (render(args[0]), sym, render(args[1]))
        return "%s(%s)" % (op, ", ".join(render(a) for a in args))
    if k == "CXXConstructExpr":
        return "%s(%s)" % (n.get("type", {}).get("qualType", "ctor").split("<")[0],
                           ", ".join(render(a) for a in inner))
    if k == "UnaryExprOrTypeTraitExpr":
        return "sizeof(%s)" % (n.get("argType", {}).get("qualType", render(inner[0]) if inner else "?"))
    if k == "CXXThrowExpr":
        return "throw " + (render(inner[0]) if inner else "")
    if k == "InitListExpr":
        return "{%s}" % ", ".join(render(a) for a in inner)
    if k == "CXXDefaultArgExpr":
        return "<default>"
    if k == "ImplicitValueInitExpr":
        return "0"
    if k == "StmtExpr":
        return "({...})"
    if k == "DeclStmt":
        return "; ".join(render(x) for x in inner)
    if k == "VarDecl":
        init = [c for c in inner if isinstance(c, dict) and c.get("kind")]
        return "%s %s%s" % (n.get("type", {}).get("qualType", "?"), n.get("name", "?"),
                             (" = " + render(init[-1])) if init else "")
    if k == "ReturnStmt":
        return "return " + (render(inner[0]) if inner else "")
    return "<%s>" % k


# --------------------------------------------------------------------------
# CFG for C / C++ function bodies (same shape as vcheck.cfg.CFG so that
# vcheck.cfg.View works on it)
# --------------------------------------------------------------------------

class CNode:
    __slots__ = ("id", "kind", "c", "label")

    def __init__(self, i, kind, c=None, label=""):
        self.id = i
        self.kind = kind   # entry exit raise_exit stmt branch loop return raise switch case
        self.c = c
        self.label = label

    @property
    def lineno(self):
        return (self.c or {}).get("line", 0) if isinstance(self.c, dict) else 0

    @property
    def ast(self):
        return None

    def text(self):
        if self.c is None:
            return self.kind
        if self.kind in ("branch", "loop", "switch"):
            return "%s %s" % (self.label, render(self.c))
        return render(self.c)

    def __repr__(self):
        return "<c-%s#%d %s>" % (self.kind, self.id, self.text()[:60])


class CCFG:
    def __init__(self, decl):
        self.fn = decl
        self.name = decl.get("name")
        self.g = nx.DiGraph()
        self.nodes = []
        self._ids = itertools.count()
        self.entry = self._new("entry")
        self.exit = self._new("exit")
        self.raise_exit = self._new("raise_exit")
        self._loops = []     # (continue target, breaks list)
        self._du = {}
        body = body_of(decl)
        if body is None:
            raise AnalysisError("function %s has no body" % self.name)
        ends = self._stmt(body, [(self.entry, None)])
        for n, l in ends:
            self._edge(n, self.exit, l or "fall")

    def _new(self, kind, c=None, label=""):
        n = CNode(next(self._ids), kind, c, label)
        self.nodes.append(n)
        self.g.add_node(n.id, node=n)
        return n

    def _edge(self, a, b, l=None):
        if self.g.has_edge(a.id, b.id):
            self.g[a.id][b.id]["labels"].add(l)
        else:
            self.g.add_edge(a.id, b.id, labels={l})

    def _connect(self, preds, n):
        for p, l in preds:
            self._edge(p, n, l)

    def _label_node(self, key):
        if not hasattr(self, "_labels"):
            self._labels = {}
        if key not in self._labels:
            self._labels[key] = self._new("stmt", None, "label")
        return self._labels[key]

    def node(self, i):
        return self.g.nodes[i]["node"]

    @property
    def params(self):
        return params_of(self.fn)

    def defs_uses(self, n):
        if n.id in self._du:
            return self._du[n.id]
        d, u = [], []
        c = n.c
        if isinstance(c, dict):
            for x in walk(c):
                k = x.get("kind")
                if k == "VarDecl":
                    init = [y for y in x.get("inner", []) if isinstance(y, dict) and y.get("kind")]
                    if init and x.get("name"):
                        d.append(x["name"])
                elif k in ("BinaryOperator", "CompoundAssignOperator") and (x.get("opcode") == "=" or k == "CompoundAssignOperator"):
                    l = strip(x["inner"][0])
                    if l.get("kind") == "DeclRefExpr":
                        d.append(render(l))
                        if k == "CompoundAssignOperator":
                            u.append(render(l))
                elif k == "UnaryOperator" and x.get("opcode") in ("++", "--"):
                    l = strip(x["inner"][0])
                    if l.get("kind") == "DeclRefExpr":
                        d.append(render(l))
                        u.append(render(l))
                elif k == "DeclRefExpr":
                    u.append(x.get("referencedDecl", {}).get("name"))
        self._du[n.id] = (d, u)
        return d, u

    def view(self):
        from .cfg import View
        return View(self, self.g)

    def _has_throw(self, c):
        return any(x.get("kind") == "CXXThrowExpr" for x in walk(c))

    def _stmt(self, st, preds):
        k = st.get("kind")
        inner = st.get("inner", []) or []
        if k == "CompoundStmt":
            for s in inner:
                preds = self._stmt(s, preds)
            return preds
        if k == "IfStmt":
            cond = inner[0]
            n = self._new("branch", cond, "if")
            self._connect(preds, n)
            t = self._stmt(inner[1], [(n, "T")])
            f = self._stmt(inner[2], [(n, "F")]) if len(inner) > 2 and st.get("hasElse", len(inner) > 2) else [(n, "F")]
            return t + f
        if k == "WhileStmt":
            cond = inner[0]
            h = self._new("loop", cond, "while")
            self._connect(preds, h)
            self._loops.append((h, []))
            b = self._stmt(inner[-1], [(h, "T")])
            for p, l in b:
                self._edge(p, h, "back")
            _, breaks = self._loops.pop()
            sc = strip(cond)
            const_true = sc.get("kind") == "IntegerLiteral" and sc.get("value") not in ("0", 0) or \
                sc.get("kind") == "CXXBoolLiteralExpr" and sc.get("value")
            return ([] if const_true else [(h, "F")]) + breaks
        if k == "DoStmt":
            body, cond = inner[0], inner[1]
            start = self._new("stmt", None, "do")
            self._connect(preds, start)
            h = self._new("loop", cond, "dowhile")
            self._loops.append((h, []))
            b = self._stmt(body, [(start, None)])
            self._connect(b, h)
            self._edge(h, start, "back")
            _, breaks = self._loops.pop()
            return [(h, "F")] + breaks
        if k == "ForStmt":
            # inner: init, condvar, cond, inc, body   (entries may be {} when absent)
            init, _cv, cond, inc, body = (inner + [{}] * 5)[:5]
            if init and init.get("kind"):
                preds = self._stmt(init, preds)
            h = self._new("loop", cond if cond and cond.get("kind") else None, "for")
            self._connect(preds, h)
            incn = None
            if inc and inc.get("kind"):
                incn = self._new("stmt", inc, "inc")
                self._edge(incn, h, "back")
            self._loops.append((incn or h, []))
            b = self._stmt(body, [(h, "T")])
            for p, l in b:
                self._edge(p, incn or h, l if incn else "back")
            _, breaks = self._loops.pop()
            return [(h, "F")] + breaks
        if k == "BreakStmt":
            n = self._new("stmt", st, "break")
            self._connect(preds, n)
            if not self._loops:
                raise AnalysisError("break outside loop/switch in %s" % self.name)
            self._loops[-1][1].append((n, None))
            return []
        if k == "ContinueStmt":
            n = self._new("stmt", st, "continue")
            self._connect(preds, n)
            for tgt, _ in reversed(self._loops):
                if tgt is not None:
                    self._edge(n, tgt, "back")
                    break
            return []
        if k == "ReturnStmt":
            n = self._new("return", st)
            self._connect(preds, n)
            self._edge(n, self.exit, "return")
            return []
        if k == "SwitchStmt":
            cond = inner[0] if inner[0].get("kind") != "CompoundStmt" else None
            body = inner[-1]
            sw = self._new("switch", cond, "switch")
            self._connect(preds, sw)
            self._loops.append((None, []))
            cur = []
            has_default = False
            for s in body.get("inner", []) or []:
                # unwrap nested case labels
                labels = []
                while s.get("kind") in ("CaseStmt", "DefaultStmt"):
                    labels.append(s)
                    if s.get("kind") == "DefaultStmt":
                        has_default = True
                    s = s["inner"][-1]
                if labels:
                    cn = self._new("case", labels[0], "case")
                    self._edge(sw, cn, "case")
                    self._connect(cur, cn)
                    cur = [(cn, None)]
                cur = self._stmt(s, cur)
            _, breaks = self._loops.pop()
            out = cur + breaks
            if not has_default:
                out.append((sw, "nodefault"))
            return out
        if k in ("CaseStmt", "DefaultStmt"):
            return self._stmt(inner[-1], preds)
        if k == "CXXTryStmt":
            out = self._stmt(inner[0], preds)
            for h in inner[1:]:
                hn = self._new("stmt", None, "catch")
                self._connect(preds, hn)
                out = out + self._stmt(h["inner"][-1], [(hn, None)])
            return out
        if k == "NullStmt":
            return preds
        if k == "LabelStmt":
            ln = self._label_node(st.get("declId"))
            self._connect(preds, ln)
            return self._stmt(inner[-1], [(ln, None)])
        if k == "GotoStmt":
            # edge to the label node (created on demand; forward and backward jumps alike)
            n = self._new("stmt", st, "goto")
            self._connect(preds, n)
            key = st.get("targetLabelDeclId")
            if key is None:
                raise AnalysisError("goto without a resolved label in %s" % self.name)
            self._edge(n, self._label_node(key), "goto")
            return []
        # expression / declaration statements
        if k == "CXXThrowExpr" or (k == "ExprWithCleanups" and inner and strip(inner[0]).get("kind") == "CXXThrowExpr"):
            n = self._new("raise", st)
            self._connect(preds, n)
            self._edge(n, self.raise_exit, "raise")
            return []
        n = self._new("stmt", st)
        self._connect(preds, n)
        return [(n, None)]


def node_calls(n):
    """call expressions inside a CFG node's own expression"""
    if n.c is None:
        return []
    return [x for x in walk(n.c) if x.get("kind") in ("CallExpr", "CXXMemberCallExpr")]


def call_graph(funcs):
    g = nx.DiGraph()
    for name, d in funcs.items():
        g.add_node(name)
        for c in calls_in(d):
            cn = callee_name(c)
            if cn:
                g.add_edge(name, cn)
    return g


def reaching_functions(cg, primitives):
    """functions from which some primitive is reachable in the call graph"""
    out = set()
    for p in primitives:
        if p in cg:
            out |= nx.ancestors(cg, p)
            out.add(p)
    return out


# --------------------------------------------------------------------------
# small constant evaluator for std::string / vector<string> building code
# --------------------------------------------------------------------------

def enum_constants(decls_or_name_to_value=None):
    return {}


def string_table_effects(fn_decl, table_param, resolve_index=None):
    """Abstractly evaluate `formats[IDX] = "lit"`, `formats[IDX] += "lit"`
    statements (in order, straight-line part of the function only).
    Returns list of (index_text, op, value_text, node) in program order,
    including those nested in loops/ifs (flagged with their context kinds)."""
    out = []

    def visit(st, ctx):
        k = st.get("kind")
        if k in ("ForStmt", "WhileStmt", "IfStmt", "DoStmt"):
            for s in st.get("inner", []) or []:
                if isinstance(s, dict) and s.get("kind"):
                    visit(s, ctx + (k,))
            return
        if k == "CompoundStmt":
            for s in st.get("inner", []) or []:
                visit(s, ctx)
            return
        for x in walk(st):
            if x.get("kind") == "CXXOperatorCallExpr" and callee_name(x) in ("operator=", "operator+="):
                args = call_args(x)
                lhs = strip(args[0])
                if lhs.get("kind") == "CXXOperatorCallExpr" and callee_name(lhs) == "operator[]":
                    la = call_args(lhs)
                    if render(la[0]) == table_param:
                        out.append((render(la[1]), callee_name(x).replace("operator", ""), args[1], ctx, x))
                break

    visit(body_of(fn_decl), ())
    return out


# --------------------------------------------------------------------------
# comparison with the reviewed baseline (see vcheck/rename.py for the python side)
# --------------------------------------------------------------------------
BASELINE = os.path.join(VERIF, "baseline")
_NAME_KEYS = ("name",)


def baseline_functions(tu):
    """name -> decl of the baseline copy of a translation unit (None when it cannot be parsed)"""
    key = ("base", tu)
    if key in _inc_cache:
        return _inc_cache[key]
    try:
        out = functions(load_tu(tu, root=BASELINE, _raw=True))
    except AnalysisError:
        out = None
    _inc_cache[key] = out
    return out


def _kids(n):
    return [c for c in (n.get("inner", []) or []) if isinstance(c, dict) and c.get("kind")]


def c_skeleton(n):
    """node kinds and arity only"""
    return (n.get("kind"), tuple(c_skeleton(c) for c in _kids(n)))


def c_exact(n):
    return (n.get("kind"), n.get("name"), n.get("opcode"), n.get("value"), (n.get("referencedDecl") or {}).get("name"),
            (n.get("type") or {}).get("qualType") if n.get("kind") in ("VarDecl", "ParmVarDecl", "CStyleCastExpr") else None,
            tuple(c_exact(c) for c in _kids(n)))


def c_change_kind(cur, base):
    if base is None:
        return "restructured"
    if c_skeleton(cur) != c_skeleton(base):
        return "restructured"
    return "same" if c_exact(cur) == c_exact(base) else "leaf"


def _pair_names(cur, base, m):
    """walk two trees of identical skeleton and collect {current local name: baseline local name}"""
    k = cur.get("kind")
    if k in ("VarDecl", "ParmVarDecl") and cur.get("name") and base.get("name"):
        m.setdefault(cur["name"], set()).add(base["name"])
    if k == "DeclRefExpr":
        a, b = cur.get("referencedDecl") or {}, base.get("referencedDecl") or {}
        if a.get("kind") in ("VarDecl", "ParmVarDecl") and b.get("kind") in ("VarDecl", "ParmVarDecl") and a.get("name") and b.get("name"):
            m.setdefault(a["name"], set()).add(b["name"])
    for x, y in zip(_kids(cur), _kids(base)):
        _pair_names(x, y, m)


def _apply_names(n, m):
    k = n.get("kind")
    if k in ("VarDecl", "ParmVarDecl") and n.get("name") in m:
        n["name"] = m[n["name"]]
    if k == "DeclRefExpr":
        rd = n.get("referencedDecl") or {}
        if rd.get("kind") in ("VarDecl", "ParmVarDecl") and rd.get("name") in m:
            rd["name"] = m[rd["name"]]
    for c in _kids(n):
        _apply_names(c, m)


def undo_c_renames(decls, tu):
    """functions whose body has exactly the baseline's shape get their locals and parameters renamed back to the baseline's
    names (pure renames must not change a verdict); anything else is left as it is"""
    base = baseline_functions(tu)
    if not base:
        return 0
    cur = functions(decls)
    n = 0
    seen = set()
    for name, d in cur.items():
        if id(d) in seen:
            continue
        seen.add(id(d))
        b = base.get(name)
        if b is None or c_skeleton(d) != c_skeleton(b) or c_exact(d) == c_exact(b):
            continue
        m = {}
        _pair_names(d, b, m)
        mm = {x: next(iter(ys)) for x, ys in m.items() if len(ys) == 1}
        mm = {x: y for x, y in mm.items() if x != y}
        if mm:
            _apply_names(d, mm)
            n += len(mm)
    return n
