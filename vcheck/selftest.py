"""Thorough tier: test the checker both ways on scratch copies of the CURRENT tree.

  (a) breaking variants: every patch listed for this property in
      selftest/expect.json (reverts of repaired defects under selftest/regress/,
      confirmed seeded changes under seeded/<id>/patch.diff) is applied to a
      scratch copy; the check must exit 1 there.  A patch that no longer applies
      to the current tree is skipped and reported, not failed.
  (b) benign twins: semantics-preserving rewrites of the whole tree (python
      modules re-generated from their AST: comments, layout, quoting and
      redundant parentheses change; line numbers shifted in python and C/C++
      sources); the check must give the same verdict as on the unchanged tree.

A self-test failure means the checker is broken, not the repository:
AnalysisError (exit 2).  Nothing under /repo is modified; copies live under
/tmp/vcheck-variant-* and are removed.
"""
import ast
import json
import os
import shutil
import subprocess
import tempfile
from concurrent.futures import ThreadPoolExecutor

from .core import AnalysisError, REPO, VERIF

EXPECT = os.path.join(VERIF, "selftest", "expect.json")


def make_copy():
    d = tempfile.mkdtemp(prefix="vcheck-variant-")
    subprocess.check_call(["rsync", "-a", "--exclude", ".git", "--exclude", "*.so", "--exclude", "__pycache__",
                           "--exclude", "build", "--exclude", "*.egg-info", REPO.rstrip("/") + "/", d + "/"])
    return d


def run_check(root, pid):
    env = dict(os.environ, VCHECK_REPO=root, VERIF_TIER="quick")
    p = subprocess.run(["python3-vt", "-m", "vcheck.run", pid, "--tier", "quick", "--no-evidence"], cwd=VERIF, env=env,
                       capture_output=True, text=True)
    rules = sorted({l.split("rule=")[1].split(" ")[0] for l in p.stdout.splitlines() if l.startswith("  ") and "rule=" in l})
    return p.returncode, rules, p.stdout[-400:]


def _variant_patch(args):
    pid, rel = args
    patch = os.path.join(VERIF, rel)
    d = make_copy()
    try:
        r = subprocess.run(["patch", "-p1", "-s", "-f", "-i", patch], cwd=d, capture_output=True, text=True)
        if r.returncode != 0:
            return rel, "skipped", "patch does not apply to the current tree"
        rc, rules, tail = run_check(d, pid)
        return rel, ("fired" if rc == 1 else "MISSED rc=%d" % rc), ",".join(rules) or tail[-200:]
    finally:
        shutil.rmtree(d, ignore_errors=True)


def _reformat(d):
    n = 0
    for dp, dn, fn in os.walk(os.path.join(d, "esutil")):
        if "tests" in dp.split(os.sep):
            continue
        for f in fn:
            if f.endswith(".py"):
                p = os.path.join(dp, f)
                src = open(p, encoding="utf-8", errors="replace").read()
                try:
                    out = ast.unparse(ast.parse(src))
                except SyntaxError:
                    continue
                open(p, "w").write(out + "\n")
                n += 1
    return n


def _shift(d):
    n = 0
    for dp, dn, fn in os.walk(os.path.join(d, "esutil")):
        for f in fn:
            p = os.path.join(dp, f)
            if f.endswith(".py") and "tests" not in dp.split(os.sep):
                src = open(p, encoding="utf-8", errors="replace").read()
                head = "# shifted\n# shifted\n# shifted\n"
                if src.startswith("#!") or src.lstrip().startswith('"""') or src.lstrip().startswith("'''") or "from __future__" in src[:2000]:
                    # keep shebang / module docstring / __future__ first: append the filler after the first import instead
                    lines = src.split("\n")
                    k = next((i for i, l in enumerate(lines) if l.startswith(("import ", "from ")) and "__future__" not in l), None)
                    if k is None:
                        continue
                    lines[k:k] = ["# shifted", "# shifted", "# shifted"]
                    src = "\n".join(lines)
                else:
                    src = head + src
                open(p, "w").write(src)
                n += 1
            elif f.endswith((".c", ".cc", ".cpp", ".h")) and "htm_src" not in dp:
                src = open(p, encoding="utf-8", errors="replace").read()
                open(p, "w").write("/* shifted */\n/* shifted */\n/* shifted */\n" + src)
                n += 1
    return n


BENIGN = {"reformat-python-from-ast": _reformat, "shift-line-numbers": _shift}


def _variant_benign(args):
    pid, name, base_rc = args
    d = make_copy()
    try:
        n = BENIGN[name](d)
        rc, rules, tail = run_check(d, pid)
        return name, ("silent" if rc == base_rc else "FALSE-ALARM rc=%d (unchanged tree rc=%d)" % (rc, base_rc)), "%d files rewritten; %s" % (n, ",".join(rules) or "")
    finally:
        shutil.rmtree(d, ignore_errors=True)


def _variant_benign_patch(args):
    pid, sid, want = args
    patch = os.path.join(VERIF, "selftest", "benign", sid, "patch.diff")
    d = make_copy()
    try:
        r = subprocess.run(["patch", "-p1", "-s", "-f", "-i", patch], cwd=d, capture_output=True, text=True)
        if r.returncode != 0:
            return sid, "skipped", "patch does not apply to the current tree"
        rc, rules, tail = run_check(d, pid)
        if rc == 1:
            return sid, "FALSE-ALARM", ",".join(rules)
        if rc != want and rc != 0:      # recorded "no verdict", now decided and silent: fine
            return sid, "changed rc=%d (recorded %d)" % (rc, want), tail[-160:].replace("\n", " ")
        return sid, "silent" if rc == 0 else "no-verdict", ""
    finally:
        shutil.rmtree(d, ignore_errors=True)


def run_for(pid, mod, chk):
    if os.environ.get("VCHECK_REPO"):
        return       # never recurse from inside a variant run
    exp = {}
    if os.path.exists(EXPECT):
        with open(EXPECT) as f:
            exp = json.load(f)
    patches = sorted(rel for rel, e in exp.get("patches", {}).items() if pid in e.get("must_fire", []))
    # the unchanged-tree verdict of this run (known findings do not count as violations)
    from .core import load_known
    known = {(k.get("rule"), k.get("key")) for k in load_known()["open"] if k.get("property") == pid}
    base_rc = 1 if any((not o["ok"]) and (o["rule"], o["key"]) not in known for o in chk.obl) else 0
    jobs = int(os.environ.get("VCHECK_JOBS", "16"))
    with ThreadPoolExecutor(max_workers=jobs) as ex:
        res_p = list(ex.map(_variant_patch, [(pid, rel) for rel in patches]))
        res_b = list(ex.map(_variant_benign, [(pid, name, base_rc) for name in BENIGN]))
        bexp = {}
        bp = os.path.join(VERIF, "selftest", "benign", "expect.json")
        if os.path.exists(bp):
            with open(bp) as f:
                bexp = json.load(f)
        # behaviour-preserving refactors written by independent sub-agents: never a violation; the recorded verdict
        # (0 = silent, 2 = construct not recognised) must be reproduced
        todo = [(pid, sid, e[pid]) for sid, e in sorted(bexp.items()) if pid in e]
        res_r = list(ex.map(_variant_benign_patch, todo))
    chk.notes["selftest"] = {
        "breaking_variants": [{"patch": rel, "result": r, "rules": info} for rel, r, info in res_p],
        "benign_twins": [{"rewrite": n, "result": r, "info": info} for n, r, info in res_b],
        "benign_refactors": {"silent": sum(1 for _, r, _ in res_r if r == "silent"), "no_verdict": sorted(s_ for s_, r, _ in res_r if r == "no-verdict"),
                             "skipped": sorted(s_ for s_, r, _ in res_r if r == "skipped"), "total": len(res_r)},
        "explanation": "each breaking variant is a patch (revert of a repaired defect or a confirmed seeded change) applied to a scratch copy of the "
                       "current tree, on which this check must report a violation; each benign twin is a semantics-preserving rewrite of the whole "
                       "tree on which the verdict must not change",
    }
    missed = [rel for rel, r, _ in res_p if r.startswith("MISSED")]
    alarms = [n for n, r, _ in res_b if r.startswith("FALSE")] + ["%s (%s %s)" % (s_, r, i_) for s_, r, i_ in res_r if r.startswith(("FALSE", "changed"))]
    fired = sum(1 for _, r, _ in res_p if r == "fired")
    print("%s self-test: %d/%d breaking variants detected (%d skipped), %d/%d benign twins silent, %d benign refactors: %d silent, %d no verdict"
          % (pid, fired, len(res_p), sum(1 for _, r, _ in res_p if r == "skipped"), sum(1 for _, r, _ in res_b if r == "silent"), len(res_b),
             len(res_r), sum(1 for _, r, _ in res_r if r == "silent"), sum(1 for _, r, _ in res_r if r == "no-verdict")))
    if missed or alarms:
        raise AnalysisError("%s self-test failed: missed %s; false alarms on %s" % (pid, missed, alarms))
