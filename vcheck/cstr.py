"""printf/scanf directive parser, PyArg_ParseTuple format parser and a tiny
evaluator for C++ conditions over one std::string variable (E4)."""
import re

from . import cfront

_DIR = re.compile(r"%(?P<flags>[-+ #0]*)(?P<star>\*)?(?P<width>\d+)?(?:\.(?P<prec>\d+))?"
                  r"(?P<length>hh|h|ll|l|L|q|j|z|t)?(?P<conv>[diouxXeEfFgGaAcspn%\[])")


def printf_directives(fmt):
    """{'literal_prefix': text before first directive, 'directives': [...], 'suffix': text after last}"""
    ds = []
    pos = 0
    prefix = None
    last_end = 0
    for m in _DIR.finditer(fmt):
        if m.group("conv") == "%":
            continue
        if prefix is None:
            prefix = fmt[:m.start()]
        ds.append({"width": int(m.group("width")) if m.group("width") else None,
                   "prec": int(m.group("prec")) if m.group("prec") else None,
                   "length": m.group("length") or "",
                   "conv": m.group("conv"),
                   "flags": m.group("flags") or "",
                   "suppress": bool(m.group("star")),
                   "text": m.group(0), "start": m.start(), "end": m.end()})
        last_end = m.end()
    return {"literal_prefix": prefix if prefix is not None else fmt, "directives": ds,
            "suffix": fmt[last_end:] if ds else ""}


def parse_tuple_format(fmt):
    """PyArg_ParseTuple format -> list of unit codes (O, d, l, i, s, ...), '|' kept"""
    fmt = fmt.split(":")[0].split(";")[0]
    out = []
    i = 0
    while i < len(fmt):
        c = fmt[i]
        if c in "OdlifLKkIhHbBnpDcCsSzUywYe|$":
            u = c
            while i + 1 < len(fmt) and fmt[i + 1] in "#*!&":
                u += fmt[i + 1]
                i += 1
            out.append(u)
        i += 1
    return out


def c_string_literal(node):
    n = cfront.strip(node)
    if n.get("kind") == "StringLiteral":
        v = n.get("value", "")
        if len(v) >= 2 and v[0] == '"' and v[-1] == '"':
            v = v[1:-1]
        try:
            return v.encode("latin-1", "backslashreplace").decode("unicode_escape")
        except Exception:
            return v
    if n.get("kind") == "CXXConstructExpr" and n.get("inner"):
        return c_string_literal(n["inner"][0])
    return None


def c_char_literal(node):
    n = cfront.strip(node)
    if n.get("kind") == "CharacterLiteral":
        v = n.get("value")
        if isinstance(v, int):
            return chr(v)
    return None


def eval_c_string_cond(cond, var, value):
    """evaluate a C++ boolean expression over std::string `var` == value.
    Supported: var[i] == 'c', var == "lit", var.size() <op> n, ||, &&, !, parens.
    Returns True/False/None(unknown)."""
    n = cfront.strip(cond)
    k = n.get("kind")
    inner = n.get("inner", []) or []
    if k == "BinaryOperator":
        op = n.get("opcode")
        if op in ("||", "&&"):
            a = eval_c_string_cond(inner[0], var, value)
            b = eval_c_string_cond(inner[1], var, value)
            if op == "||":
                if a is True or b is True:
                    return True
                if a is False and b is False:
                    return False
                return None
            if a is False or b is False:
                return False
            if a is True and b is True:
                return True
            return None
        if op in ("==", "!=", "<", ">", "<=", ">="):
            a = _sval(inner[0], var, value)
            b = _sval(inner[1], var, value)
            if a is None or b is None:
                return None
            try:
                return {"==": a == b, "!=": a != b, "<": a < b, ">": a > b, "<=": a <= b, ">=": a >= b}[op]
            except TypeError:
                return None
    if k == "CXXOperatorCallExpr":
        nm = cfront.callee_name(n)
        args = cfront.call_args(n)
        if nm in ("operator==", "operator!=") and len(args) == 2:
            a = _sval(args[0], var, value)
            b = _sval(args[1], var, value)
            if a is None or b is None:
                return None
            return (a == b) if nm == "operator==" else (a != b)
    if k == "UnaryOperator" and n.get("opcode") == "!":
        a = eval_c_string_cond(inner[0], var, value)
        return None if a is None else (not a)
    return None


def _sval(node, var, value):
    n = cfront.strip(node)
    k = n.get("kind")
    if cfront.render(n) == var:
        return value
    s = c_string_literal(n)
    if s is not None:
        return s
    c = c_char_literal(n)
    if c is not None:
        return c
    if k == "IntegerLiteral":
        return int(n.get("value"))
    if k == "CXXOperatorCallExpr" and cfront.callee_name(n) == "operator[]":
        args = cfront.call_args(n)
        base = _sval(args[0], var, value)
        idx = _sval(args[1], var, value)
        if isinstance(base, str) and isinstance(idx, int):
            return base[idx] if idx < len(base) else "\0"
        return None
    if k == "CXXMemberCallExpr" and cfront.callee_name(n) in ("size", "length"):
        base = cfront.strip(n["inner"][0])
        if base.get("kind") == "MemberExpr" and base.get("inner"):
            b = _sval(base["inner"][0], var, value)
            if isinstance(b, str):
                return len(b)
    return None
