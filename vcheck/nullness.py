"""E11 -- nullness: values that may be None must not reach an ordering
comparison, arithmetic or a subscript unless a None-excluding test dominates.

Forward may-analysis on the CFG with branch refinement; interprocedural through
resolved package callees (callee analysed with the parameter marked maybe-None).
"""
import ast

from . import rules
from .core import call_name, dotted_name, norm, walk_no_nested

ORDER = (ast.Lt, ast.LtE, ast.Gt, ast.GtE)


class Nullness:
    def __init__(self, repo):
        self.repo = repo
        self.memo = {}
        self.reports = []      # (fi, node, var, what, chain)

    def analyse(self, fi, maybe_none_params, chain=()):
        key = (fi.qualname, tuple(sorted(maybe_none_params)))
        if key in self.memo:
            return
        self.memo[key] = True
        cfg = rules.cfg_of(fi)
        view = cfg.view()
        init = set(maybe_none_params)
        IN = {cfg.entry.id: set(init)}
        OUT = {}
        order = [n for n in cfg.nodes if view.reachable(n)]
        for _ in range(20):
            changed = False
            for n in order:
                if n.id == cfg.entry.id:
                    s = set(init)
                else:
                    s = set()
                    for p in view.pred(n):
                        o = OUT.get((p.id, n.id))
                        if o is None:
                            o = OUT.get((p.id, None))
                        if o is not None:
                            s |= o
                IN[n.id] = s
                outs = self.transfer(cfg, view, n, s)
                for k, v in outs.items():
                    if OUT.get(k) != v:
                        OUT[k] = v
                        changed = True
            if not changed:
                break
        for n in order:
            self.uses(fi, n, IN.get(n.id, set()), chain)

    # ------------------------------------------------------------------
    def transfer(self, cfg, view, n, s):
        a = n.ast
        out = set(s)
        if a is None:
            return {(n.id, None): out}
        if n.kind == "branch" or (n.kind == "loop" and isinstance(a, ast.While)):
            res = {}
            t_true, t_false = set(out), set(out)
            self._refine(a.test, t_true, t_false)
            for j in view.g.successors(n.id):
                labs = view.g[n.id][j]["labels"]
                if "T" in labs and "F" not in labs:
                    res[(n.id, j)] = t_true
                elif "F" in labs and "T" not in labs:
                    res[(n.id, j)] = t_false
                else:
                    res[(n.id, j)] = out
            return res
        if n.kind == "handler":
            return {(n.id, None): out}
        if n.kind == "stmt" and isinstance(a, ast.Assign):
            isnone = isinstance(a.value, ast.Constant) and a.value.value is None
            maybe = isnone or (isinstance(a.value, ast.Name) and a.value.id in out) or \
                (isinstance(a.value, ast.IfExp) and any(isinstance(x, ast.Constant) and x.value is None for x in (a.value.body, a.value.orelse)))
            for t in a.targets:
                for tt in (t.elts if isinstance(t, (ast.Tuple, ast.List)) else [t]):
                    if isinstance(tt, ast.Name):
                        if maybe:
                            out.add(tt.id)
                        else:
                            out.discard(tt.id)
        elif n.kind == "stmt" and isinstance(a, ast.AugAssign) and isinstance(a.target, ast.Name):
            out.discard(a.target.id)
        elif n.kind == "stmt" and isinstance(a, ast.Assert):
            t_true, t_false = set(out), set(out)
            self._refine(a.test, t_true, t_false)
            out = t_true
        elif n.kind == "loop" and isinstance(a, ast.For):
            for x in ast.walk(a.target):
                if isinstance(x, ast.Name):
                    out.discard(x.id)
        return {(n.id, None): out}

    def _refine(self, t, s_true, s_false):
        if isinstance(t, ast.Compare) and len(t.ops) == 1 and isinstance(t.left, ast.Name) and \
                isinstance(t.comparators[0], ast.Constant) and t.comparators[0].value is None:
            if isinstance(t.ops[0], ast.Is):
                s_false.discard(t.left.id)
            elif isinstance(t.ops[0], ast.IsNot):
                s_true.discard(t.left.id)
        elif isinstance(t, ast.Name):
            s_true.discard(t.id)
        elif isinstance(t, ast.UnaryOp) and isinstance(t.op, ast.Not):
            self._refine(t.operand, s_false, s_true)
        elif isinstance(t, ast.BoolOp) and isinstance(t.op, ast.And):
            for v in t.values:
                dummy = set(s_false)
                self._refine(v, s_true, dummy)
        elif isinstance(t, ast.BoolOp) and isinstance(t.op, ast.Or):
            for v in t.values:
                dummy = set(s_true)
                self._refine(v, dummy, s_false)

    # ------------------------------------------------------------------
    def uses(self, fi, n, s, chain):
        a = n.ast
        if a is None or not s:
            return
        roots = []
        if n.kind == "branch" or (n.kind == "loop" and isinstance(a, ast.While)):
            roots = [a.test]
        elif n.kind in ("stmt", "return", "raise"):
            roots = [a]
        elif n.kind == "loop":
            roots = [a.iter]
        for r in roots:
            self._scan(fi, n, r, set(s), chain)

    def _scan(self, fi, n, e, s, chain):
        """walk expression with short-circuit refinement for and/or/ifexp"""
        if isinstance(e, ast.BoolOp):
            cur = set(s)
            for v in e.values:
                self._scan(fi, n, v, cur, chain)
                t, f = set(cur), set(cur)
                self._refine(v, t, f)
                cur = t if isinstance(e.op, ast.And) else f
            return
        if isinstance(e, ast.IfExp):
            t, f = set(s), set(s)
            self._refine(e.test, t, f)
            self._scan(fi, n, e.test, s, chain)
            self._scan(fi, n, e.body, t, chain)
            self._scan(fi, n, e.orelse, f, chain)
            return
        if isinstance(e, ast.Compare):
            ops = [e.left] + list(e.comparators)
            for i, op in enumerate(e.ops):
                if isinstance(op, ORDER):
                    for side in (ops[i], ops[i + 1]):
                        if isinstance(side, ast.Name) and side.id in s:
                            self.reports.append((fi, e, side.id, "ordering comparison `%s` with a value that may be None" % norm(e), chain))
        elif isinstance(e, ast.BinOp) and isinstance(e.op, (ast.Add, ast.Sub, ast.Mult, ast.Div, ast.FloorDiv, ast.Mod, ast.Pow)):
            for side in (e.left, e.right):
                if isinstance(side, ast.Name) and side.id in s and not (isinstance(e.op, ast.Mod) and isinstance(e.left, ast.Constant)):
                    self.reports.append((fi, e, side.id, "arithmetic `%s` on a value that may be None" % norm(e), chain))
        elif isinstance(e, ast.Call):
            # propagate into resolved package callees
            d = dotted_name(e.func)
            if d:
                full = self.repo.resolve_name(fi.module, d)
                if self.repo.has(full):
                    callee = self.repo.func(full)
                    params = [p for p in callee.params if not p.startswith("*")]
                    mn = set()
                    for i, a in enumerate(e.args):
                        if isinstance(a, ast.Name) and a.id in s and i < len(params):
                            mn.add(params[i])
                    for k in e.keywords:
                        if k.arg and isinstance(k.value, ast.Name) and k.value.id in s:
                            mn.add(k.arg)
                    if mn:
                        self.analyse(callee, mn, chain + ("%s (%s)" % (fi.qualname, fi.where(e)),))
        for c in ast.iter_child_nodes(e):
            if isinstance(c, (ast.expr,)) or isinstance(c, ast.keyword):
                self._scan(fi, n, c.value if isinstance(c, ast.keyword) else c, s, chain)
            elif isinstance(c, ast.stmt):
                continue
        if isinstance(e, ast.stmt):
            for c in ast.iter_child_nodes(e):
                pass
