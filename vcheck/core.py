"""vcheck.core -- repository front-end (Python side), rule/obligation reporting,
evidence files and known findings.

Nothing under /repo is imported or executed: sources are read and parsed only.
"""
import ast
import hashlib
import json
import os
import sys
import time

REPO = os.environ.get("VCHECK_REPO", "/repo")
VERIF = os.path.dirname(os.path.dirname(os.path.abspath(__file__)))
PKG = "esutil"


class AnalysisError(Exception):
    """The analysis itself is broken (vanished anchor, unknown construct, floor
    not reached).  Never reported as a VIOLATION: exit code 2."""


# --------------------------------------------------------------------------
# Python front-end
# --------------------------------------------------------------------------

class FuncInfo:
    __slots__ = ("qualname", "module", "cls", "node", "path", "params", "defaults")

    def __init__(self, qualname, module, cls, node, path):
        self.qualname = qualname
        self.module = module
        self.cls = cls
        self.node = node
        self.path = path
        a = node.args
        self.params = [x.arg for x in a.posonlyargs + a.args]
        self.defaults = {}
        pos = a.posonlyargs + a.args
        for p, d in zip(pos[len(pos) - len(a.defaults):], a.defaults):
            self.defaults[p.arg] = d
        for p, d in zip(a.kwonlyargs, a.kw_defaults):
            self.params.append(p.arg)
            if d is not None:
                self.defaults[p.arg] = d
        if a.vararg:
            self.params.append("*" + a.vararg.arg)
        if a.kwarg:
            self.params.append("**" + a.kwarg.arg)

    @property
    def name(self):
        return self.node.name

    def where(self, node=None):
        n = node if node is not None else self.node
        return "%s:%s" % (os.path.relpath(self.path, REPO), getattr(n, "lineno", "?"))

    def __repr__(self):
        return "<Func %s>" % self.qualname


class ModuleInfo:
    def __init__(self, name, path, src, tree):
        self.name = name
        self.path = path
        self.src = src
        self.tree = tree
        self.imports = {}      # local name -> dotted target
        self.funcs = {}        # local qual (f or C.m) -> FuncInfo
        self.classes = {}      # class name -> ClassDef
        self.consts = {}       # module-level simple assignments: name -> ast expr
        self.star = []         # modules star-imported

    @property
    def relpath(self):
        return os.path.relpath(self.path, REPO)


class PyRepo:
    """All non-test python modules of the package, parsed."""

    def __init__(self, root=None, inline=False):
        self.root = root or REPO
        self.inlined = []      # (file, caller, helper): calls of helpers the baseline does not have, folded back into the caller
        self.modules = {}
        self.funcs = {}
        self.digest = hashlib.sha256()
        self.renames = []      # (file, function, {current name: baseline name}) undone before analysis
        pkgdir = os.path.join(self.root, PKG)
        if not os.path.isdir(pkgdir):
            raise AnalysisError("package directory %s missing" % pkgdir)
        for dp, dns, fns in sorted(os.walk(pkgdir)):
            dns[:] = sorted(d for d in dns if d not in ("tests", "__pycache__"))
            for fn in sorted(fns):
                if not fn.endswith(".py"):
                    continue
                path = os.path.join(dp, fn)
                rel = os.path.relpath(path, self.root)
                modname = rel[:-3].replace(os.sep, ".")
                if modname.endswith(".__init__"):
                    modname = modname[: -len(".__init__")]
                try:
                    src = open(path, encoding="utf-8", errors="replace").read()
                    tree = ast.parse(src, filename=path)
                except SyntaxError as e:
                    raise AnalysisError("cannot parse %s: %s" % (rel, e))
                self.digest.update(src.encode())
                if (inline or os.environ.get("VCHECK_INLINE") == "1") and os.environ.get("VCHECK_NO_INLINE") != "1":
                    from . import inline as _inline
                    _inline.inline_new_helpers(tree, rel, self.inlined)
                if os.environ.get("VCHECK_NO_RENAME") != "1":
                    from . import rename
                    rename.undo_renames(tree, rel, self.renames)
                m = ModuleInfo(modname, path, src, tree)
                self.modules[modname] = m
                self._index(m)

    def _index(self, m):
        is_pkg = m.path.endswith("__init__.py")
        base = m.name if is_pkg else m.name.rsplit(".", 1)[0]

        def absmod(level, module):
            if level == 0:
                return module or ""
            parts = base.split(".")
            if level > 1:
                parts = parts[: len(parts) - (level - 1)]
            return ".".join(parts + ([module] if module else []))

        for node in ast.walk(m.tree):
            if isinstance(node, ast.Import):
                for al in node.names:
                    m.imports[al.asname or al.name.split(".")[0]] = al.name if al.asname else al.name.split(".")[0]
            elif isinstance(node, ast.ImportFrom):
                mod = absmod(node.level, node.module)
                for al in node.names:
                    if al.name == "*":
                        m.star.append(mod)
                        continue
                    m.imports[al.asname or al.name] = (mod + "." + al.name) if mod else al.name
        for node in m.tree.body:
            if isinstance(node, (ast.FunctionDef, ast.AsyncFunctionDef)):
                fi = FuncInfo(m.name + "." + node.name, m, None, node, m.path)
                m.funcs[node.name] = fi
                self.funcs[fi.qualname] = fi
            elif isinstance(node, ast.ClassDef):
                m.classes[node.name] = node
                for sub in node.body:
                    if isinstance(sub, (ast.FunctionDef, ast.AsyncFunctionDef)):
                        fi = FuncInfo("%s.%s.%s" % (m.name, node.name, sub.name), m, node.name, sub, m.path)
                        m.funcs[node.name + "." + sub.name] = fi
                        self.funcs[fi.qualname] = fi
            elif isinstance(node, ast.Assign) and len(node.targets) == 1 and isinstance(node.targets[0], ast.Name):
                m.consts[node.targets[0].id] = node.value
            elif isinstance(node, (ast.If, ast.Try)):
                # functions defined under `if have_x:` / try: at module level
                for sub in ast.walk(node):
                    if isinstance(sub, (ast.FunctionDef,)) and sub.name not in m.funcs:
                        if any(sub in getattr(p, "body", []) or sub in getattr(p, "orelse", [])
                               for p in ast.walk(node) if isinstance(p, (ast.If, ast.Try))):
                            fi = FuncInfo(m.name + "." + sub.name, m, None, sub, m.path)
                            m.funcs.setdefault(sub.name, fi)
                            self.funcs.setdefault(fi.qualname, fi)

    # ------------------------------------------------------------------
    def func(self, qualname):
        """anchor lookup; a vanished anchor is an analysis error"""
        f = self.funcs.get(qualname)
        if f is None:
            raise AnalysisError("anchor %s not found in the current tree" % qualname)
        return f

    def has(self, qualname):
        return qualname in self.funcs

    def module(self, name):
        m = self.modules.get(name)
        if m is None:
            raise AnalysisError("module %s not found in the current tree" % name)
        return m

    def resolve_name(self, mod, dotted):
        """resolve a dotted local name (as written in module `mod`) to a fully
        qualified one: 'np.where' -> 'numpy.where', 'recfile.Recfile' ->
        'esutil.recfile.Util.Recfile' (following package re-exports once)."""
        parts = dotted.split(".")
        head = parts[0]
        if head in mod.imports:
            full = ".".join([mod.imports[head]] + parts[1:])
        elif head in mod.funcs or head in mod.classes or head in mod.consts:
            full = mod.name + "." + dotted
        else:
            return dotted
        return self._follow(full)

    def _follow(self, full, depth=0):
        if depth > 4 or full in self.funcs:
            return full
        # esutil.recfile.Recfile -> look in esutil.recfile.__init__ imports
        parts = full.split(".")
        for i in range(len(parts) - 1, 0, -1):
            mname = ".".join(parts[:i])
            if mname in self.modules:
                m = self.modules[mname]
                rest = parts[i:]
                if rest and rest[0] in m.imports and rest[0] not in m.funcs and rest[0] not in m.classes:
                    tgt = ".".join([m.imports[rest[0]]] + rest[1:])
                    if tgt != full:
                        return self._follow(tgt, depth + 1)
                if rest and rest[0] not in m.funcs and rest[0] not in m.classes:
                    for sm in m.star:
                        cand = ".".join([sm] + rest)
                        if cand in self.funcs or self.class_of(".".join([sm] + rest[:1])):
                            return cand
                return full
        return full

    def class_of(self, full):
        """(module, ClassDef) for a fully-qualified class name, or None"""
        parts = full.split(".")
        mname, cname = ".".join(parts[:-1]), parts[-1]
        m = self.modules.get(mname)
        if m and cname in m.classes:
            return m, m.classes[cname]
        return None


def dotted_name(n):
    if isinstance(n, ast.Name):
        return n.id
    if isinstance(n, ast.Attribute):
        b = dotted_name(n.value)
        return (b + "." + n.attr) if b else None
    return None


def call_name(call):
    """the rightmost identifier of the callee: np.where -> where, x.view -> view"""
    f = call.func
    if isinstance(f, ast.Name):
        return f.id
    if isinstance(f, ast.Attribute):
        return f.attr
    return None


def kwarg(call, name, default=None):
    for k in call.keywords:
        if k.arg == name:
            return k.value
    return default


def norm(node):
    """normalised source text of an AST node (position independent)"""
    try:
        return ast.unparse(node)
    except Exception:  # pragma: no cover
        return ast.dump(node)


def const_value(node, default=None):
    if isinstance(node, ast.Constant):
        return node.value
    if isinstance(node, ast.UnaryOp) and isinstance(node.op, ast.USub) and isinstance(node.operand, ast.Constant):
        return -node.operand.value
    return default


def walk_no_nested(node):
    """pre-order (source order) walk that does not descend into nested
    function/class definitions (but yields the root even if it is a def)"""
    todo = [node]
    while todo:
        n = todo.pop()
        yield n
        kids = [c for c in ast.iter_child_nodes(n)
                if not isinstance(c, (ast.FunctionDef, ast.AsyncFunctionDef, ast.ClassDef, ast.Lambda))]
        todo.extend(reversed(kids))


# --------------------------------------------------------------------------
# Reporting
# --------------------------------------------------------------------------

def load_known():
    path = os.path.join(VERIF, "known_findings.json")
    if not os.path.exists(path):
        return {"open": [], "fixed": []}
    with open(path) as f:
        d = json.load(f)
    d.setdefault("open", [])
    d.setdefault("fixed", [])
    return d


def _matches_fixed(o, fixed):
    """does the failing instance `o` belong to a (rule, function) for which a repaired defect is on record?"""
    head = o["key"].split("::")[0]
    for rule, key in fixed:
        if rule != o["rule"]:
            continue
        for alt in key.split(" / "):
            a = alt.strip().split("::")[0]
            if a and (head == a or head.endswith("." + a) or o["key"] == key):
                return True
    return False


_churn_cache = {}


def _norm_lines_py(src):
    import ast as _ast
    out = []
    try:
        tree = _ast.parse(src)
    except SyntaxError:
        return None

    def walk(stmts):
        for st in stmts:
            if isinstance(st, _ast.Expr) and isinstance(st.value, _ast.Constant) and isinstance(st.value.value, str):
                continue
            if isinstance(st, (_ast.FunctionDef, _ast.AsyncFunctionDef, _ast.ClassDef)):
                out.append("def " + st.name)
                walk(st.body)
                continue
            body_fields = [f for f in ("body", "orelse", "finalbody") if isinstance(getattr(st, f, None), list)]
            if body_fields:
                head = _ast.dump(st.test, annotate_fields=False) if hasattr(st, "test") else type(st).__name__
                if isinstance(st, _ast.For):
                    head = "for " + _ast.unparse(st.target) + " in " + _ast.unparse(st.iter)
                elif hasattr(st, "test"):
                    head = type(st).__name__ + " " + _ast.unparse(st.test)
                out.append(head)
                for f in body_fields:
                    walk(getattr(st, f))
                for h in getattr(st, "handlers", []) or []:
                    walk(h.body)
            else:
                out.append(_ast.unparse(st))
    walk(tree.body)
    return out


def _norm_lines_c(src):
    import re as _re
    src = _re.sub(r"/\*.*?\*/", "", src, flags=_re.S)
    src = _re.sub(r"//[^\n]*", "", src)
    out = []
    for l in src.splitlines():
        l = _re.sub(r"\s+", "", l)
        if l and l not in ("{", "}", "};"):
            out.append(l)
    return out


def file_churn(relpath):
    """number of normalised statements (python) / code lines (C, C++) in which the current file differs from /verif/baseline
    (inserted + deleted, by difflib); None when the file or its baseline copy does not exist"""
    if relpath in _churn_cache:
        return _churn_cache[relpath]
    import difflib
    cur = os.path.join(REPO, relpath)
    base = os.path.join(VERIF, "baseline", relpath)
    n = None
    if relpath and os.path.isfile(cur) and os.path.isfile(base):
        a = open(base, encoding="utf-8", errors="replace").read()
        b = open(cur, encoding="utf-8", errors="replace").read()
        if a == b:
            n = 0
        else:
            if relpath.endswith(".py"):
                la, lb = _norm_lines_py(a), _norm_lines_py(b)
            else:
                la, lb = _norm_lines_c(a), _norm_lines_c(b)
            if la is not None and lb is not None:
                n = 0
                for tag, i1, i2, j1, j2 in difflib.SequenceMatcher(None, la, lb, autojunk=False).get_opcodes():
                    if tag != "equal":
                        n += (i2 - i1) + (j2 - j1)
    _churn_cache[relpath] = n
    return n


class Check:
    """Collects rule instances (obligations) of one property run."""

    def __init__(self, pid, tier="quick", seed=0, only=None):
        self.pid = pid
        self.tier = tier
        self.seed = seed
        self.t0 = time.time()
        self.obl = []          # dicts
        self.observations = []
        self.analysed = []     # functions / units analysed
        self.assumptions = []
        self.notes = {}
        self.only = only       # (rule, key) filter for replay
        self.floor = 0
        self.unrecognised = []
        self._templates = None
        self._repo = None
        self.explanation = ""
        self.trusted = []

    # -- recording ------------------------------------------------------
    def analysed_unit(self, what):
        if what not in self.analysed:
            self.analysed.append(what)

    def ob(self, rule, key, ok, where="", msg="", nontrivial=True, detail=None):
        """one rule instance.  key identifies the construct (stable under
        line-number changes); msg says what was checked / what is wrong."""
        if ok is not None and not ok and self._templates is not None and self._is_template(rule, key):
            cls = self._classify(where)
            if cls == "restructured":
                ok = None
                msg = msg + " [the function at %s was restructured since the reviewed baseline: the construct this template rule looks for is not recognised]" % where
        if ok is None:
            # the construct the rule is about was not recognised in the current source (a restructured or renamed idiom):
            # no verdict for this instance -- the run ends as analysis-broken unless a real violation is found elsewhere
            self.unrecognised.append({"rule": rule, "key": key, "where": where, "msg": msg})
            return False
        rec = {"rule": rule, "key": key, "ok": bool(ok), "where": where, "msg": msg,
               "nontrivial": bool(nontrivial)}
        if detail is not None:
            rec["detail"] = detail
        self.obl.append(rec)
        return bool(ok)

    # -- template rules ---------------------------------------------------
    def set_templates(self, repo, semantic=()):
        """every rule of this check is a template rule (see obt) except those whose id, or 'id::key prefix', is listed in `semantic`:
        rules decided by term equality, effect analysis, or dominance over resolved calls keep their verdict however the code is laid out"""
        self._templates = tuple(semantic)
        self._repo = repo

    def _is_template(self, rule, key):
        for s_ in self._templates:
            if s_ == rule or (s_.startswith(rule + "::") and key.startswith(s_[len(rule) + 2:])) or ("::" not in s_ and rule.startswith(s_ + ".")):
                return False
        return True

    def _classify(self, where):
        """how the python function containing `where` (path:line) changed relative to the baseline: same / leaf / restructured / None"""
        from . import rename
        try:
            path, line = where.rsplit(":", 1)
            line = int(line)
        except Exception:
            return None
        if path.endswith((".c", ".cc", ".cpp", ".h", ".hpp")):
            return self._classify_c(path, line)
        if not path.endswith(".py"):
            return None
        best = None
        for fi in self._repo.funcs.values():
            if os.path.relpath(fi.path, REPO) == path and fi.node.lineno <= line <= getattr(fi.node, "end_lineno", fi.node.lineno):
                if best is None or fi.node.lineno > best.node.lineno:
                    best = fi
        if best is None:
            return None
        q = ("%s.%s" % (best.cls, best.name)) if best.cls else best.name
        return rename.change_kind(best.node, rename.baseline_func(path, q))

    def _classify_c(self, path, line):
        from . import cfront
        tus = [k for k, v in cfront.TUS.items() if v["path"] == path]
        if not tus:
            return None
        try:
            cur = cfront.functions(cfront.load_tu(tus[0]))
            base = cfront.baseline_functions(tus[0]) or {}
        except AnalysisError:
            return None
        best = None
        for name, d in cur.items():
            if "::" in name or name not in [n for n in cur if "::" in n and n.endswith("::" + name)]:
                lo = d.get("line", 0)
                hi = max([x.get("line", lo) for x in cfront.walk(d)] or [lo])
                if lo <= line <= hi and (best is None or lo > best[1]):
                    best = (name, lo, d)
        if best is None:
            return None
        return cfront.c_change_kind(best[2], base.get(best[0]))

    def obt(self, rule, key, ok, fi, where="", msg="", **kw):
        """a *template* rule instance: it recognises its construct by the shape the reviewed code has today.  When it fails and the
        function it looks at was restructured since the reviewed baseline (statements added, removed, split, merged or re-nested)
        the construct is not recognised and there is no verdict (analysis error); when the function is unchanged or changed only in
        identifiers, constants or operators, the failing instance is a violation.  fi: FuncInfo or list of FuncInfo the rule reads."""
        if ok:
            return self.ob(rule, key, True, where or (fi[0] if isinstance(fi, (list, tuple)) else fi).where(), msg, **kw)
        from . import rename
        fis = list(fi) if isinstance(fi, (list, tuple)) else [fi]
        kinds = []
        for f in fis:
            rel = os.path.relpath(f.path, REPO)
            q = ("%s.%s" % (f.cls, f.name)) if f.cls else f.name
            kinds.append(rename.change_kind(f.node, rename.baseline_func(rel, q)))
        w = where or fis[0].where()
        if "restructured" in kinds:
            return self.ob(rule, key, None, w, msg + " [%s was restructured since the reviewed baseline: construct not recognised]" % ", ".join(f.name for f in fis), **kw)
        return self.ob(rule, key, False, w, msg, **kw)

    def observe(self, rule, where, msg):
        self.observations.append({"rule": rule, "where": where, "msg": msg})

    def assume(self, text):
        if text not in self.assumptions:
            self.assumptions.append(text)

    # -- finishing ------------------------------------------------------
    def _churn_gate(self, open_keys, fixed_rules=()):
        """A negative verdict is trusted only where the judged file is still close to the reviewed baseline.  When more than
        VCHECK_CHURN (default 30) normalised statements / code lines of the file named by an instance's `where` differ from
        /verif/baseline, the instance is reported as not recognised (exit 2: "this file was rewritten, re-review the rule
        against it") instead of as a violation.  Passing instances are not affected; known findings are not affected.
        Instances that once found a defect which was confirmed against the real code and repaired (the `fixed` entries of
        known_findings.json: same rule, same function / entry point = first `::` component of the key) are not gated either:
        if such an instance fails again the violation is reported whatever else changed in the file (the whole fix being
        reverted is itself a large change: revert-ffe3f08 is 33 statements)."""
        try:
            limit = int(os.environ.get("VCHECK_CHURN", "30"))
        except ValueError:
            limit = 30
        if limit <= 0:
            return
        keep = []
        for o in self.obl:
            if o["ok"] or (o["rule"], o["key"]) in open_keys or _matches_fixed(o, fixed_rules):
                keep.append(o)
                continue
            path = str(o.get("where") or "").split(":")[0]
            n = file_churn(path)
            if n is not None and n > limit:
                o2 = dict(o)
                o2["msg"] = o["msg"] + " [%s differs from the reviewed baseline in %d statements/lines (limit %d): a negative verdict is not given on a rewritten file]" % (path, n, limit)
                self.unrecognised.append(o2)
            else:
                keep.append(o)
        self.obl = keep

    def finish(self, write_evidence=True):
        known = load_known()
        open_k = [k for k in known["open"] if k.get("property") == self.pid]
        self._churn_gate({(k.get("rule"), k.get("key")) for k in open_k},
                         [(k.get("rule"), k.get("key") or "") for k in known.get("fixed", []) if k.get("property") == self.pid and k.get("rule")])
        fails = [o for o in self.obl if not o["ok"]]
        if self.only is not None:
            fails = [o for o in fails if (o["rule"], o["key"]) == tuple(self.only)]
        n_obl = len(self.obl)
        open_keys = {(k.get("rule"), k.get("key")) for k in open_k}
        real_fail = [o for o in self.obl if not o["ok"] and (o["rule"], o["key"]) not in open_keys]
        if self.only is not None:
            real_fail = [o for o in real_fail if (o["rule"], o["key"]) == tuple(self.only)]
        if self.unrecognised and not real_fail:
            u = self.unrecognised
            raise AnalysisError("%s: %d rule instance(s) could not recognise the construct they are about (no verdict): %s"
                                % (self.pid, len(u), "; ".join("%s %s [%s] %s" % (x["rule"], x["key"], x["where"], x["msg"][:120] + (" ..." + x["msg"][-260:] if len(x["msg"]) > 380 else x["msg"][120:])) for x in u[:4])))
        if self.only is None and n_obl + len(self.unrecognised) < self.floor:
            raise AnalysisError("%s: only %d rule instances evaluated, hand-confirmed floor is %d"
                                % (self.pid, n_obl, self.floor))
        viol = []
        knownhits = []
        for o in fails:
            hit = None
            for k in open_k:
                if k.get("rule") == o["rule"] and k.get("key") == o["key"]:
                    hit = k
                    break
            if hit is not None:
                knownhits.append((o, hit))
            else:
                viol.append(o)
        # dedupe by (rule,key)
        seen = set()
        uviol = []
        for o in viol:
            kk = (o["rule"], o["key"])
            if kk in seen:
                continue
            seen.add(kk)
            uviol.append(o)
        seenk = set()
        for o, hit in knownhits:
            kk = (o["rule"], o["key"])
            if kk in seenk:
                continue
            seenk.add(kk)
            print("KNOWN-FINDING: property=%s rule=%s %s -- %s" % (self.pid, o["rule"], o["where"], hit.get("what", o["msg"])))
        vdir = os.path.join(VERIF, "evidence", "violations")
        for i, o in enumerate(uviol):
            os.makedirs(vdir, exist_ok=True)
            h = hashlib.sha1(("%s|%s" % (o["rule"], o["key"])).encode()).hexdigest()[:10]
            rp = os.path.join(vdir, "%s-%s-%s.json" % (self.pid, o["rule"].replace("/", "_"), h))
            with open(rp, "w") as f:
                json.dump({"property": self.pid, "rule": o["rule"], "key": o["key"], "where": o["where"],
                           "msg": o["msg"], "detail": o.get("detail")}, f, indent=1, default=str)
            print("VIOLATION property=%s replay=%s" % (self.pid, rp))
            print("  %s rule=%s instance=%s -- %s" % (o["where"], o["rule"], o["key"], o["msg"]))
        wall = time.time() - self.t0
        if write_evidence and self.only is None:
            self._write_evidence(n_obl, len(fails), len(uviol), len(seenk), wall)
        print("%s tier=%s: %d rule instances evaluated, %d passed, %d known finding(s), %d violation(s); %d units analysed; %.2fs"
              % (self.pid, self.tier, n_obl, n_obl - len(fails), len(seenk), len(uviol), len(self.analysed), wall))
        return 1 if uviol else 0

    def _write_evidence(self, n_obl, n_fail, n_viol, n_known, wall):
        distinct = len({(o["rule"], o["key"]) for o in self.obl if o["nontrivial"]})
        rules = {}
        for o in self.obl:
            r = rules.setdefault(o["rule"], [0, 0])
            r[0] += 1
            r[1] += 1 if o["ok"] else 0
        samples = []
        seenr = set()
        for o in self.obl:
            if o["rule"] in seenr:
                continue
            seenr.add(o["rule"])
            samples.append({"rule": o["rule"], "instance": o["key"], "where": o["where"],
                            "result": "pass" if o["ok"] else "FAIL", "what": o["msg"][:300]})
        ev = {
            "property_id": self.pid,
            "tier": self.tier,
            "seed": int(self.seed),
            "level": "other",
            "coverage": {
                "explanation": self.explanation or "static rule checking over the parsed source",
                "evaluations": n_obl,
                "distinct_nontrivial": distinct,
                "rule": "one evaluation = one rule instance (rule id x construct) decided on the parsed source of "
                        "/repo; distinct = distinct (rule, construct key); non-trivial = the instance had at least "
                        "one analysed site/path (vacuous matches are counted as trivial)",
                "obligations": n_obl,
                "discharged": n_obl - n_fail,
                "known_findings_hit": n_known,
                "rules": {k: {"instances": v[0], "passed": v[1]} for k, v in sorted(rules.items())},
                "units_analysed": self.analysed[:400],
                "n_units_analysed": len(self.analysed),
                "samples": samples[:60],
                "observations_out_of_scope": self.observations[:60],
                "trusted_base": self.trusted,
                "exhaustive": False,
            },
            "assumptions": self.assumptions,
            "wall_s": round(wall, 3),
            "violations": n_viol,
        }
        ev["coverage"].update(self.notes)
        os.makedirs(os.path.join(VERIF, "evidence"), exist_ok=True)
        with open(os.path.join(VERIF, "evidence", "%s.json" % self.pid), "w") as f:
            json.dump(ev, f, indent=1, default=str)
            f.write("\n")
