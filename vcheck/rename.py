"""Undo pure renames of local variables before the rules look at a function.

Several rules describe a construct through the names the repository uses for
its locals today.  A maintainer renaming a local (or a parameter of a private
helper) changes no behaviour, so such a rename must not change a verdict.
This module aligns each function of the current tree with the same function in
the committed baseline copy (`/verif/baseline/`, the sources as of the last
reviewed /repo commit) and, where a statement has the same shape in both
versions, learns which current name stands for which baseline name.  The
bijection (conflicting pairs are dropped) is applied to the current AST, so the
rules see the names they were written against.  Nothing else is taken from the
baseline: a statement that has no counterpart keeps its names and is judged as
it stands; no rule can fire *because of* the baseline.
"""
import ast
import copy
import difflib
import os

from .core import VERIF

BASELINE = os.path.join(VERIF, "baseline")


class _Shape(ast.NodeTransformer):
    """blank the identifiers of locals only: names of functions, modules and globals are part of the shape"""

    def __init__(self, local_names):
        self.loc = local_names

    def visit_Name(self, n):
        if n.id in self.loc:
            return ast.copy_location(ast.Name(id="_", ctx=n.ctx), n)
        return n

    def visit_arg(self, n):
        return ast.copy_location(ast.arg(arg="_", annotation=None), n)


def _shape(node, local_names):
    try:
        return ast.dump(_Shape(local_names).visit(copy.deepcopy(node)), annotate_fields=False)
    except Exception:
        return ast.dump(node, annotate_fields=False)


def _names_local(node, local_names):
    """identifiers of locals in a deterministic traversal order (the positions _shape blanks)"""
    out = []
    for x in ast.walk(node):
        if isinstance(x, ast.Name) and x.id in local_names:
            out.append(x.id)
        elif isinstance(x, ast.arg):
            out.append(x.arg)
    return out


def _interfere(fn, a, b):
    """are the locals a and b of fn ever live at the same time (so that giving them one name would change the meaning)?"""
    try:
        from .cfg import CFG
        cfg = CFG(fn)
        view = cfg.view()
        live_in, live_out = view.liveness()
        for n in view.nodes():
            d, u = cfg.defs_uses(n)
            lo = live_out.get(n.id, set())
            if a in lo and b in lo:
                return True
            if (a in d and b in lo) or (b in d and a in lo):
                # defining one while the other is still needed afterwards
                if not (a in d and b in d):
                    return True
        return False
    except Exception:
        return True


def _flat_stmts(fn):
    """simple statements and compound-statement heads in source order (nested defs excluded)"""
    out = []

    def walk(stmts):
        for s in stmts:
            if isinstance(s, (ast.FunctionDef, ast.AsyncFunctionDef, ast.ClassDef)):
                continue
            if isinstance(s, (ast.If, ast.While)):
                out.append(("head", s.test))
                walk(s.body)
                walk(s.orelse)
            elif isinstance(s, ast.For):
                out.append(("head", ast.Tuple(elts=[s.target, s.iter], ctx=ast.Load())))
                walk(s.body)
                walk(s.orelse)
            elif isinstance(s, ast.With):
                for it in s.items:
                    out.append(("head", it.context_expr))
                walk(s.body)
            elif isinstance(s, ast.Try):
                walk(s.body)
                for h in s.handlers:
                    walk(h.body)
                walk(s.orelse)
                walk(s.finalbody)
            elif isinstance(s, ast.Expr) and isinstance(s.value, ast.Constant) and isinstance(s.value.value, str):
                continue                    # docstrings and string comments
            else:
                out.append(("stmt", s))
    walk(fn.body)
    return out


def _names_in_order(node):
    """Name/arg identifiers in a deterministic traversal order"""
    out = []
    for x in ast.walk(node):
        if isinstance(x, ast.Name):
            out.append(x.id)
        elif isinstance(x, ast.arg):
            out.append(x.arg)
    return out


def _locals_of(fn):
    loc = set()
    a = fn.args
    for x in a.posonlyargs + a.args + a.kwonlyargs:
        loc.add(x.arg)
    if a.vararg:
        loc.add(a.vararg.arg)
    if a.kwarg:
        loc.add(a.kwarg.arg)
    for x in ast.walk(fn):
        if isinstance(x, ast.Name) and isinstance(x.ctx, (ast.Store, ast.Del)):
            loc.add(x.id)
        elif isinstance(x, ast.ExceptHandler) and x.name:
            loc.add(x.name)
    return loc


def mapping(cur_fn, base_fn):
    """{current local name -> baseline local name} learnt from statements of identical shape"""
    cs, bs = _flat_stmts(cur_fn), _flat_stmts(base_fn)
    cl0, bl0 = _locals_of(cur_fn), _locals_of(base_fn)
    csh = [_shape(n, cl0) for _, n in cs]
    bsh = [_shape(n, bl0) for _, n in bs]
    sm = difflib.SequenceMatcher(a=csh, b=bsh, autojunk=False)
    votes = {}
    for blk in sm.get_matching_blocks():
        for k in range(blk.size):
            cn, bn = _names_local(cs[blk.a + k][1], cl0), _names_local(bs[blk.b + k][1], bl0)
            if len(cn) != len(bn):
                continue
            for x, y in zip(cn, bn):
                votes.setdefault(x, {}).setdefault(y, 0)
                votes[x][y] += 1
    # the parameter lists, position by position (same arity only)
    ca = [x.arg for x in cur_fn.args.posonlyargs + cur_fn.args.args]
    ba = [x.arg for x in base_fn.args.posonlyargs + base_fn.args.args]
    if len(ca) == len(ba):
        for x, y in zip(ca, ba):
            votes.setdefault(x, {}).setdefault(y, 0)
            votes[x][y] += 2
    cl, bl = _locals_of(cur_fn), _locals_of(base_fn)
    m = {}
    for x, ys in votes.items():
        if x not in cl:
            continue
        best = sorted(ys.items(), key=lambda kv: -kv[1])
        if len(best) > 1 and best[0][1] == best[1][1]:
            continue
        y = best[0][0]
        if y != x and y in bl:
            m[x] = y
    # keep it a bijection on the locals: no two current names to one baseline name, and never onto a current local that stays
    inv = {}
    for x, y in m.items():
        inv.setdefault(y, []).append(x)
    for y, xs in inv.items():
        # several current names for one baseline name are fine when the baseline re-used one temporary where the current code has
        # two -- but only if the names being merged are never live at the same time; mapping onto a name that stays in use
        # unrenamed in the current function is allowed on the same condition (otherwise the rename would capture it)
        group = list(xs) + ([y] if (y in cl and y not in m) else [])
        bad = False
        for i_ in range(len(group)):
            for j_ in range(i_ + 1, len(group)):
                if _interfere(cur_fn, group[i_], group[j_]):
                    bad = True
        if bad or (y in cl and y not in m and not votes.get(y, {}).get(y, 0)):
            for x in xs:
                m.pop(x, None)
    return m


class _Apply(ast.NodeTransformer):
    def __init__(self, m, top):
        self.m = m
        self.top = top

    def visit_FunctionDef(self, n):
        if n is not self.top:
            return n            # nested definitions keep their own scope
        self.generic_visit(n)
        return n

    def visit_Lambda(self, n):
        return n

    def visit_Name(self, n):
        if n.id in self.m:
            n.id = self.m[n.id]
        return n

    def visit_arg(self, n):
        if n.arg in self.m:
            n.arg = self.m[n.arg]
        return n

    def visit_ExceptHandler(self, n):
        if n.name in self.m:
            n.name = self.m[n.name]
        self.generic_visit(n)
        return n


_base_cache = {}


def _baseline_funcs(relpath):
    if relpath in _base_cache:
        return _base_cache[relpath]
    p = os.path.join(BASELINE, relpath)
    out = {}
    if os.path.exists(p):
        try:
            tree = ast.parse(open(p, encoding="utf-8", errors="replace").read())
            for node in tree.body:
                if isinstance(node, ast.FunctionDef):
                    out[node.name] = node
                elif isinstance(node, ast.ClassDef):
                    for sub in node.body:
                        if isinstance(sub, ast.FunctionDef):
                            out[node.name + "." + sub.name] = sub
        except SyntaxError:
            pass
    _base_cache[relpath] = out
    return out


def undo_renames(tree, relpath, log=None):
    """rename locals of every top-level function / method of `tree` back to the baseline's names (in place)"""
    base = _baseline_funcs(relpath)
    if not base:
        return 0
    n = 0
    for node in tree.body:
        cands = []
        if isinstance(node, ast.FunctionDef):
            cands.append((node.name, node))
        elif isinstance(node, ast.ClassDef):
            for sub in node.body:
                if isinstance(sub, ast.FunctionDef):
                    cands.append((node.name + "." + sub.name, sub))
        for q, fn in cands:
            b = base.get(q)
            if b is None:
                continue
            m = mapping(fn, b)
            # keyword arguments at call sites use parameter names: do not rename parameters of functions with keyword callers
            if m:
                params = {x.arg for x in fn.args.posonlyargs + fn.args.args + fn.args.kwonlyargs}
                if not q.split(".")[-1].startswith("_"):
                    for p_ in list(m):
                        if p_ in params:
                            m.pop(p_)
            if m:
                _Apply(m, fn).visit(fn)
                n += len(m)
                if log is not None:
                    log.append((relpath, q, dict(m)))
                # callers of a private helper name its parameters in keyword arguments
                pm = {k: v for k, v in m.items() if k in {x.arg for x in fn.args.posonlyargs + fn.args.args + fn.args.kwonlyargs}}
                if pm and q.split(".")[-1].startswith("_"):
                    short = q.split(".")[-1]
                    for c in ast.walk(tree):
                        if isinstance(c, ast.Call):
                            f = c.func
                            nm = f.id if isinstance(f, ast.Name) else (f.attr if isinstance(f, ast.Attribute) else None)
                            if nm == short:
                                for k in c.keywords:
                                    if k.arg in pm:
                                        k.arg = pm[k.arg]
    return n


# --------------------------------------------------------------------------
# how did a function change relative to the reviewed baseline?
# --------------------------------------------------------------------------
class _Skeleton(ast.NodeTransformer):
    """node types and arity only: identifiers, constants, operators, attribute and keyword names are blanked"""

    def visit_Name(self, n):
        return ast.Name(id="_", ctx=ast.Load())

    def visit_arg(self, n):
        return ast.arg(arg="_", annotation=None)

    def visit_Constant(self, n):
        return ast.Constant(value=0)

    def visit_Attribute(self, n):
        self.generic_visit(n)
        return ast.Attribute(value=n.value, attr="_", ctx=ast.Load())

    def visit_BinOp(self, n):
        self.generic_visit(n)
        return ast.BinOp(left=n.left, op=ast.Add(), right=n.right)

    def visit_UnaryOp(self, n):
        self.generic_visit(n)
        return ast.UnaryOp(op=ast.Not(), operand=n.operand)

    def visit_BoolOp(self, n):
        self.generic_visit(n)
        return ast.BoolOp(op=ast.And(), values=n.values)

    def visit_Compare(self, n):
        self.generic_visit(n)
        return ast.Compare(left=n.left, ops=[ast.Eq() for _ in n.ops], comparators=n.comparators)

    def visit_AugAssign(self, n):
        self.generic_visit(n)
        return ast.AugAssign(target=n.target, op=ast.Add(), value=n.value)

    def visit_keyword(self, n):
        self.generic_visit(n)
        return ast.keyword(arg="_" if n.arg else None, value=n.value)

    def visit_Subscript(self, n):
        self.generic_visit(n)
        return ast.Subscript(value=n.value, slice=n.slice, ctx=ast.Load())


def _skeleton(node):
    try:
        return ast.dump(_Skeleton().visit(copy.deepcopy(node)), annotate_fields=False)
    except Exception:
        return ast.dump(node, annotate_fields=False)


def _nesting(fn):
    """sequence of (depth, kind) of all statements: the control structure"""
    out = []

    def walk(stmts, d):
        for s in stmts:
            if isinstance(s, (ast.FunctionDef, ast.AsyncFunctionDef, ast.ClassDef)):
                continue
            if isinstance(s, ast.Expr) and isinstance(s.value, ast.Constant) and isinstance(s.value.value, str):
                continue
            out.append((d, type(s).__name__))
            for f in ("body", "orelse", "finalbody"):
                if isinstance(getattr(s, f, None), list):
                    walk(getattr(s, f), d + 1)
            for h in getattr(s, "handlers", []) or []:
                walk(h.body, d + 1)
    walk(fn.body, 0)
    return out


def change_kind(cur_fn, base_fn):
    """'same' (identical up to renames/comments), 'leaf' (same statements and control structure; only identifiers, constants,
    operators, attribute or keyword names differ somewhere) or 'restructured' (statements added, removed, split, merged or
    re-nested)"""
    if base_fn is None:
        return "restructured"
    if _nesting(cur_fn) != _nesting(base_fn):
        return "restructured"
    cs, bs = _flat_stmts(cur_fn), _flat_stmts(base_fn)
    if len(cs) != len(bs):
        return "restructured"
    leaf = False
    stmt_level = os.environ.get("VCHECK_STMT_LEVEL", "1") == "1"
    for (k1, a), (k2, b) in zip(cs, bs):
        if k1 != k2:
            return "restructured"
        if _skeleton(a) != _skeleton(b):
            if not stmt_level:
                return "restructured"
            leaf = True
        if ast.dump(a, annotate_fields=False) != ast.dump(b, annotate_fields=False):
            leaf = True
    return "leaf" if leaf else "same"


def baseline_func(relpath, qual):
    return _baseline_funcs(relpath).get(qual)
