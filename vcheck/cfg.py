"""Statement-level control-flow graph for Python functions and the classic
dataflow analyses on it (E1), with flag / stable-predicate specialisation (E1p).

Nodes are small objects; the graph itself is a networkx DiGraph so dominators
and reachability come from the library.
"""
import ast
import itertools

import networkx as nx

from .core import AnalysisError, norm, walk_no_nested

SIMPLE = (ast.Assign, ast.AugAssign, ast.AnnAssign, ast.Expr, ast.Pass, ast.Delete, ast.Import,
          ast.ImportFrom, ast.Global, ast.Nonlocal, ast.Assert)


class Node:
    __slots__ = ("id", "kind", "ast", "label")

    def __init__(self, i, kind, a=None, label=""):
        self.id = i
        self.kind = kind      # entry exit raise_exit stmt branch loop handler return raise with def try
        self.ast = a
        self.label = label

    @property
    def lineno(self):
        return getattr(self.ast, "lineno", 0)

    def text(self):
        a = self.ast
        if a is None:
            return self.kind
        if self.kind == "branch":
            return "if " + norm(a.test)
        if self.kind == "loop":
            if isinstance(a, ast.While):
                return "while " + norm(a.test)
            return "for %s in %s" % (norm(a.target), norm(a.iter))
        if self.kind == "with":
            return "with " + ", ".join(norm(i) for i in a.items)
        if self.kind == "handler":
            return "except " + (norm(a.type) if a.type is not None else "")
        if self.kind == "def":
            return "def " + a.name
        return norm(a)

    def __repr__(self):
        return "<%s#%d L%s %s>" % (self.kind, self.id, self.lineno, self.text()[:50])


class CFG:
    def __init__(self, fn):
        self.fn = fn
        self.g = nx.DiGraph()
        self.nodes = []
        self._ids = itertools.count()
        self.entry = self._new("entry")
        self.exit = self._new("exit")
        self.raise_exit = self._new("raise_exit")
        self._loops = []
        self._trys = []
        ends = self._body(fn.body, [(self.entry, None)])
        for n, l in ends:
            self._edge(n, self.exit, l or "fall")
        self._du = {}

    # -- construction -----------------------------------------------------
    def _new(self, kind, a=None, label=""):
        n = Node(next(self._ids), kind, a, label)
        self.nodes.append(n)
        self.g.add_node(n.id, node=n)
        return n

    def _edge(self, a, b, l=None):
        if self.g.has_edge(a.id, b.id):
            old = self.g[a.id][b.id]["labels"]
            old.add(l)
        else:
            self.g.add_edge(a.id, b.id, labels={l})

    def _connect(self, preds, n):
        for p, l in preds:
            self._edge(p, n, l)

    def _body(self, stmts, preds):
        for st in stmts:
            preds = self._stmt(st, preds)
        return preds

    def _raise_to(self, n):
        if self._trys:
            for h in self._trys[-1]:
                self._edge(n, h, "exc")
        else:
            self._edge(n, self.raise_exit, "raise")

    def _stmt(self, st, preds):
        if isinstance(st, ast.If):
            n = self._new("branch", st)
            self._connect(preds, n)
            t = self._body(st.body, [(n, "T")])
            f = self._body(st.orelse, [(n, "F")]) if st.orelse else [(n, "F")]
            return t + f
        if isinstance(st, (ast.For, ast.AsyncFor)):
            h = self._new("loop", st)
            self._connect(preds, h)
            self._loops.append((h, []))
            b = self._body(st.body, [(h, "T")])
            for p, l in b:
                self._edge(p, h, "back")
            _, breaks = self._loops.pop()
            e = self._body(st.orelse, [(h, "F")]) if st.orelse else [(h, "F")]
            return e + breaks
        if isinstance(st, ast.While):
            h = self._new("loop", st)
            self._connect(preds, h)
            self._loops.append((h, []))
            b = self._body(st.body, [(h, "T")])
            for p, l in b:
                self._edge(p, h, "back")
            _, breaks = self._loops.pop()
            const_true = isinstance(st.test, ast.Constant) and bool(st.test.value)
            if const_true:
                e = []
            else:
                e = self._body(st.orelse, [(h, "F")]) if st.orelse else [(h, "F")]
            return e + breaks
        if isinstance(st, ast.Break):
            n = self._new("stmt", st)
            self._connect(preds, n)
            if not self._loops:
                raise AnalysisError("break outside loop")
            self._loops[-1][1].append((n, None))
            return []
        if isinstance(st, ast.Continue):
            n = self._new("stmt", st)
            self._connect(preds, n)
            self._edge(n, self._loops[-1][0], "back")
            return []
        if isinstance(st, ast.Return):
            n = self._new("return", st)
            self._connect(preds, n)
            self._edge(n, self.exit, "return")
            return []
        if isinstance(st, ast.Raise):
            n = self._new("raise", st)
            self._connect(preds, n)
            self._raise_to(n)
            return []
        if isinstance(st, (ast.With, ast.AsyncWith)):
            n = self._new("with", st)
            self._connect(preds, n)
            return self._body(st.body, [(n, None)])
        if isinstance(st, ast.Try):
            hs = [self._new("handler", h) for h in st.handlers]
            start = self._new("try", None)
            self._connect(preds, start)
            self._trys.append(hs)
            for h in hs:
                self._edge(start, h, "exc")
            cur = [(start, None)]
            for b in st.body:
                cur = self._stmt(b, cur)
                for p, _ in cur:
                    for h in hs:
                        self._edge(p, h, "exc")
            self._trys.pop()
            out = self._body(st.orelse, cur) if st.orelse else cur
            for h, hn in zip(st.handlers, hs):
                out = out + self._body(h.body, [(hn, None)])
            if st.finalbody:
                out = self._body(st.finalbody, out)
            return out
        if isinstance(st, (ast.FunctionDef, ast.ClassDef, ast.AsyncFunctionDef)):
            n = self._new("def", st)
            self._connect(preds, n)
            return [(n, None)]
        if isinstance(st, SIMPLE):
            n = self._new("stmt", st)
            self._connect(preds, n)
            return [(n, None)]
        raise AnalysisError("unhandled statement kind %s at line %s" % (type(st).__name__, getattr(st, "lineno", "?")))

    # -- basic queries ----------------------------------------------------
    def node(self, i):
        return self.g.nodes[i]["node"]

    def succ(self, n):
        return [(self.node(j), self.g[n.id][j]["labels"]) for j in self.g.successors(n.id)]

    def pred(self, n):
        return [self.node(j) for j in self.g.predecessors(n.id)]

    # -- defs / uses ------------------------------------------------------
    def defs_uses(self, n):
        if n.id in self._du:
            return self._du[n.id]
        d, u = _defs_uses(n)
        self._du[n.id] = (d, u)
        return d, u

    # -- specialisation ---------------------------------------------------
    def specialise(self, flags=None, assume=None):
        """return a view of the graph in which branch edges contradicted by the
        literal flag values (`flags`: name -> python value) or by the assumed
        truth of normalised predicates (`assume`: text -> bool) are removed."""
        flags = flags or {}
        assume = assume or {}
        g = nx.DiGraph()
        g.add_nodes_from(self.g.nodes(data=True))
        for a, b, data in self.g.edges(data=True):
            n = self.node(a)
            labels = set(data["labels"])
            if n.kind == "branch" or (n.kind == "loop" and isinstance(n.ast, ast.While)):
                v = eval_test(n.ast.test, flags, assume)
                if v is True:
                    labels.discard("F")
                elif v is False:
                    labels.discard("T")
                    if n.kind == "loop":
                        pass
                if not labels:
                    continue
            g.add_edge(a, b, labels=labels)
        return View(self, g)

    def view(self):
        return View(self, self.g)


class View:
    """a (possibly specialised) graph over the nodes of a CFG"""

    def __init__(self, cfg, g):
        self.cfg = cfg
        self.g = g
        self.reach = set(nx.descendants(g, cfg.entry.id)) | {cfg.entry.id}
        self._idom = None
        self._ipdom = None

    def reachable(self, n):
        return n.id in self.reach

    def nodes(self):
        return [n for n in self.cfg.nodes if n.id in self.reach]

    def succ(self, n):
        return [self.cfg.node(j) for j in self.g.successors(n.id) if j in self.reach]

    def pred(self, n):
        return [self.cfg.node(j) for j in self.g.predecessors(n.id) if j in self.reach]

    # dominance ----------------------------------------------------------
    def idom(self):
        if self._idom is None:
            sub = self.g.subgraph(self.reach)
            self._idom = nx.immediate_dominators(sub, self.cfg.entry.id)
        return self._idom

    def dominators(self, n):
        idom = self.idom()
        out = []
        i = n.id
        while i in idom and idom[i] != i:
            i = idom[i]
            out.append(self.cfg.node(i))
        return out

    def dominates(self, a, b):
        return a.id == b.id or any(d.id == a.id for d in self.dominators(b))

    def postdominates(self, a, b, exits=None):
        """a post-dominates b w.r.t. normal exit (raise paths ignored unless in exits)"""
        sub = self.g.subgraph(self.reach).reverse(copy=True)
        root = -1
        sub.add_node(root)
        for e in (exits or [self.cfg.exit]):
            if e.id in sub:
                sub.add_edge(root, e.id)
        idom = nx.immediate_dominators(sub, root)
        i = b.id
        if i not in idom:
            return False
        while idom[i] != i:
            if i == a.id:
                return True
            i = idom[i]
        return i == a.id

    def reaches(self, a, b, avoiding=()):
        """is there a path a ->+ b that avoids the given nodes"""
        avoid = {x.id for x in avoiding}
        seen = set()
        todo = [j for j in self.g.successors(a.id)]
        while todo:
            i = todo.pop()
            if i in seen or i in avoid or i not in self.reach:
                continue
            if i == b.id:
                return True
            seen.add(i)
            todo.extend(self.g.successors(i))
        return False

    def path_exists_entry_to(self, target, avoiding=()):
        avoid = {x.id for x in avoiding}
        if self.cfg.entry.id in avoid:
            return False
        seen = set()
        todo = [self.cfg.entry.id]
        while todo:
            i = todo.pop()
            if i in seen or i in avoid or i not in self.reach:
                continue
            if i == target.id:
                return True
            seen.add(i)
            todo.extend(self.g.successors(i))
        return False

    def find_path(self, a, b, avoiding=()):
        """one path (list of nodes) from a to b avoiding nodes, or None"""
        avoid = {x.id for x in avoiding}
        sub = self.g.subgraph([i for i in self.reach if i not in avoid or i in (a.id, b.id)])
        try:
            p = nx.shortest_path(sub, a.id, b.id)
        except (nx.NetworkXNoPath, nx.NodeNotFound):
            return None
        return [self.cfg.node(i) for i in p]

    # control dependence (direct): branch nodes on which n depends ---------
    def controlling_branches(self, n):
        """(branch node, label) pairs such that n is reachable only through that
        labelled edge of the branch, for all dominating branches"""
        out = []
        for d in self.dominators(n):
            if d.kind not in ("branch", "loop"):
                continue
            labs = set()
            for j in self.g.successors(d.id):
                if j not in self.reach:
                    continue
                elabs = self.g[d.id][j]["labels"]
                # does n stay reachable from j without passing d again?
                if j == n.id or self._reach_from(j, n.id, d.id):
                    labs |= elabs
            labs.discard("back")
            if len(labs) == 1:
                out.append((d, next(iter(labs))))
        return out

    def _reach_from(self, start, target, avoid):
        seen = set()
        todo = [start]
        while todo:
            i = todo.pop()
            if i in seen or i == avoid or i not in self.reach:
                continue
            if i == target:
                return True
            seen.add(i)
            todo.extend(self.g.successors(i))
        return False

    # dataflow -----------------------------------------------------------
    def reaching_defs(self):
        """IN[n] : dict var -> set of defining node ids (entry id for params)"""
        cfg = self.cfg
        params = cfg.params if hasattr(cfg, "params") else func_params(cfg.fn)
        IN = {i: {} for i in self.reach}
        OUT = {i: {} for i in self.reach}
        order = [n.id for n in cfg.nodes if n.id in self.reach]
        init = {p: {cfg.entry.id} for p in params}
        changed = True
        while changed:
            changed = False
            for i in order:
                n = cfg.node(i)
                if i == cfg.entry.id:
                    inn = {k: set(v) for k, v in init.items()}
                else:
                    inn = {}
                    for p in self.g.predecessors(i):
                        if p not in self.reach:
                            continue
                        for k, v in OUT[p].items():
                            inn.setdefault(k, set()).update(v)
                d, u = cfg.defs_uses(n)
                out = {k: set(v) for k, v in inn.items()}
                for v in d:
                    out[v] = {i}
                if inn != IN[i] or out != OUT[i]:
                    IN[i] = inn
                    OUT[i] = out
                    changed = True
        return IN, OUT

    def liveness(self):
        cfg = self.cfg
        live_in = {i: set() for i in self.reach}
        live_out = {i: set() for i in self.reach}
        order = [n.id for n in reversed(cfg.nodes) if n.id in self.reach]
        changed = True
        while changed:
            changed = False
            for i in order:
                n = cfg.node(i)
                out = set()
                for j in self.g.successors(i):
                    if j in self.reach:
                        out |= live_in[j]
                d, u = cfg.defs_uses(n)
                inn = set(u) | (out - set(d))
                if out != live_out[i] or inn != live_in[i]:
                    live_out[i] = out
                    live_in[i] = inn
                    changed = True
        return live_in, live_out

    def definitely_assigned(self):
        """IN[n]: set of names assigned on every path from entry"""
        cfg = self.cfg
        params = set(func_params(cfg.fn))
        allv = set(params)
        for n in self.nodes():
            allv |= set(cfg.defs_uses(n)[0])
        IN = {i: set(allv) for i in self.reach}
        OUT = {i: set(allv) for i in self.reach}
        order = [n.id for n in cfg.nodes if n.id in self.reach]
        changed = True
        while changed:
            changed = False
            for i in order:
                n = cfg.node(i)
                if i == cfg.entry.id:
                    inn = set(params)
                else:
                    ps = [p for p in self.g.predecessors(i) if p in self.reach]
                    inn = set(allv)
                    for p in ps:
                        inn &= OUT[p]
                    if not ps:
                        inn = set(allv)
                out = inn | set(cfg.defs_uses(n)[0])
                if inn != IN[i] or out != OUT[i]:
                    IN[i] = inn
                    OUT[i] = out
                    changed = True
        return IN


def func_params(fn):
    a = fn.args
    ps = [x.arg for x in a.posonlyargs + a.args + a.kwonlyargs]
    if a.vararg:
        ps.append(a.vararg.arg)
    if a.kwarg:
        ps.append(a.kwarg.arg)
    return ps


def _targets(t, out):
    if isinstance(t, ast.Name):
        out.append(t.id)
    elif isinstance(t, (ast.Tuple, ast.List)):
        for e in t.elts:
            _targets(e, out)
    elif isinstance(t, ast.Starred):
        _targets(t.value, out)


def _uses(e, u):
    if e is None:
        return
    for x in ast.walk(e):
        if isinstance(x, ast.Name) and isinstance(x.ctx, ast.Load):
            u.append(x.id)


def _defs_uses(n):
    a = n.ast
    d, u = [], []
    if a is None:
        return d, u
    if n.kind == "branch":
        _uses(a.test, u)
    elif n.kind == "loop":
        if isinstance(a, ast.While):
            _uses(a.test, u)
        else:
            _uses(a.iter, u)
            _targets(a.target, d)
            if not isinstance(a.target, (ast.Name, ast.Tuple, ast.List)):
                _uses(a.target, u)
    elif n.kind == "handler":
        if a.name:
            d.append(a.name)
    elif n.kind == "with":
        for it in a.items:
            _uses(it.context_expr, u)
            if it.optional_vars is not None:
                _targets(it.optional_vars, d)
    elif n.kind == "def":
        d.append(a.name)
        for x in ast.walk(a):
            if isinstance(x, ast.Name) and isinstance(x.ctx, ast.Load):
                u.append(x.id)
    elif isinstance(a, ast.Assign):
        _uses(a.value, u)
        for t in a.targets:
            _targets(t, d)
            if not isinstance(t, ast.Name):
                for x in ast.walk(t):
                    if isinstance(x, ast.Name) and isinstance(x.ctx, ast.Load):
                        u.append(x.id)
    elif isinstance(a, ast.AugAssign):
        _uses(a.value, u)
        if isinstance(a.target, ast.Name):
            u.append(a.target.id)
            d.append(a.target.id)
        else:
            _uses(a.target, u)
    elif isinstance(a, ast.AnnAssign):
        _uses(a.value, u)
        if a.value is not None:
            _targets(a.target, d)
    elif isinstance(a, (ast.Import, ast.ImportFrom)):
        for al in a.names:
            d.append((al.asname or al.name).split(".")[0])
    elif isinstance(a, ast.Delete):
        pass
    else:
        _uses(a, u)
    return d, u


# --------------------------------------------------------------------------
# literal evaluation of branch tests under flag values / assumed predicates
# --------------------------------------------------------------------------

class _Unknown:
    def __repr__(self):
        return "UNKNOWN"


UNKNOWN = _Unknown()
NOTNONE = type("NotNone", (), {"__repr__": lambda s: "NOTNONE"})()


def _val(e, flags):
    if isinstance(e, ast.Constant):
        return e.value
    if isinstance(e, ast.Name):
        if e.id in flags:
            return flags[e.id]
        if e.id in ("True", "False", "None"):
            return {"True": True, "False": False, "None": None}[e.id]
        return UNKNOWN
    if isinstance(e, (ast.Tuple, ast.List)):
        vals = [_val(x, flags) for x in e.elts]
        if any(v is UNKNOWN for v in vals):
            return UNKNOWN
        return tuple(vals)
    if isinstance(e, ast.Attribute):
        k = norm(e)
        if k in flags:
            return flags[k]
    return UNKNOWN


def eval_test(t, flags, assume=None):
    """three-valued evaluation: True / False / None (unknown)"""
    assume = assume or {}
    key = norm(t)
    if key in assume:
        return assume[key]
    if isinstance(t, ast.BoolOp):
        vals = [eval_test(v, flags, assume) for v in t.values]
        if isinstance(t.op, ast.And):
            if any(v is False for v in vals):
                return False
            if all(v is True for v in vals):
                return True
            return None
        if any(v is True for v in vals):
            return True
        if all(v is False for v in vals):
            return False
        return None
    if isinstance(t, ast.UnaryOp) and isinstance(t.op, ast.Not):
        v = eval_test(t.operand, flags, assume)
        return None if v is None else (not v)
    if isinstance(t, ast.Compare) and len(t.ops) == 1:
        a = _val(t.left, flags)
        b = _val(t.comparators[0], flags)
        op = t.ops[0]
        if isinstance(op, (ast.Is, ast.IsNot)):
            if a is NOTNONE and b is None or b is NOTNONE and a is None:
                return isinstance(op, ast.IsNot)
            if a is UNKNOWN or b is UNKNOWN or a is NOTNONE or b is NOTNONE:
                return None
            r = (a is b) if (a is None or b is None or isinstance(a, bool)) else (a == b)
            return r if isinstance(op, ast.Is) else (not r)
        if a is UNKNOWN or b is UNKNOWN or a is NOTNONE or b is NOTNONE:
            return None
        try:
            if isinstance(op, ast.Eq):
                return a == b
            if isinstance(op, ast.NotEq):
                return a != b
            if isinstance(op, ast.In):
                return a in b
            if isinstance(op, ast.NotIn):
                return a not in b
            if isinstance(op, ast.Lt):
                return a < b
            if isinstance(op, ast.LtE):
                return a <= b
            if isinstance(op, ast.Gt):
                return a > b
            if isinstance(op, ast.GtE):
                return a >= b
        except TypeError:
            return None
        return None
    v = _val(t, flags)
    if v is UNKNOWN:
        return None
    if v is NOTNONE:
        return None
    return bool(v)


def stable_predicates(cfg, min_occ=2):
    """normalised branch tests that occur >= min_occ times and whose operand
    names are never re-assigned on a node reachable from the first occurrence"""
    occ = {}
    for n in cfg.nodes:
        if n.kind == "branch":
            occ.setdefault(norm(n.ast.test), []).append(n)
    v = cfg.view()
    out = []
    for text, ns in occ.items():
        if len(ns) < min_occ:
            continue
        names = {x.id for x in ast.walk(ns[0].ast.test) if isinstance(x, ast.Name)}
        first = ns[0]
        reach = nx.descendants(cfg.g, first.id)
        ok = True
        for i in reach:
            d, _ = cfg.defs_uses(cfg.node(i))
            if names & set(d):
                ok = False
                break
        if ok:
            out.append(text)
    return out


def stmts_calls(node):
    """ast.Call nodes inside a CFG node's own expression(s) (not nested bodies)"""
    a = node.ast
    if a is None:
        return []
    roots = []
    if node.kind == "branch":
        roots = [a.test]
    elif node.kind == "loop":
        roots = [a.test] if isinstance(a, ast.While) else [a.iter]
    elif node.kind == "with":
        roots = [i.context_expr for i in a.items]
    elif node.kind in ("def", "handler", "try"):
        roots = []
    else:
        roots = [a]
    out = []
    for r in roots:
        for x in walk_no_nested(r):
            if isinstance(x, ast.Call):
                out.append(x)
    return out
