"""E9 -- sibling cross-check of the two histogram engines.

Both the C engine (clang AST) and the pure-Python engine (ast) are lowered to a
four-construct mini IR (assign / store / if / while) and reduced to *guarded
effects*: (enclosing loop descriptors, guard atoms, kind, array role, index
term, value term).  Roles are assigned by shared argument position; affine
induction variables are rewritten to closed forms in the loop counter; loop
carried state is told from per-iteration temporaries by read-before-write;
values are simplified under their guards.  Equal effect sets = the engines
perform the same stores under the same conditions for every input.
"""
import ast

import sympy as sp

from .core import AnalysisError


def _pw_str(v):
    """deterministic text of a (possibly nested) Piecewise state update"""
    if isinstance(v, sp.Piecewise):
        return "PW[" + "; ".join("%s if %s" % (_pw_str(val), str(nf(c))) for val, c in v.args) + "]"
    if isinstance(v, sp.Basic) and v.has(sp.Piecewise):
        return str(v.replace(lambda e: isinstance(e, sp.Piecewise), lambda e: sp.Symbol(_pw_str(e))))
    return str(nf(v))


def nf(e):
    """cheap deterministic normal form (no numeric sampling): relations are oriented as `d > 0` / `d >= 0` / `d = 0`
    with d expanded and its leading term positive; expressions are expanded"""
    if e is None:
        return e
    if e is sp.true or e is sp.false or isinstance(e, bool):
        return e
    if isinstance(e, (sp.And, sp.Or)):
        return e.func(*[nf(a) for a in e.args])
    if isinstance(e, sp.Not):
        a = e.args[0]
        if isinstance(a, sp.Rel) and not isinstance(a, (sp.Eq, sp.Ne)):
            return nf(a.negated)
        return sp.Not(nf(a))
    if isinstance(e, sp.Rel):
        d = sp.expand(e.lhs - e.rhs)
        if isinstance(e, (sp.Lt, sp.Le)):
            d = sp.expand(-d)
            cls = sp.Gt if isinstance(e, sp.Lt) else sp.Ge
        elif isinstance(e, (sp.Gt, sp.Ge)):
            cls = type(e)
        else:
            cls = type(e)
            # orient equalities by the sign of the first ordered term
            if d.as_ordered_terms()[0].could_extract_minus_sign():
                d = sp.expand(-d)
        return cls(d, 0, evaluate=False)
    try:
        return sp.expand(e)
    except Exception:
        return e

# ---------------- mini IR
class Assign:  # name, expr
    def __init__(s,n,e): s.n=n; s.e=e
class Store:
    def __init__(s,a,i,e): s.a=a; s.i=i; s.e=e
class If:
    def __init__(s,c,t,f): s.c=c; s.t=t; s.f=f
class While:
    def __init__(s,c,b): s.c=c; s.b=b
# expressions: nested tuples ('var',n) ('num',v) ('bin',op,a,b) ('cmp',op,a,b) ('and',a,b) ('or',a,b) ('not',a) ('rd',arr,idx) ('size',arr) ('notnone',arr) ('trunc',e) ('const',True/False)
# ---------------- Python lowering
PARAMS_PY=['data','dmin','s','binsize','hist','revind']
def py_expr(e):
    if isinstance(e,ast.Constant):
        if isinstance(e.value,bool): return ('const',e.value)
        if e.value is None: return ('none',)
        return ('num',e.value)
    if isinstance(e,ast.Name): return ('var',e.id)
    if isinstance(e,ast.BinOp):
        op={ast.Add:'+',ast.Sub:'-',ast.Mult:'*',ast.Div:'/'}[type(e.op)]
        return ('bin',op,py_expr(e.left),py_expr(e.right))
    if isinstance(e,ast.UnaryOp) and isinstance(e.op,ast.USub): return ('bin','-',('num',0),py_expr(e.operand))
    if isinstance(e,ast.Compare):
        assert len(e.ops)==1
        l=py_expr(e.left); r=py_expr(e.comparators[0]); o=e.ops[0]
        if isinstance(o,ast.IsNot) and r==('none',): return ('notnone',l)
        if isinstance(o,ast.Is) and r==('none',): return ('not',('notnone',l))
        op={ast.Lt:'<',ast.Gt:'>',ast.LtE:'<=',ast.GtE:'>=',ast.Eq:'==',ast.NotEq:'!='}[type(o)]
        return ('cmp',op,l,r)
    if isinstance(e,ast.BoolOp):
        vals=[py_expr(v) for v in e.values]; k='and' if isinstance(e.op,ast.And) else 'or'
        r=vals[0]
        for v in vals[1:]: r=(k,r,v)
        return r
    if isinstance(e,ast.Subscript): return ('rd',py_expr(e.value),py_expr(e.slice))
    if isinstance(e,ast.Attribute) and e.attr=='size': return ('size',py_expr(e.value))
    if isinstance(e,ast.Call):
        f=ast.unparse(e.func)
        if f in('np.int64','numpy.int64','int'): return ('trunc',py_expr(e.args[0]))
    raise NotImplementedError(ast.dump(e))
def py_stmts(body):
    out=[]
    for st in body:
        if isinstance(st,ast.Expr) and isinstance(st.value,ast.Constant): continue
        if isinstance(st,ast.Assign):
            t=st.targets[0]
            if isinstance(t,ast.Name): out.append(Assign(t.id,py_expr(st.value)))
            elif isinstance(t,ast.Subscript) and isinstance(t.slice,ast.Slice) and t.slice.step is None and t.slice.lower is not None and t.slice.upper is not None:
                # a[lo:hi] = v  ==  k = lo; while k < hi: a[k] = v; k += 1
                k='__sl%d'%len(out)
                out.append(Assign(k,py_expr(t.slice.lower)))
                out.append(While(('cmp','<',('var',k),py_expr(t.slice.upper)),[Store(py_expr(t.value),('var',k),py_expr(st.value)),Assign(k,('bin','+',('var',k),('num',1)))]))
            elif isinstance(t,ast.Subscript): out.append(Store(py_expr(t.value),py_expr(t.slice),py_expr(st.value)))
            else: raise NotImplementedError
        elif isinstance(st,ast.AugAssign):
            op={ast.Add:'+',ast.Sub:'-'}[type(st.op)]
            t=st.target
            if isinstance(t,ast.Name): out.append(Assign(t.id,('bin',op,('var',t.id),py_expr(st.value))))
            else: out.append(Store(py_expr(t.value),py_expr(t.slice),('bin',op,('rd',py_expr(t.value),py_expr(t.slice)),py_expr(st.value))))
        elif isinstance(st,ast.If): out.append(If(py_expr(st.test),py_stmts(st.body),py_stmts(st.orelse)))
        elif isinstance(st,ast.While): out.append(While(py_expr(st.test),py_stmts(st.body)))
        else: raise NotImplementedError(ast.dump(st))
    return out
# ---------------- C lowering (clang json)
def c_unwrap(n):
    while n['kind'] in('ImplicitCastExpr','ParenExpr','ConstantExpr'): n=n['inner'][0]
    return n
def is_macro(n): return 'spellingLoc' in n.get('range',{}).get('begin',{})
def find_calls(n,name,acc):
    if n.get('kind')=='CallExpr':
        c=c_unwrap(n['inner'][0])
        if c.get('referencedDecl',{}).get('name')==name: acc.append(n)
    for c in n.get('inner',[]): find_calls(c,name,acc)
def c_expr(n):
    n=c_unwrap(n); k=n['kind']
    if k=='IntegerLiteral': return ('num',int(n['value']))
    if k=='FloatingLiteral': return ('num',float(n['value']))
    if k=='DeclRefExpr':
        nm=n['referencedDecl']['name']
        if nm=='_Py_NoneStruct': return ('none',)
        return ('var',nm)
    if k=='UnaryOperator':
        op=n['opcode']
        if op=='*':
            inner=c_unwrap(n['inner'][0])
            if inner['kind']=='CStyleCastExpr':
                # *(T*) PyArray_GETPTR1(obj,i)  -> find PyArray_BYTES(obj) and index
                acc=[]; find_calls(inner,'PyArray_BYTES',acc)
                if acc:
                    obj=c_expr(acc[0]['inner'][1])
                    # index: the '*' BinaryOperator lhs within the macro expansion
                    def find_mul(m):
                        if m.get('kind')=='BinaryOperator' and m.get('opcode')=='*': return m
                        for c in m.get('inner',[]):
                            r=find_mul(c)
                            if r: return r
                    mul=find_mul(inner)
                    return ('rd',obj,c_expr(mul['inner'][0]))
            raise NotImplementedError('deref')
        if op=='&':
            inner=c_unwrap(n['inner'][0])
            if inner['kind']=='DeclRefExpr' and inner['referencedDecl']['name']=='_Py_NoneStruct': return ('none',)
        if op=='-': return ('bin','-',('num',0),c_expr(n['inner'][0]))
        if op=='!': return ('not',c_expr(n['inner'][0]))
        raise NotImplementedError(op)
    if k=='CStyleCastExpr':
        ty=n['type']['qualType']
        if ty in('npy_int64','int64_t','long','npy_intp','int'):
            sub=c_expr(n['inner'][0])
            # casting an integer var is a no-op; casting float expr is trunc
            return ('trunc',sub) if sub[0]=='bin' and sub[1]=='/' else sub
        return c_expr(n['inner'][0])
    if k=='BinaryOperator':
        op=n['opcode']; a=c_expr(n['inner'][0]); b=c_expr(n['inner'][1])
        if op in('+','-','*','/'): return ('bin',op,a,b)
        if op in('<','>','<=','>=','==','!='):
            if b==('none',): return ('notnone',a) if op=='!=' else ('not',('notnone',a))
            return ('cmp',op,a,b)
        if op=='&&': return ('and',a,b)
        if op=='||': return ('or',a,b)
        raise NotImplementedError(op)
    if k=='ArraySubscriptExpr': return ('rd',c_expr(n['inner'][0]),c_expr(n['inner'][1]))
    if k=='CallExpr':
        c=c_unwrap(n['inner'][0]); nm=c.get('referencedDecl',{}).get('name')
        if nm is None:
            acc=[]; find_calls(n,'PyArray_DIMS',acc)
            if acc: return ('size',c_expr(acc[0]['inner'][1]))
        if nm=='PyArray_SIZE' or nm=='PyArray_MultiplyList':
            acc=[]; 
            # PyArray_SIZE(obj) expands to PyArray_MultiplyList(PyArray_DIMS(obj),PyArray_NDIM(obj))
            find_calls(n,'PyArray_DIMS',acc)
            return ('size',c_expr(acc[0]['inner'][1])) if acc else ('size',c_expr(n['inner'][1]))
        if nm=='PyArray_DATA': return ('data',c_expr(n['inner'][1]))
    raise NotImplementedError(k+' line '+str(n.get('line')))
def c_stmts(nodes):
    out=[]
    for st in nodes:
        k=st['kind']
        if k=='DeclStmt':
            for v in st['inner']:
                init=[c for c in v.get('inner',[]) if 'kind' in c]
                if init and v['type']['qualType'] in('int','npy_int64','npy_intp','double','long'):
                    try: out.append(Assign(v['name'],c_expr(init[-1])))
                    except NotImplementedError: pass
        elif k=='BinaryOperator' and st['opcode']=='=':
            lhs=c_unwrap(st['inner'][0])
            if lhs['kind']=='DeclRefExpr': out.append(Assign(lhs['referencedDecl']['name'],c_expr(st['inner'][1])))
            elif lhs['kind']=='ArraySubscriptExpr': out.append(Store(c_expr(lhs['inner'][0]),c_expr(lhs['inner'][1]),c_expr(st['inner'][1])))
            else: raise NotImplementedError(lhs['kind'])
        elif k=='UnaryOperator' and st['opcode'] in('++','--'):
            nm=c_unwrap(st['inner'][0])['referencedDecl']['name']; out.append(Assign(nm,('bin','+' if st['opcode']=='++' else '-',('var',nm),('num',1))))
        elif k=='IfStmt':
            c=st['inner']
            acc=[]; find_calls(c[0],'PyArg_ParseTuple',acc)
            if acc:
                k=0
                for a in acc[0]['inner'][3:]:
                    a=c_unwrap(a)
                    if a['kind']=='UnaryOperator' and a['opcode']=='&':
                        out.append(Assign(c_unwrap(a['inner'][0])['referencedDecl']['name'],('var','@P%d'%k))); k+=1
                continue
            cond=c_expr(c[0])
            t=c_stmts(c[1]['inner'] if c[1]['kind']=='CompoundStmt' else [c[1]]); f=[]
            if len(c)>2: f=c_stmts(c[2]['inner'] if c[2]['kind']=='CompoundStmt' else [c[2]])
            # PyArg_ParseTuple early return: skip
            if any(isinstance(x,str) for x in t): continue
            out.append(If(cond,t,f))
        elif k=='ForStmt':
            init,_,test,inc,body=st['inner']
            out+=c_stmts([init]); b=c_stmts(body['inner'])+c_stmts([inc]); out.append(While(c_expr(test),b))
        elif k=='WhileStmt':
            out.append(While(c_expr(st['inner'][0]),c_stmts(st['inner'][1]['inner'])))
        elif k in('ReturnStmt','NullStmt'): 
            pass
        elif k=='CallExpr': pass
        else: raise NotImplementedError(k)
    return out
# ---------------- symbolic reduction to guarded effects
class Red:
    def __init__(s,roles):
        s.roles=roles  # name->role symbol
        s.effects=[]; s.nloop=0; s.nstate=0
    def sx(s,e,env):
        k=e[0]
        if k=='num': return sp.nsimplify(e[1])
        if k=='const': return sp.true if e[1] else sp.false
        if k=='var':
            if e[1].startswith('@'): return sp.Symbol(e[1][1:])
            if e[1] in env: return env[e[1]]
            if e[1] in s.roles: return sp.Symbol(s.roles[e[1]])
            return sp.Symbol('?'+e[1])
        if k=='bin':
            a=s.sx(e[2],env); b=s.sx(e[3],env); return {'+':a+b,'-':a-b,'*':a*b,'/':a/b}[e[1]]
        if k=='cmp':
            a=s.sx(e[2],env); b=s.sx(e[3],env)
            return {'<':sp.Lt,'>':sp.Gt,'<=':sp.Le,'>=':sp.Ge,'==':sp.Eq,'!=':sp.Ne}[e[1]](a,b)
        if k=='and': return sp.And(s.truth(e[1],env),s.truth(e[2],env))
        if k=='or': return sp.Or(s.truth(e[1],env),s.truth(e[2],env))
        if k=='not': return sp.Not(s.truth(e[1],env))
        if k=='rd': return sp.Function('rd')(s.arr(e[1],env),s.sx(e[2],env))
        if k=='size': return sp.Function('size')(s.arr(e[1],env))
        if k=='data': return s.arr(e[1],env)
        if k=='notnone': return sp.Function('notnone')(s.arr(e[1],env))>0
        if k=='trunc': return sp.Function('trunc')(s.sx(e[1],env))
        raise NotImplementedError(k)
    def arr(s,e,env):
        v=s.sx(e,env); return v
    def truth(s,e,env):
        v=s.sx(e,env)
        if v.is_Boolean or getattr(v,'is_Relational',False): return v
        return sp.Ne(v,0)
    def assigned(s,stmts,acc):
        for st in stmts:
            if isinstance(st,Assign): acc.add(st.n)
            elif isinstance(st,If): s.assigned(st.t,acc); s.assigned(st.f,acc)
            elif isinstance(st,While): s.assigned(st.b,acc)
        return acc
    def reads_in(s,stmts,acc):
        def reads(e):
            if isinstance(e,tuple):
                if e and e[0]=='var': acc.add(e[1])
                for x in e[1:]: reads(x)
        for x in stmts:
            if isinstance(x,Assign): reads(x.e)
            elif isinstance(x,Store): reads(x.a); reads(x.i); reads(x.e)
            elif isinstance(x,If): reads(x.c); s.reads_in(x.t,acc); s.reads_in(x.f,acc)
            elif isinstance(x,While): reads(x.c); s.reads_in(x.b,acc)
        return acc
    def run(s,stmts,env,guards,loops,rest=()):
        for pos,st in enumerate(stmts):
            after=list(stmts[pos+1:])+list(rest)
            if isinstance(st,Assign): env[st.n]=s.sx(st.e,env)
            elif isinstance(st,Store):
                s.effects.append((tuple(loops),frozenset(guards),'store',s.arr(st.a,env),s.sx(st.i,env),s.sx(st.e,env)))
            elif isinstance(st,If):
                c=s.truth(st.c,env)
                if c==sp.true: s.run(st.t,env,guards,loops,after); continue
                if c==sp.false: s.run(st.f,env,guards,loops,after); continue
                e1=dict(env); e2=dict(env)
                s.run(st.t,e1,guards+[c],loops,after); s.run(st.f,e2,guards+[sp.Not(c)],loops,after)
                for v in set(e1)|set(e2):
                    a=e1.get(v); b=e2.get(v)
                    if a is None or b is None: 
                        env[v]=a if a is not None else b; continue   # defined on one side only: keep (used only under same guard)
                    if a==b: env[v]=a
                    elif a==sp.true and b==sp.false: env[v]=c
                    elif a in(sp.Integer(1),) and b in(sp.Integer(0),): env[v]=sp.Piecewise((1,c),(0,True))
                    else: env[v]=sp.Piecewise((a,c),(b,True))
            elif isinstance(st,While):
                carried=s.assigned(st.b,set())
                lid=s.nloop; s.nloop+=1
                # detect affine induction vars: single top-level (unguarded) Assign v = v + c in body and no other assignment
                def count_assign(stmts,v,top=True):
                    n=0; t=0
                    for x in stmts:
                        if isinstance(x,Assign) and x.n==v:
                            n+=1
                            if top and x.e[0]=='bin' and x.e[1]=='+' and x.e[2]==('var',v) and x.e[3][0]=='num': t+=1
                        elif isinstance(x,If):
                            a,b=count_assign(x.t,v,False); n+=a; a,b=count_assign(x.f,v,False); n+=a
                        elif isinstance(x,While):
                            a,b=count_assign(x.b,v,False); n+=a
                    return n,t
                def rbw(stmts,written,acc):
                    # names possibly read before being (definitely) written; returns definitely-written set
                    def reads(e,acc2):
                        if isinstance(e,tuple):
                            if e and e[0]=='var': acc2.add(e[1])
                            for x in e[1:]: reads(x,acc2)
                    for x in stmts:
                        if isinstance(x,Assign):
                            r=set(); reads(x.e,r); acc|=(r-written); written=written|{x.n}
                        elif isinstance(x,Store):
                            r=set(); reads(x.a,r); reads(x.i,r); reads(x.e,r); acc|=(r-written)
                        elif isinstance(x,If):
                            r=set(); reads(x.c,r); acc|=(r-written)
                            w1=rbw(x.t,set(written),acc); w2=rbw(x.f,set(written),acc); written=w1&w2
                        elif isinstance(x,While):
                            r=set(); reads(x.c,r); acc|=(r-written); rbw(x.b,set(written),acc)
                    return written
                live=set(); r0=set()
                def creads(e,acc2):
                    if isinstance(e,tuple):
                        if e and e[0]=='var': acc2.add(e[1])
                        for x in e[1:]: creads(x,acc2)
                creads(st.c,live); rbw(st.b,set(),live)
                # a variable assigned in the loop and read after it is loop-carried state, not a temporary
                acc2=set(); rbw(after,set(),acc2)
                live|=(carried & acc2)
                k=sp.Symbol('k%d'%lid,integer=True)
                benv=dict(env); induct={}
                for v in sorted(carried):
                    n,t=count_assign(st.b,v)
                    if n==1 and t==1 and v in env:
                        step=[x for x in st.b if isinstance(x,Assign) and x.n==v][0].e[3][1]
                        benv[v]=env[v]+step*k; induct[v]=step
                    elif v in env and v in live:
                        # loop-carried state var
                        benv[v]=sp.Symbol('S%d_%d'%(lid,len([x for x in benv.values() if str(x).startswith('S%d_'%lid)])))
                    else:
                        benv.pop(v,None)   # per-iteration temporary
                cond=s.truth(st.c,benv)
                # loop descriptor: canonical (init-substituted) condition
                desc=('loop',lid,nf(cond))
                before=dict(benv)
                body_no_induct=[x for x in st.b if not(isinstance(x,Assign) and x.n in induct)]
                s.run(body_no_induct,benv,guards,loops+[desc],[st]+after)
                # state updates
                for v in sorted(carried):
                    if v in induct or v not in env or v not in live: continue
                    if benv.get(v)!=before.get(v):
                        s.effects.append((tuple(loops+[desc]),frozenset(guards),'state',before[v],None,benv[v]))
                    env[v]=sp.Symbol(str(before[v])+'_final')
                for v in induct: env[v]=sp.Symbol('ind%d_%s_final'%(lid,'x'))
    def atoms(s,g):
        out=[]
        for x in g:
            x=s.norm_truth(x)
            if isinstance(x,sp.And): out+=s.atoms(list(x.args))
            else: out.append(x)
        return out
    def norm_truth(s,x):
        # Ne(Piecewise((1,c),(0,True)),0) -> c
        def fix(e):
            if isinstance(e,sp.Ne) and isinstance(e.args[0],sp.Piecewise) and e.args[1]==0:
                pw=e.args[0]
                if len(pw.args)==2 and pw.args[0][0]==1 and pw.args[1][0]==0: return pw.args[0][1]
            return e
        return x.replace(lambda e: isinstance(e,sp.Ne), fix) if hasattr(x,'replace') else x
    def under(s,v,G):
        if v is None: return v
        v=s.norm_truth(v) if getattr(v,'is_Boolean',False) else v
        def fix(pw):
            for val,c in pw.args:
                c2=s.norm_truth(c)
                if c2==True or any(c2==g for g in G): return val
            return pw
        return v.replace(lambda e:isinstance(e,sp.Piecewise),fix)
    def canon(s):
        out=set()
        for loops,g,kind,a,i,v in s.effects:
            G=s.atoms(list(g))
            if kind=='state':
                ld=[str(nf(d[2])) for d in loops]
                out.add((tuple(ld),tuple(sorted(set(str(nf(x)) for x in G))),kind,str(a),'',_pw_str(s.norm_truth(v) if getattr(v,'is_Boolean',False) else v)))
                continue
            ld=[]
            for d in loops: ld.append(str(nf(s.under(d[2],G))))
            out.add((tuple(ld),tuple(sorted(set(str(nf(x)) for x in G))),kind,str(a),str(nf(i)) if i is not None else '',str(nf(s.under(v,G)))))
        return out


def lower_python(fn):
    return py_stmts(fn.body)


def lower_c(decl):
    body = [c for c in decl['inner'] if c.get('kind') == 'CompoundStmt'][0]
    return c_stmts(body['inner'])


def c_roles(decl):
    """local name -> positional role via PyArg_ParseTuple"""
    acc = []
    find_calls(decl, 'PyArg_ParseTuple', acc)
    if not acc:
        acc2 = []
        find_calls(decl, '_PyArg_ParseTuple_SizeT', acc2)
        acc = acc2
    if not acc:
        raise AnalysisError('no PyArg_ParseTuple call in the C engine')
    roles = {}
    k = 0
    for a in acc[0]['inner'][3:]:
        a = c_unwrap(a)
        if a['kind'] == 'UnaryOperator' and a['opcode'] == '&':
            roles[c_unwrap(a['inner'][0])['referencedDecl']['name']] = 'P%d' % k
            k += 1
    return roles


def effects_of(ir, roles):
    r = Red(roles)
    r.run(ir, {}, [], [])
    return r.canon()


def compare(py_fn, c_decl):
    try:
        pyir = lower_python(py_fn)
        params = [a.arg for a in py_fn.args.args]
        A = effects_of(pyir, {p: 'P%d' % i for i, p in enumerate(params)})
        cir = lower_c(c_decl)
        B = effects_of(cir, c_roles(c_decl))
    except NotImplementedError as e:
        raise AnalysisError('sibling lowering met an unsupported construct: %s' % e)
    return A, B
