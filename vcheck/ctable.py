"""python-visible names of extension entry points -> C effect summaries"""
from . import ceffects, cfront
from .core import AnalysisError

_cache = {}


def c_summaries():
    if "v" in _cache:
        return _cache["v"]
    out = {}
    info = {}
    # SWIG classes: proxy method X.m -> C++ X::m, same positional order (assumption stated in DESIGN)
    for tu, pyprefix, classes in (("records", "esutil.recfile.records.", ("Records",)),
                                  ("htmc", "esutil.htm.htmc.", ("HTMC", "Matcher"))):
        funcs, summ = ceffects.tu_summaries(tu)
        for name, s in summ.items():
            if "::" not in name:
                continue
            cls, m = name.split("::", 1)
            if cls in classes:
                key = pyprefix + cls + "." + ("__init__" if m == cls else m)
                out[key] = {"writes": set(s["ptr_writes"]), "params": s["params"], "c_name": name, "detail": s["writes"]}
    # METH_VARARGS functions: positional index through PyArg_ParseTuple
    for tu, pyname, cname in (("chist", "esutil.stat._chist.chist", "PyCHist_chist"),
                              ("cgauleg", "esutil.integrate._cgauleg.cgauleg", "PyCGauleg_cgauleg")):
        funcs, summ = ceffects.tu_summaries(tu)
        if cname not in funcs:
            raise AnalysisError("C anchor %s not found" % cname)
        fmt, names = ceffects.parse_tuple_binding(funcs[cname])
        w = {i for i, nm in enumerate(names) if nm in summ[cname]["writes"]}
        out[pyname] = {"writes": w, "params": names, "c_name": cname, "format": fmt, "detail": summ[cname]["writes"]}
    funcs, summ = ceffects.tu_summaries("cosmolib_pywrap")
    for name, fn in funcs.items():
        if name.startswith("PyCosmoObject_"):
            m = name[len("PyCosmoObject_"):]
            fmt, names = ceffects.parse_tuple_binding(fn)
            w = {i for i, nm in enumerate(names) if nm in summ[name]["writes"]}
            out["esutil.cosmology._cosmolib.cosmo." + m] = {"writes": w, "params": names, "c_name": name, "format": fmt,
                                                             "detail": summ[name]["writes"]}
    _cache["v"] = out
    return out
