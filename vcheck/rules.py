"""Reusable rule building blocks on top of the CFG (E1/E3)."""
import ast

from .cfg import CFG, stmts_calls
from .core import AnalysisError, call_name, dotted_name, norm, walk_no_nested

_cfg_cache = {}


def cfg_of(fi):
    c = _cfg_cache.get(id(fi.node))
    if c is None:
        c = CFG(fi.node)
        _cfg_cache[id(fi.node)] = c
    return c


def call_nodes(cfg, pred):
    """(node, call) pairs for calls in the function satisfying pred(call)"""
    out = []
    for n in cfg.nodes:
        for c in stmts_calls(n):
            if pred(c):
                out.append((n, c))
    return out


def calls_named(cfg, *names):
    return call_nodes(cfg, lambda c: call_name(c) in names)


def calls_dotted_suffix(cfg, suffix):
    """calls whose dotted callee text ends with suffix (e.g. 'self._robj.write')"""
    def p(c):
        d = dotted_name(c.func)
        return d is not None and (d == suffix or d.endswith("." + suffix))
    return call_nodes(cfg, p)


def assigns_to(cfg, target_text):
    """CFG nodes that assign to the lvalue with normalised text target_text"""
    out = []
    for n in cfg.nodes:
        a = n.ast
        if isinstance(a, ast.Assign):
            for t in a.targets:
                for tt in _flat_targets(t):
                    if norm(tt) == target_text:
                        out.append(n)
        elif isinstance(a, (ast.AugAssign, ast.AnnAssign)):
            if norm(a.target) == target_text:
                out.append(n)
    return out


def _flat_targets(t):
    if isinstance(t, (ast.Tuple, ast.List)):
        for e in t.elts:
            for x in _flat_targets(e):
                yield x
    elif isinstance(t, ast.Starred):
        for x in _flat_targets(t.value):
            yield x
    else:
        yield t


def raise_nodes(cfg):
    return [n for n in cfg.nodes if n.kind == "raise"]


def return_nodes(cfg):
    return [n for n in cfg.nodes if n.kind == "return"]


def dead_param_stores(cfg, view=None, names=None):
    """assignments to a name whose value is not live afterwards although the
    name is used somewhere else in the function (partially dead store)"""
    view = view or cfg.view()
    _, live_out = view.liveness()
    used = {x.id for x in ast.walk(cfg.fn) if isinstance(x, ast.Name) and isinstance(x.ctx, ast.Load)}
    out = []
    for n in view.nodes():
        if n.kind != "stmt" or not isinstance(n.ast, (ast.Assign, ast.AugAssign)):
            continue
        d, _ = cfg.defs_uses(n)
        for v in d:
            if names is not None and v not in names:
                continue
            if v in used and v not in live_out[n.id]:
                out.append((n, v))
    return out


def flag_sets(cfg, value=True):
    """nodes `name = <value>` for constant bool value -> {name: [nodes]}"""
    out = {}
    for n in cfg.nodes:
        a = n.ast
        if n.kind == "stmt" and isinstance(a, ast.Assign) and len(a.targets) == 1 and isinstance(a.targets[0], ast.Name):
            if isinstance(a.value, ast.Constant) and a.value.value is value:
                out.setdefault(a.targets[0].id, []).append(n)
    return out


def uses_name_in_tests(cfg, name):
    for n in cfg.nodes:
        if n.kind == "branch" or (n.kind == "loop" and isinstance(n.ast, ast.While)):
            for x in ast.walk(n.ast.test):
                if isinstance(x, ast.Name) and x.id == name:
                    return True
    return False


def can_return_normally_from(cfg, n, flags):
    """is the normal exit reachable from node n when branch tests are decided
    with the given literal flag values"""
    v = cfg.specialise(flags=flags)
    # the specialised view's reach is computed from entry; n must be reachable
    import networkx as nx
    desc = nx.descendants(v.g, n.id)
    return cfg.exit.id in desc


def mentions(node, *texts):
    """does the normalised text of any sub-expression equal one of texts"""
    for x in ast.walk(node):
        if isinstance(x, (ast.Attribute, ast.Name, ast.Subscript, ast.Call)):
            if norm(x) in texts:
                return True
    return False


def names_in(node):
    return {x.id for x in ast.walk(node) if isinstance(x, ast.Name)}


def attr_texts(node):
    return {norm(x) for x in ast.walk(node) if isinstance(x, ast.Attribute)}


def node_of_stmt(cfg, stmt):
    for n in cfg.nodes:
        if n.ast is stmt:
            return n
    return None


def controlling_tests(view, n, skip_reject_guards=False):
    """list of (normalised test text, truth label) that control node n.
    skip_reject_guards: leave out early-rejection guards (branches whose other
    outcome can never reach the normal exit, i.e. `if bad: raise`)"""
    import networkx as nx
    out = []
    for b, lab in view.controlling_branches(n):
        if b.kind == "branch" or (b.kind == "loop" and isinstance(b.ast, ast.While)):
            if skip_reject_guards:
                other = [j for j in view.g.successors(b.id) if lab not in view.g[b.id][j]["labels"]]
                ex = view.cfg.exit.id
                if other and not any(j == ex or ex in nx.descendants(view.g, j) for j in other):
                    continue
            out.append((norm(b.ast.test), lab))
    return out


def falls_off_end(cfg, view=None):
    """predecessor nodes of the normal exit that are not `return` statements"""
    view = view or cfg.view()
    out = []
    for p in view.pred(cfg.exit):
        if p.kind != "return":
            out.append(p)
    return out


def returns_value(fn):
    for x in walk_no_nested(fn):
        if isinstance(x, ast.Return) and x.value is not None and not (
                isinstance(x.value, ast.Constant) and x.value.value is None):
            return True
    return False


def is_generator(fn):
    for x in walk_no_nested(fn):
        if isinstance(x, (ast.Yield, ast.YieldFrom)):
            return True
    return False


# --------------------------------------------------------------------------
# forward substitution of single-definition temporaries (so that introducing or
# inlining a named local does not change what a rule sees)
# --------------------------------------------------------------------------
import copy as _copy

_sd_cache = {}


def single_defs(fn):
    """{name: value expr} for locals with exactly one binding in fn, that binding being a plain `name = <expr>`
    (parameters, loop/with/except targets, tuple targets, augmented or repeated assignments are excluded)"""
    if id(fn) in _sd_cache:
        return _sd_cache[id(fn)]
    from .cfg import func_params
    params = set(func_params(fn))
    count = {}
    val = {}
    for x in walk_no_nested(fn):
        if isinstance(x, ast.Assign):
            for t in x.targets:
                for tt in _flat_targets(t):
                    if isinstance(tt, ast.Name):
                        count[tt.id] = count.get(tt.id, 0) + 1
                        if len(x.targets) == 1 and tt is t:
                            val[tt.id] = x.value
        elif isinstance(x, (ast.AugAssign, ast.AnnAssign)):
            if isinstance(x.target, ast.Name):
                count[x.target.id] = count.get(x.target.id, 0) + 2
        elif isinstance(x, (ast.For, ast.comprehension)):
            for tt in _flat_targets(x.target):
                if isinstance(tt, ast.Name):
                    count[tt.id] = count.get(tt.id, 0) + 2
        elif isinstance(x, ast.With):
            for it in x.items:
                if it.optional_vars is not None:
                    for tt in _flat_targets(it.optional_vars):
                        if isinstance(tt, ast.Name):
                            count[tt.id] = count.get(tt.id, 0) + 2
        elif isinstance(x, ast.ExceptHandler) and x.name:
            count[x.name] = count.get(x.name, 0) + 2
        elif isinstance(x, ast.NamedExpr) and isinstance(x.target, ast.Name):
            count[x.target.id] = count.get(x.target.id, 0) + 2
    out = {k: v for k, v in val.items() if count.get(k) == 1 and k not in params}
    _sd_cache[id(fn)] = out
    return out


class _Subst(ast.NodeTransformer):
    def __init__(self, sd, depth):
        self.sd = sd
        self.depth = depth

    def visit_Name(self, n):
        if isinstance(n.ctx, ast.Load) and n.id in self.sd and self.depth > 0:
            v = _copy.deepcopy(self.sd[n.id])
            # a temporary defined in terms of itself (x = f(x)) cannot occur here: single binding, not a parameter
            return _Subst({k: w for k, w in self.sd.items() if k != n.id}, self.depth - 1).visit(v)
        return n

    def visit_Lambda(self, n):
        return n


def expand(node, fn, depth=6):
    """copy of `node` with single-definition temporaries of `fn` replaced by their defining expressions"""
    return _Subst(single_defs(fn), depth).visit(_copy.deepcopy(node))


def xnorm(node, fn):
    """normalised text of a node after forward substitution of temporaries"""
    return norm(expand(node, fn))


# ---------------------------------------------------------------------------
# propositional reading of a test: comparisons are atoms, `in (a, b)` is a disjunction of equalities
# ---------------------------------------------------------------------------
def bool_term(test):
    """sympy boolean over atoms named by normalised source text; equal up to ==/!=, in/not in over displays, De Morgan, operand order"""
    import sympy as sp

    def atom(kind, *xs):
        return sp.Symbol("%s[%s]" % (kind, "|".join(xs)))

    def eq(a, b):
        ta, tb = sorted((ast.unparse(a), ast.unparse(b)))
        return atom("EQ", ta, tb)

    def t(e):
        if isinstance(e, ast.BoolOp):
            vs = [t(v) for v in e.values]
            return sp.And(*vs) if isinstance(e.op, ast.And) else sp.Or(*vs)
        if isinstance(e, ast.UnaryOp) and isinstance(e.op, ast.Not):
            return sp.Not(t(e.operand))
        if isinstance(e, ast.Compare):
            parts = []
            left = e.left
            for op, right in zip(e.ops, e.comparators):
                if isinstance(op, ast.Eq):
                    parts.append(eq(left, right))
                elif isinstance(op, ast.NotEq):
                    parts.append(sp.Not(eq(left, right)))
                elif isinstance(op, (ast.In, ast.NotIn)) and isinstance(right, (ast.Tuple, ast.List, ast.Set)):
                    d = sp.Or(*[eq(left, x) for x in right.elts]) if right.elts else sp.false
                    parts.append(d if isinstance(op, ast.In) else sp.Not(d))
                elif isinstance(op, (ast.Is, ast.IsNot)) and isinstance(right, ast.Constant) and right.value is None:
                    a = atom("NONE", ast.unparse(left))
                    parts.append(a if isinstance(op, ast.Is) else sp.Not(a))
                elif isinstance(op, (ast.Lt, ast.GtE)):
                    a = atom("LT", ast.unparse(left), ast.unparse(right))
                    parts.append(a if isinstance(op, ast.Lt) else sp.Not(a))
                elif isinstance(op, (ast.Gt, ast.LtE)):
                    a = atom("LT", ast.unparse(right), ast.unparse(left))
                    parts.append(a if isinstance(op, ast.Gt) else sp.Not(a))
                else:
                    parts.append(atom("T", ast.unparse(ast.Compare(left=left, ops=[op], comparators=[right]))))
                left = right
            return sp.And(*parts)
        if isinstance(e, ast.Constant) and isinstance(e.value, bool):
            return sp.true if e.value else sp.false
        return atom("T", ast.unparse(e))
    return t(test)


def bool_equivalent(a, b):
    from sympy.logic.inference import satisfiable
    import sympy as sp
    return satisfiable(sp.Xor(a, b)) is False


def bool_implies(a, b):
    from sympy.logic.inference import satisfiable
    import sympy as sp
    return satisfiable(sp.And(a, sp.Not(b))) is False


def raise_condition(fi):
    """disjunction over the raise statements of the function of the conjunction of their controlling tests (as bool_term)"""
    import sympy as sp
    cfg = cfg_of(fi)
    view = cfg.view()
    out = []
    for n in raise_nodes(cfg):
        conj = []
        for b, lab in view.controlling_branches(n):
            if b.kind != "branch" or not isinstance(getattr(getattr(b, "ast", None), "test", None), ast.AST):
                continue
            tt = bool_term(b.ast.test)
            conj.append(tt if lab == "T" else sp.Not(tt))
        out.append(sp.And(*conj) if conj else sp.true)
    return sp.Or(*out) if out else sp.false
