"""E6 -- formula extraction: a term-domain abstract interpreter for the numeric
Python code of the repository.  Arrays are treated element-wise (one symbolic
scalar stands for every element); masked updates become Piecewise terms; calls
to package functions are inlined (bounded depth) or kept as function symbols.

sympy is used as a term normaliser only (expand / simplify / trigsimp and
structural equality).  No path condition is ever solved and no number sampled.
"""
import ast
import math

import sympy as sp

from .core import AnalysisError, call_name, dotted_name, kwarg, norm

PI = sp.pi


class Unsupported(AnalysisError):
    pass


class Mask:
    """result of a comparison / np.where: an element-wise condition"""

    def __init__(self, cond):
        self.cond = cond

    def __repr__(self):
        return "Mask(%s)" % (self.cond,)


class Opaque:
    def __init__(self, what):
        self.what = what

    def __repr__(self):
        return "Opaque(%s)" % self.what


class _ContinueLoop(Exception):
    def __init__(self, cond):
        self.cond = cond


class Ret(Exception):
    def __init__(self, value):
        self.value = value


UNARY = {"sin": sp.sin, "cos": sp.cos, "tan": sp.tan, "arcsin": sp.asin, "arccos": sp.acos, "arctan": sp.atan,
         "asin": sp.asin, "acos": sp.acos, "atan": sp.atan, "sqrt": sp.sqrt, "exp": sp.exp, "log": sp.log,
         "abs": sp.Abs, "fabs": sp.Abs, "absolute": sp.Abs, "sinh": sp.sinh, "cosh": sp.cosh, "tanh": sp.tanh,
         "log10": lambda x: sp.log(x, 10), "square": lambda x: x ** 2, "floor": sp.floor, "ceil": sp.ceiling}
IDENTITY_FUNCS = {"array", "asarray", "atleast_1d", "asanyarray", "ascontiguousarray", "float64", "float", "float32",
                  "squeeze", "ravel", "copy", "double"}
IDENTITY_METHODS = {"astype", "copy", "ravel", "squeeze", "view", "flatten", "item"}
# array conversions: an explicitly stated element type decides whether the conversion keeps the value
KEEP_DT = {"f8", "float64", "float", "double", "d", "<f8", ">f8", "=f8", "float_", "longdouble", "f16", "g", "complex128", "c16", "complex",
           "object", "O"}
NARROW_DT = {"f4", "float32", "f2", "float16", "single", "half", "<f4", ">f4", "=f4", "e", "f"}
INT_DT = {"i8", "i4", "i2", "i1", "u8", "u4", "u2", "u1", "int", "int64", "int32", "int16", "int8", "uint64", "uint32", "uint16", "uint8",
          "intp", "uintp", "int_", "uint", "l", "q", "L", "Q", "i", "I", "long", "<i8", ">i8", "<i4", ">i4", "longlong", "ulonglong"}


def _dtype_class(node):
    """keep | narrow | int | unknown for the element type named by an ast node (None = no type stated = keep)"""
    if node is None:
        return "keep"
    nm = None
    if isinstance(node, ast.Constant) and isinstance(node.value, str):
        nm = node.value
    elif isinstance(node, ast.Name):
        nm = node.id
    elif isinstance(node, ast.Attribute):
        nm = node.attr
    if nm in KEEP_DT:
        return "keep"
    if nm in NARROW_DT:
        return "narrow"
    if nm in INT_DT:
        return "int"
    return "unknown"


def _convert(x, cls):
    """value of x after conversion to an element type of class cls"""
    if cls == "narrow":
        return _map(lambda e: sp.Function("F32")(e), x) if _is_expr(x) or isinstance(x, (list, tuple)) else x
    if cls == "int":
        def f(e):
            e = _as_expr(e)
            if e.is_integer or e.func in (sp.floor, sp.ceiling) or getattr(e.func, "__name__", "") in ("INT", "SEARCHSORTED", "ARANGE", "LEN", "ARGSORT"):
                return e
            if e.is_number:
                return sp.Integer(int(e))
            return sp.Function("INT")(e)
        return _map(f, x) if _is_expr(x) or isinstance(x, (list, tuple)) else x
    return x


REDUCE = {"sum": "SUM", "mean": "MEAN", "std": "STD", "min": "MIN", "max": "MAX", "median": "MEDIAN", "var": "VAR", "cumsum": "CUMSUM"}


class SymEval:
    def __init__(self, repo, opaque=(), inline_depth=4, assume_masks_nonempty=True, opaque_tests=None, self_calls_as_terms=False):
        self.repo = repo
        self.assume = {}                     # "call:<callee>" / "text:<normalised test>" -> bool (stated per rule)
        self.opaque_tests = opaque_tests     # None: explore both arms; True/False: shape-like tests the term domain cannot see take this value
        self.opaque = set(opaque)
        self.self_calls_as_terms = self_calls_as_terms   # unresolved `self.m(...)` (extension-type methods) become SELF_m(args) terms
        self.inline_depth = inline_depth
        self.issues = []          # (where, text)
        self.notes = []
        self._const_cache = {}

    # -- module constants ------------------------------------------------
    def module_const(self, mod, name, depth=0):
        key = (mod.name, name)
        if key in self._const_cache:
            return self._const_cache[key]
        if name not in mod.consts or depth > 6:
            return None
        self._const_cache[key] = None
        env = Env(self, None, mod, {}, {})
        try:
            v = env.ev(mod.consts[name])
        except Unsupported:
            v = None
        # dict built by item assignment at module level:  _sdsspar['x'] = ...
        if isinstance(v, dict):
            # the table may be filled by later module-level statements: replay them in source order (simple name
            # assignments are tracked locally because helper names such as `dname` are re-assigned between blocks)
            started = False
            self._const_cache[key] = v
            for st in mod.tree.body:
                if isinstance(st, ast.Assign) and len(st.targets) == 1 and isinstance(st.targets[0], ast.Name):
                    if st.targets[0].id == name:
                        started = st.value is mod.consts[name]
                        continue
                    if started:
                        try:
                            env.vars[st.targets[0].id] = env.ev(st.value)
                        except Unsupported:
                            env.vars.pop(st.targets[0].id, None)
                    continue
                if not started:
                    continue
                root = None
                if isinstance(st, ast.Assign) and isinstance(st.targets[0], ast.Subscript):
                    root = st.targets[0]
                    while isinstance(root, ast.Subscript):
                        root = root.value
                if root is not None and isinstance(root, ast.Name) and root.id == name:
                    try:
                        env.assign(st.targets[0], env.ev(st.value), st)
                    except (Unsupported, KeyError, TypeError):
                        pass
                elif isinstance(st, ast.For) and any(isinstance(x, ast.Assign) and isinstance(x.targets[0], ast.Subscript)
                                                     and norm(x.targets[0].value) == name for x in ast.walk(st)):
                    try:
                        env.exec_for(st, sp.true)
                    except (Unsupported, KeyError, TypeError):
                        pass
        self._const_cache[key] = v
        return v

    # -- entry -----------------------------------------------------------------
    def run(self, fi, args, flags=None, depth=0, pins=None):
        """evaluate function fi with argument values; returns the returned value
        (tuple for tuple returns; guarded returns are merged into Piecewise)"""
        flags = dict(flags or {})
        env = Env(self, fi, fi.module, dict(args), flags, depth=depth)
        env.pins = dict(pins or {})
        # defaults
        for p in fi.params:
            pn = p.lstrip("*")
            if pn not in env.vars:
                if pn in fi.defaults:
                    env.vars[pn] = env.ev(fi.defaults[pn])
                elif p.startswith("**"):
                    env.vars[pn] = {}
                elif p.startswith("*"):
                    env.vars[pn] = ()
        for k, v in flags.items():
            if k in [p.lstrip("*") for p in fi.params]:
                env.vars[k] = v
        rets = env.exec_body(fi.node.body, sp.true)
        env.finish_returns(rets)
        self.last_env = env
        return env.result


class Env:
    def __init__(self, se, fi, mod, vars_, flags, depth=0):
        self.se = se
        self.fi = fi
        self.mod = mod
        self.vars = vars_
        self.flags = flags
        self.depth = depth
        self.result = None
        self.param_updates = {}
        self.pins = {}
        self.elem = {}          # (array text, index term) -> stored value

    def where(self, node):
        return self.fi.where(node) if self.fi else "%s:%s" % (self.mod.relpath, getattr(node, "lineno", "?"))

    # ---- statements -------------------------------------------------------
    def exec_body(self, stmts, cond):
        """returns list of (cond, value) returns encountered; stops after an unconditional return"""
        rets = []
        for st in stmts:
            r = self.exec_stmt(st, cond)
            if r:
                rets += r
                if any(c == cond or c == sp.true for c, _ in r):
                    break
        return rets

    def exec_stmt(self, st, cond):
        if isinstance(st, ast.Expr):
            if isinstance(st.value, ast.Constant):
                return []
            self.ev(st.value, stmt_level=True)
            return []
        if isinstance(st, ast.Assign):
            v = self.ev(st.value)
            for t in st.targets:
                self.assign(t, v, st)
            return []
        if isinstance(st, ast.AugAssign):
            cur = self.ev(_load(st.target))
            v = self.binop(st.op, cur, self.ev(st.value), st)
            self.assign(st.target, v, st)
            return []
        if isinstance(st, ast.AnnAssign):
            if st.value is not None:
                self.assign(st.target, self.ev(st.value), st)
            return []
        if isinstance(st, ast.Return):
            v = self.ev(st.value) if st.value is not None else None
            return [(cond, v)]
        if isinstance(st, ast.If):
            return self.exec_if(st, cond)
        if isinstance(st, (ast.Pass, ast.Import, ast.ImportFrom, ast.Global, ast.Assert, ast.Delete)):
            return []
        if isinstance(st, ast.Raise):
            return [(cond, Opaque("raise"))]
        if isinstance(st, ast.Continue):
            raise _ContinueLoop(cond)
        if isinstance(st, ast.For):
            return self.exec_for(st, cond)
        if isinstance(st, ast.While):
            return self.exec_while(st, cond)
        if isinstance(st, ast.With):
            return self.exec_body(st.body, cond)
        if isinstance(st, ast.Try):
            return self.exec_body(st.body, cond)
        if isinstance(st, (ast.FunctionDef, ast.ClassDef)):
            self.vars[st.name] = Opaque("def " + st.name)
            return []
        raise Unsupported("symx: statement %s at %s" % (type(st).__name__, self.where(st)))

    def exec_if(self, st, cond):
        t = self.truth(st.test)
        if t is True:
            return self.exec_body(st.body, cond)
        if t is False:
            return self.exec_body(st.orelse, cond)
        if t == "mask":
            # guard on a mask being non-empty: the masked updates in the body are no-ops when it is empty
            return self.exec_body(st.body, cond)
        # symbolic condition: evaluate both arms and merge
        c = t
        save = dict(self.vars)
        r1 = self.exec_body(st.body, sp.And(cond, c))
        v1 = self.vars
        self.vars = dict(save)
        r2 = self.exec_body(st.orelse, sp.And(cond, sp.Not(c)))
        v2 = self.vars
        term1 = any(cc == sp.And(cond, c) for cc, _ in r1) or any(isinstance(v, Opaque) and v.what == "raise" for _, v in r1)
        term2 = any(cc == sp.And(cond, sp.Not(c)) for cc, _ in r2) or any(isinstance(v, Opaque) and v.what == "raise" for _, v in r2)
        if term1 and not term2:
            self.vars = v2
        elif term2 and not term1:
            self.vars = v1
        else:
            merged = {}
            for k in set(v1) | set(v2):
                a, b = v1.get(k), v2.get(k)
                if k in v1 and k in v2 and _same(a, b):
                    merged[k] = a
                elif k in v1 and k in v2 and _is_expr(a) and _is_expr(b):
                    z = _zero_test(c)
                    if z is not None and _agree_at_zero(_as_expr(a), _as_expr(b), z):
                        # `if s == 0: X else: Y` with Y = X at s = 0 is Y (a skip of zero terms that only saves work)
                        merged[k] = b if z[1] else a
                    else:
                        merged[k] = sp.Piecewise((a, c), (b, True))
                elif k in v1 and k in v2 and isinstance(a, tuple) and isinstance(b, tuple) and len(a) == len(b) and all(_is_expr(x) for x in a + b):
                    merged[k] = tuple(sp.Piecewise((x, c), (y, True)) for x, y in zip(a, b))
                else:
                    merged[k] = a if k in v1 else b
            self.vars = merged
        return r1 + r2

    def exec_for(self, st, cond):
        it = self.ev(st.iter)
        if isinstance(it, (list, tuple)) and len(it) <= 64:
            rets = []
            body_ = _continue_to_else(st.body)
            for k_, v in enumerate(it):
                self.assign(st.target, v, st)
                try:
                    rets += self.exec_body(body_, cond)
                except _ContinueLoop as c_:
                    if c_.cond != cond:
                        raise Unsupported("symx: conditional continue at %s" % self.where(st))
                # an element updated in place through the loop variable (np.deg2rad(a, out=a), a *= k) is updated in the sequence too
                if isinstance(it, list) and isinstance(st.target, ast.Name) and st.target.id in self.vars and not _same(self.vars[st.target.id], v) \
                        and _is_expr(self.vars[st.target.id]):
                    it[k_] = self.vars[st.target.id]
            return rets
        raise Unsupported("symx: loop over non-literal iterable `%s` at %s" % (norm(st.iter), self.where(st)))

    def exec_while(self, st, cond):
        raise Unsupported("symx: while loop at %s" % self.where(st))

    def finish_returns(self, rets):
        rets = [(c, v) for c, v in rets if not (isinstance(v, Opaque) and v.what == "raise")]
        if not rets:
            self.result = None
            return
        if len(rets) == 1:
            self.result = rets[0][1]
            return
        # merge guarded returns
        vals = [v for _, v in rets]
        if all(_is_expr(v) for v in vals):
            pieces = [(v, c) for c, v in rets[:-1]] + [(rets[-1][1], True)]
            self.result = sp.Piecewise(*pieces)
        elif all(isinstance(v, tuple) for v in vals) and len({len(v) for v in vals}) == 1:
            out = []
            for i in range(len(vals[0])):
                pieces = [(v[i], c) for c, v in rets[:-1]] + [(rets[-1][1][i], True)]
                out.append(sp.Piecewise(*pieces) if all(_is_expr(p[0]) for p in pieces) else pieces[0][0])
            self.result = tuple(out)
        else:
            self.result = vals[0]

    # ---- truth of tests ---------------------------------------------------
    def truth(self, t):
        """True / False / 'mask' / sympy condition"""
        if self.se.assume:
            k = "text:" + norm(t)
            if k in self.se.assume:
                return self.se.assume[k]
            if isinstance(t, ast.Call) and ("call:%s" % call_name(t)) in self.se.assume:
                return self.se.assume["call:%s" % call_name(t)]
        if isinstance(t, ast.BoolOp):
            vals = [self.truth(v) for v in t.values]
            if isinstance(t.op, ast.And):
                if any(v is False for v in vals):
                    return False
                vals = [v for v in vals if v is not True]
                if not vals:
                    return True
                if any(isinstance(v, str) for v in vals):
                    return "mask"
                return sp.And(*vals)
            if any(v is True for v in vals):
                return True
            vals = [v for v in vals if v is not False]
            if not vals:
                return False
            if any(isinstance(v, str) for v in vals):
                return "mask"
            return sp.Or(*vals)
        if isinstance(t, ast.UnaryOp) and isinstance(t.op, ast.Not):
            v = self.truth(t.operand)
            if v is True:
                return False
            if v is False:
                return True
            if v == "mask":
                raise Unsupported("symx: negated mask-size test at %s" % self.where(t))
            return sp.Not(v)
        # mask-size tests
        txt = norm(t)
        if isinstance(t, ast.Compare) and isinstance(t.left, ast.Attribute) and t.left.attr == "size":
            base = self.ev(t.left.value)
            if isinstance(base, Mask):
                op = t.ops[0]
                rhs = self.ev(t.comparators[0])
                if (isinstance(op, ast.Gt) and rhs == 0) or (isinstance(op, ast.NotEq) and rhs == 0) or (isinstance(op, ast.GtE) and rhs == 1):
                    return "mask"
                raise Unsupported("symx: mask-size test `%s` at %s" % (txt, self.where(t)))
        if isinstance(t, ast.Call) and call_name(t) in ("any",) and t.args:
            v = self.ev(t.args[0])
            if isinstance(v, Mask):
                return "mask"
        if isinstance(t, ast.Call) and isinstance(t.func, ast.Attribute) and t.func.attr == "any" and not t.args:
            try:
                v = self.ev(t.func.value)
            except Unsupported:
                v = None
            if isinstance(v, Mask):
                return "mask"          # `if mask.any():` guards masked updates that are no-ops for an empty mask
            if isinstance(v, (tuple, list)) and v and all(_is_expr(x) for x in v):
                xs = [_as_expr(x) for x in v]
                if all(x.is_number for x in xs):
                    return any(x != 0 for x in xs)          # a row of literal coefficients
                if any(isinstance(x, sp.Symbol) for x in xs):
                    return True                              # a generic (symbolic) entry is taken as non-zero
        v = self.ev(t)
        if isinstance(v, Mask):
            return v.cond
        if v is None or isinstance(v, (bool, int, float, str, tuple, list, dict)):
            return bool(v)
        if v is sp.true or v is sp.false:
            return bool(v)
        if isinstance(v, sp.Basic):
            if v.is_Boolean or v.is_Relational:
                return v
            if v.is_number:
                return bool(v != 0)
            return sp.Ne(v, 0)
        if isinstance(v, Opaque):
            # a test the term domain cannot see into
            if self.se.opaque_tests is not None:
                return self.se.opaque_tests
            # an uninterpreted boolean (both arms are explored and merged)
            return sp.Symbol("B_" + "".join(ch if ch.isalnum() else "_" for ch in txt)[:40])
        raise Unsupported("symx: cannot decide test `%s` at %s" % (txt, self.where(t)))

    # ---- assignment -----------------------------------------------------------
    def assign(self, t, v, st):
        if isinstance(t, ast.Name):
            if t.id in self.pins:
                return
            self.vars[t.id] = v
        elif isinstance(t, (ast.Tuple, ast.List)):
            if isinstance(v, Mask) and len(t.elts) == 1:
                self.assign(t.elts[0], v, st)      # (w,) = np.where(cond)
                return
            if isinstance(v, sp.Basic) and isinstance(v, sp.core.function.AppliedUndef):
                # result of an opaque callee unpacked into components
                v = tuple(sp.Function("%s_%d" % (v.func.__name__, i))(*v.args) for i in range(len(t.elts)))
            if not isinstance(v, (tuple, list)) or len(v) != len(t.elts):
                raise Unsupported("symx: cannot unpack %r into %s at %s" % (v, norm(t), self.where(st)))
            for e, x in zip(t.elts, v):
                self.assign(e, x, st)
        elif isinstance(t, ast.Subscript):
            base = self.ev(t.value)
            idx = self.ev_index(t.slice)
            if isinstance(idx, Mask):
                if not _is_expr(base):
                    raise Unsupported("symx: masked store into non-scalar-like value at %s" % self.where(st))
                new = sp.Piecewise((_as_expr(v), idx.cond), (base, True))
                self.assign(t.value, new, st)
            elif isinstance(idx, slice) and idx == slice(None):
                self.assign(t.value, v, st)
            elif isinstance(base, dict):
                base[idx] = v
            elif isinstance(base, tuple) and isinstance(idx, (int, sp.Integer)) and not isinstance(idx, bool) and -len(base) <= int(idx) < len(base):
                nb = list(base)
                nb[int(idx)] = v
                self.assign(t.value, nb, st)
            elif isinstance(base, (list,)) and isinstance(idx, (int, sp.Integer)):
                base[int(idx)] = v
            elif isinstance(base, list) and isinstance(idx, tuple) and len(idx) == 2 and all(isinstance(i, (int, sp.Integer)) for i in idx) \
                    and isinstance(base[int(idx[0])], list):
                base[int(idx[0])][int(idx[1])] = v
            elif _is_expr(idx) or (isinstance(idx, tuple) and all(_is_expr(i) or isinstance(i, slice) for i in idx)):
                # element store x[i] = v: remembered per (array, index)
                self.elem[(norm(t.value), _idx_key(idx))] = v
            else:
                self.assign(t.value, Opaque("indexed-store"), st)
        elif isinstance(t, ast.Attribute):
            self.vars[norm(t)] = v
        else:
            raise Unsupported("symx: assignment target %s at %s" % (type(t).__name__, self.where(st)))

    # ---- expressions ----------------------------------------------------------
    def ev_index(self, s):
        if isinstance(s, ast.Slice):
            lo = self.ev(s.lower) if s.lower is not None else None
            hi = self.ev(s.upper) if s.upper is not None else None
            stp = self.ev(s.step) if s.step is not None else None
            return slice(lo, hi, stp)
        if isinstance(s, ast.Tuple) and any(isinstance(x, ast.Slice) for x in s.elts):
            return tuple(self.ev_index(x) for x in s.elts)
        return self.ev(s)

    def ev(self, e, stmt_level=False):
        if e is None:
            return None
        if isinstance(e, ast.Constant):
            v = e.value
            if isinstance(v, bool) or v is None or isinstance(v, str):
                return v
            if isinstance(v, int):
                return sp.Integer(v)
            if isinstance(v, float):
                return _num(v)
            return v
        if isinstance(e, ast.Name):
            if e.id in self.pins:
                return self.pins[e.id]
            if e.id in self.vars:
                return self.vars[e.id]
            if e.id in self.flags:
                return self.flags[e.id]
            v = self.se.module_const(self.mod, e.id)
            if v is not None:
                return v
            if e.id in ("True", "False", "None"):
                return {"True": True, "False": False, "None": None}[e.id]
            full = self.se.repo.resolve_name(self.mod, e.id)
            if full in ("numpy.pi", "math.pi"):
                return PI
            if full.startswith("numpy.") or full.startswith("math."):
                return Opaque(full)
            if e.id in self.mod.funcs or e.id in self.mod.classes:
                return Opaque(e.id)
            raise Unsupported("symx: unknown name `%s` at %s" % (e.id, self.where(e)))
        if isinstance(e, ast.Attribute):
            k = norm(e)
            if k in self.vars:
                return self.vars[k]
            if k in self.flags:
                return self.flags[k]
            d = dotted_name(e)
            if d:
                full = self.se.repo.resolve_name(self.mod, d)
                if full in ("numpy.pi", "math.pi"):
                    return PI
                if full in ("numpy.newaxis",):
                    return None
                if full in ("numpy.inf",):
                    return sp.oo
                # constant of another package module
                parts = full.rsplit(".", 1)
                if len(parts) == 2 and parts[0] in self.se.repo.modules:
                    v = self.se.module_const(self.se.repo.modules[parts[0]], parts[1])
                    if v is not None:
                        return v
            if e.attr in ("T", "real", "flat"):
                base = self.ev(e.value)
                if e.attr == "T" and _is_matrix(base):
                    return _transpose(base)
                return base
            if e.attr == "shape":
                base = self.ev(e.value)
                if _is_matrix(base):
                    return (sp.Integer(len(base)), sp.Integer(len(base[0])))
                return Opaque(norm(e))
            if e.attr == "size":
                base = self.ev(e.value)
                if isinstance(base, (tuple, list)):
                    return sp.Integer(len(base))
                if isinstance(base, Mask):
                    return sp.Symbol("NSEL", positive=True, integer=True)
                return sp.Function("SIZE")(_as_expr(base)) if _is_expr(base) else Opaque("size")
            if e.attr in ("shape", "dtype", "ndim"):
                return Opaque(norm(e))
            base = self.ev(e.value)
            if isinstance(base, dict) and e.attr in base:
                return base[e.attr]
            return Opaque(norm(e))
        if isinstance(e, ast.UnaryOp):
            v = self.ev(e.operand)
            if isinstance(e.op, ast.USub):
                return -_as_expr(v)
            if isinstance(e.op, ast.UAdd):
                return v
            if isinstance(e.op, ast.Not):
                t = self.truth(e.operand)
                return (not t) if isinstance(t, bool) else sp.Not(t)
            if isinstance(e.op, ast.Invert):
                if isinstance(v, Mask):
                    return Mask(sp.Not(v.cond))
            raise Unsupported("symx: unary op at %s" % self.where(e))
        if isinstance(e, ast.BinOp):
            return self.binop(e.op, self.ev(e.left), self.ev(e.right), e)
        if isinstance(e, ast.BoolOp):
            t = self.truth(e)
            return t
        if isinstance(e, ast.Compare):
            return self.compare(e)
        if isinstance(e, ast.IfExp):
            t = self.truth(e.test)
            if t is True:
                return self.ev(e.body)
            if t is False:
                return self.ev(e.orelse)
            a, b = self.ev(e.body), self.ev(e.orelse)
            if _is_expr(a) and _is_expr(b) and not isinstance(t, str):
                return sp.Piecewise((a, t), (b, True))
            raise Unsupported("symx: conditional expression at %s" % self.where(e))
        if isinstance(e, (ast.Tuple, ast.List)):
            vals = [self.ev(x) for x in e.elts]
            return tuple(vals) if isinstance(e, ast.Tuple) else list(vals)
        if isinstance(e, ast.Dict):
            return {self.ev(k): self.ev(v) for k, v in zip(e.keys, e.values)}
        if isinstance(e, ast.Subscript):
            idx = self.ev_index(e.slice)
            k = (norm(e.value), _idx_key(idx))
            if k in self.elem:
                return self.elem[k]
            base = self.ev(e.value)
            return self.subscript(base, idx, e)
        if isinstance(e, ast.Call):
            return self.call(e, stmt_level)
        if isinstance(e, ast.JoinedStr):
            return Opaque("fstring")
        if isinstance(e, (ast.ListComp, ast.GeneratorExp)):
            r = self._comprehension(e)
            return r if r is not None else Opaque("comprehension")
        if isinstance(e, ast.Lambda):
            return Opaque("lambda")
        raise Unsupported("symx: expression %s at %s" % (type(e).__name__, self.where(e)))

    def _comprehension(self, e):
        """list value of a comprehension whose generators run over literal sequences and whose filters are decidable; else None"""
        saved = dict(self.vars)
        out = []
        ok = [True]

        def rec(k):
            if k == len(e.generators):
                out.append(self.ev(e.elt))
                return
            g = e.generators[k]
            try:
                it = self.ev(g.iter)
            except Unsupported:
                ok[0] = False
                return
            if not isinstance(it, (list, tuple)) or len(it) > 256:
                ok[0] = False
                return
            for v_ in it:
                try:
                    self.assign(g.target, v_, e)
                except Unsupported:
                    ok[0] = False
                    return
                keep = True
                for cnd in g.ifs:
                    t_ = self.truth(cnd)
                    if t_ is True:
                        continue
                    if t_ is False:
                        keep = False
                        break
                    ok[0] = False
                    return
                if keep:
                    rec(k + 1)
                if not ok[0]:
                    return
        try:
            rec(0)
        finally:
            self.vars = saved
        return out if ok[0] else None

    def subscript(self, base, idx, e):
        if isinstance(base, Mask):
            return base            # an element of an index set stands for the set (element-wise view)
        if isinstance(idx, Mask):
            if isinstance(base, (tuple, list)):
                self.se.issues.append((self.where(e), "`%s`: a per-point boolean mask indexes the first (component) axis of a stacked "
                                       "array of %d components; numpy raises IndexError unless the number of points equals %d"
                                       % (norm(e), len(base), len(base))))
                return tuple(base)
            return base          # y[w] under the mask is y element-wise
        if isinstance(base, (tuple, list)):
            if isinstance(idx, sp.Integer) or isinstance(idx, int):
                return base[int(idx)]
            if isinstance(idx, slice):
                return base[idx]
            if isinstance(idx, tuple):
                # A[:, w] etc: select along second axis with a mask -> element-wise
                if len(idx) == 2 and idx[0] == slice(None) and isinstance(idx[1], Mask):
                    return tuple(base)
                if len(idx) == 2 and isinstance(idx[0], (int, sp.Integer)):
                    return self.subscript(base[int(idx[0])], idx[1], e)
        if isinstance(base, dict):
            if idx in base:
                return base[idx]
            raise Unsupported("symx: key %r not in dict at %s" % (idx, self.where(e)))
        if isinstance(base, str):
            return base[idx] if isinstance(idx, (int, slice)) else base[int(idx)]
        if isinstance(idx, slice) and idx == slice(None):
            return base
        if _is_expr(base):
            if isinstance(idx, tuple):
                # newaxis / ellipsis style broadcasting subscripts keep the element-wise value
                if all(i is None or i == slice(None) or i is Ellipsis for i in idx):
                    return base
            if idx is None:
                return base
            if _is_expr(idx):
                return sp.Function("AT")(_as_expr(base), _as_expr(idx))
            if isinstance(idx, tuple) and all(_is_expr(i) for i in idx):
                return sp.Function("AT")(_as_expr(base), *[_as_expr(i) for i in idx])
            if isinstance(idx, tuple) and any(isinstance(i, Mask) for i in idx):
                return base
            if isinstance(idx, slice):
                return sp.Function("SLICE")(_as_expr(base), *[_as_expr(x) if x is not None else sp.Symbol("None") for x in (idx.start, idx.stop, idx.step)])
        if isinstance(base, Opaque):
            return Opaque("%s[...]" % base.what)
        raise Unsupported("symx: subscript `%s` at %s" % (norm(e), self.where(e)))

    def compare(self, e):
        if len(e.ops) != 1:
            # a < b < c  ==  (a < b) and (b < c)
            parts = []
            left = e.left
            for op_, right in zip(e.ops, e.comparators):
                parts.append(ast.copy_location(ast.Compare(left=left, ops=[op_], comparators=[right]), e))
                left = right
            vals = [self.compare(p_) for p_ in parts]
            if any(v is False for v in vals):
                return False
            vals = [v for v in vals if v is not True]
            if not vals:
                return True
            if all(isinstance(v, Mask) for v in vals):
                return Mask(sp.And(*[v.cond for v in vals]))
            raise Unsupported("symx: chained comparison at %s" % self.where(e))
        a, b = self.ev(e.left), self.ev(e.comparators[0])
        op = e.ops[0]
        if isinstance(op, (ast.Is, ast.IsNot)):
            r = (a is b) or (a is None and b is None) or (isinstance(a, bool) and a == b and isinstance(b, bool))
            if _is_expr(a) and b is None:
                r = False
            if _is_expr(b) and a is None:
                r = False
            return r if isinstance(op, ast.Is) else (not r)
        if isinstance(op, (ast.In, ast.NotIn)):
            if isinstance(b, (tuple, list, dict, str)) and not _is_expr(a):
                r = a in b
                return r if isinstance(op, ast.In) else (not r)
            if isinstance(b, (tuple, list)) and _is_expr(a) and _as_expr(a).is_number and all(_is_expr(x) and _as_expr(x).is_number for x in b):
                r = any(_as_expr(a) == _as_expr(x) for x in b)
                return r if isinstance(op, ast.In) else (not r)
            raise Unsupported("symx: membership test at %s" % self.where(e))
        pyconst = lambda x: isinstance(x, (str, bool)) or x is None
        if pyconst(a) or pyconst(b):
            if isinstance(op, ast.Eq):
                return a == b
            if isinstance(op, ast.NotEq):
                return a != b
        if isinstance(a, (tuple, list)) or isinstance(b, (tuple, list)):
            if isinstance(op, ast.Eq):
                return a == b
            raise Unsupported("symx: sequence comparison at %s" % self.where(e))
        if isinstance(a, Opaque) or isinstance(b, Opaque):
            return Opaque("cmp(%s)" % norm(e))
        if not (_is_expr(a) and _is_expr(b)):
            raise Unsupported("symx: comparison of %r and %r at %s" % (a, b, self.where(e)))
        a, b = _as_expr(a), _as_expr(b)
        rel = {ast.Lt: sp.Lt, ast.LtE: sp.Le, ast.Gt: sp.Gt, ast.GtE: sp.Ge, ast.Eq: sp.Eq, ast.NotEq: sp.Ne}[type(op)](a, b)
        if rel is sp.true or rel is sp.false:
            return bool(rel)
        return Mask(rel)

    def binop(self, op, a, b, node):
        if isinstance(a, Mask) and isinstance(b, Mask):
            if isinstance(op, ast.BitAnd):
                return Mask(sp.And(a.cond, b.cond))
            if isinstance(op, ast.BitOr):
                return Mask(sp.Or(a.cond, b.cond))
        if isinstance(op, ast.Add) and isinstance(a, (list, tuple, str)) and isinstance(b, type(a)):
            if not isinstance(a, str) and len(a) == len(b) and len(a) > 0 and all(_is_expr(x) for x in a) and all(_is_expr(x) for x in b) \
                    and isinstance(node, ast.BinOp) and not isinstance(node.left, (ast.List, ast.Tuple)) and not isinstance(node.right, (ast.List, ast.Tuple)):
                # two equally long numeric sequences that are not list displays: arrays, added element by element
                return tuple(self.binop(op, x, y, node) for x, y in zip(a, b))
            return a + b
        if isinstance(op, ast.Mult) and isinstance(a, (list,)) and isinstance(b, (int, sp.Integer)):
            return a * int(b)
        if isinstance(op, ast.Mult) and isinstance(b, (list,)) and isinstance(a, (int, sp.Integer)):
            return b * int(a)
        if isinstance(op, ast.Mod) and isinstance(a, str):
            args_ = b if isinstance(b, tuple) else (b,)
            conc = []
            for x in args_:
                if isinstance(x, str):
                    conc.append(x)
                elif isinstance(x, (int, sp.Integer)) and not isinstance(x, bool):
                    conc.append(int(x))
                else:
                    conc = None
                    break
            if conc is not None:
                try:
                    return a % tuple(conc)
                except (TypeError, ValueError):
                    pass
            return Opaque("format")
        if isinstance(a, (tuple, list)) and _is_expr(b):
            return tuple(self.binop(op, x, b, node) for x in a)
        if isinstance(b, (tuple, list)) and _is_expr(a):
            return tuple(self.binop(op, a, x, node) for x in b)
        if isinstance(a, (tuple, list)) and isinstance(b, (tuple, list)) and len(a) == len(b):
            return tuple(self.binop(op, x, y, node) for x, y in zip(a, b))
        if not (_is_expr(a) and _is_expr(b)):
            if isinstance(a, Opaque) or isinstance(b, Opaque):
                return Opaque("binop")
            raise Unsupported("symx: arithmetic on %r and %r at %s" % (a, b, self.where(node)))
        a, b = _as_expr(a), _as_expr(b)
        if isinstance(op, ast.Add):
            return a + b
        if isinstance(op, ast.Sub):
            return a - b
        if isinstance(op, ast.Mult):
            return a * b
        if isinstance(op, ast.Div):
            return a / b
        if isinstance(op, ast.Pow):
            return a ** b
        if isinstance(op, ast.Mod):
            return sp.Mod(a, b)
        if isinstance(op, ast.FloorDiv):
            return sp.floor(a / b)
        if isinstance(op, ast.MatMult):
            return sp.Function("MATMUL")(a, b)
        raise Unsupported("symx: operator %s at %s" % (type(op).__name__, self.where(node)))

    # ---- calls ------------------------------------------------------------
    def call(self, c, stmt_level=False):
        f = c.func
        nm = call_name(c)
        d = dotted_name(f)
        full = self.se.repo.resolve_name(self.mod, d) if d else ""
        is_np = full.startswith("numpy") or full.startswith("math.") or full.startswith("scipy")
        args = None

        def A(i=None):
            nonlocal args
            if args is None:
                args = [self.ev(a) for a in c.args]
            return args if i is None else (args[i] if i < len(args) else None)

        if is_np or (isinstance(f, ast.Name) and nm in UNARY and nm not in self.vars and full.startswith(("numpy", "math"))):
            if nm in UNARY and len(c.args) >= 1:
                x = A(0)
                r = _map(UNARY[nm], x)
                out = c.args[1] if len(c.args) >= 2 else kwarg(c, "out")
                if out is not None:
                    self.assign(out, r, c)
                return r
            if nm in ("deg2rad", "radians"):
                r = _map(lambda x: x * PI / 180, A(0))
                out = c.args[1] if len(c.args) >= 2 else kwarg(c, "out")
                if out is not None:
                    self.assign(out, r, c)
                return r
            if nm in ("rad2deg", "degrees"):
                r = _map(lambda x: x * 180 / PI, A(0))
                out = c.args[1] if len(c.args) >= 2 else kwarg(c, "out")
                if out is not None:
                    self.assign(out, r, c)
                return r
            if nm in ("arctan2", "atan2"):
                r = sp.atan2(_as_expr(A(0)), _as_expr(A(1)))
                out = c.args[2] if len(c.args) >= 3 else kwarg(c, "out")
                if out is not None:
                    self.assign(out, r, c)
                return r
            if nm in IDENTITY_FUNCS and c.args:
                if nm == "float32":
                    return _convert(A(0), "narrow")
                if nm in ("array", "asarray", "asanyarray", "ascontiguousarray"):
                    dt = kwarg(c, "dtype") or (c.args[1] if len(c.args) >= 2 else None)
                    return _convert(A(0), _dtype_class(dt))
                return A(0)
            if nm in ("multiply", "add", "subtract", "divide", "power", "mod", "fmod"):
                op = {"multiply": ast.Mult(), "add": ast.Add(), "subtract": ast.Sub(), "divide": ast.Div(), "power": ast.Pow(), "mod": ast.Mod(), "fmod": ast.Mod()}[nm]
                r = self.binop(op, A(0), A(1), c)
                out = c.args[2] if len(c.args) >= 3 else kwarg(c, "out")
                if out is not None:
                    self.assign(out, r, c)
                return r
            if nm == "where":
                if len(c.args) == 1:
                    m = A(0)
                    if isinstance(m, Mask):
                        return m
                    if m is True or m is False:
                        return Mask(sp.true if m else sp.false)
                    raise Unsupported("symx: where() of non-condition at %s" % self.where(c))
                m, a, b = A(0), A(1), A(2)
                if isinstance(m, Mask):
                    return sp.Piecewise((_as_expr(a), m.cond), (_as_expr(b), True))
            if nm in ("minimum", "maximum", "fmin", "fmax") and len(c.args) >= 2 and _is_expr(A(0)) and _is_expr(A(1)):
                r = (sp.Min if nm in ("minimum", "fmin") else sp.Max)(_as_expr(A(0)), _as_expr(A(1)))
                out = c.args[2] if len(c.args) >= 3 else kwarg(c, "out")
                if out is not None:
                    self.assign(out, r, c)
                return r
            if nm == "clip":
                x, lo, hi = A(0), A(1), A(2)
                r = sp.Function("CLIP")(_as_expr(x), _as_expr(lo), _as_expr(hi))
                out = c.args[3] if len(c.args) >= 4 else kwarg(c, "out")
                if out is not None:
                    self.assign(out, r, c)
                return r
            if nm == "cross":
                a, b = A(0), A(1)
                if isinstance(a, (tuple, list)) and isinstance(b, (tuple, list)) and len(a) == 3 and len(b) == 3:
                    a = [_as_expr(x) for x in a]
                    b = [_as_expr(x) for x in b]
                    return (a[1] * b[2] - a[2] * b[1], a[2] * b[0] - a[0] * b[2], a[0] * b[1] - a[1] * b[0])
            if nm in ("any", "all"):
                return Opaque(nm)
            if nm in REDUCE and c.args:
                return sp.Function(REDUCE[nm])(_as_expr(A(0)))
            if nm in ("zeros", "ones") and c.args and isinstance(A(0), (tuple, list)) and len(A(0)) == 2 \
                    and all(isinstance(x, (int, sp.Integer)) for x in A(0)) and all(0 < int(x) <= 16 for x in A(0)):
                fillv = sp.Integer(1 if nm == "ones" else 0)
                return [[fillv for _ in range(int(A(0)[1]))] for _ in range(int(A(0)[0]))]
            if nm in ("zeros", "ones") and c.args and isinstance(A(0), (int, sp.Integer)) and not isinstance(A(0), bool) and 0 < int(A(0)) <= 16:
                return [sp.Integer(1 if nm == "ones" else 0) for _ in range(int(A(0)))]
            if nm == "inv" and c.args and _is_matrix(A(0)) and len(A(0)) == len(A(0)[0]) <= 3:
                mi = sp.Matrix([[_as_expr(x) for x in row] for row in A(0)]).inv()
                return tuple(tuple(sp.simplify(mi[i, j]) for j in range(mi.shape[1])) for i in range(mi.shape[0]))
            if nm in ("inner", "solve") and len(c.args) == 2 and all(_is_expr(x) for x in A()):
                return sp.Function(nm.upper())(*[_as_expr(x) for x in A()])
            if nm in ("zeros", "ones", "empty", "zeros_like", "ones_like", "full"):
                if nm in ("ones", "ones_like"):
                    return sp.Integer(1)
                if nm == "full":
                    return A(1)
                return sp.Integer(0)
            if nm == "arange":
                return sp.Function("ARANGE")(*[_as_expr(x) for x in A() if _is_expr(x)])
            if nm in ("isscalar", "ndim", "isfinite", "isnan"):
                return Opaque(nm)
            if nm == "int64" or nm == "int":
                return sp.Function("INT")(_as_expr(A(0)))
            if nm == "dot" and len(c.args) == 2:
                return sp.Function("DOT")(_as_expr(A(0)), _as_expr(A(1)))
            if nm == "searchsorted":
                return sp.Function("SEARCHSORTED")(*[_as_expr(x) for x in A()[:2]])
            if nm in ("diag", "outer", "meshgrid", "linspace", "unique", "argsort", "lexsort", "cumsum", "interp", "trapz", "argmax", "argmin"):
                return sp.Function(nm.upper())(*[_as_expr(x) for x in A() if _is_expr(x)])
            return Opaque(full or nm)
        if full == "itertools.product" and c.args:
            xs = A()
            rep = kwarg(c, "repeat")
            if all(isinstance(x, (tuple, list)) for x in xs):
                import itertools as _it
                r_ = int(self.ev(rep)) if rep is not None else 1
                return [tuple(t_) for t_ in _it.product(*xs, repeat=r_)]
        # builtins
        if isinstance(f, ast.Name) and f.id not in self.vars:
            if f.id in ("float", "int") and c.args:
                x = A(0)
                if isinstance(x, bool):
                    return sp.Integer(int(x))
                if f.id == "int" and _is_expr(x) and not _as_expr(x).is_number:
                    return sp.Function("INT")(_as_expr(x))
                if f.id == "int" and _is_expr(x):
                    return sp.Integer(int(x))
                return x
            if f.id == "len" and c.args:
                x = A(0)
                if isinstance(x, (tuple, list, dict, str)):
                    return sp.Integer(len(x))
                return sp.Function("LEN")(_as_expr(x)) if _is_expr(x) else Opaque("len")
            if f.id == "range":
                xs = [int(x) for x in A() if _is_expr(x) and _as_expr(x).is_Integer]
                if len(xs) == len(c.args):
                    return tuple(sp.Integer(i) for i in range(*xs))
                return Opaque("range")
            if f.id == "str" and len(c.args) == 1:
                x = A(0)
                if isinstance(x, (int, sp.Integer)) and not isinstance(x, bool):
                    return str(int(x))
                if isinstance(x, str):
                    return x
            if f.id in ("isinstance", "hasattr", "print", "str", "repr", "type", "id", "callable"):
                return Opaque(f.id)
            if f.id in ("tuple", "list") and c.args:
                x = A(0)
                return tuple(x) if f.id == "tuple" and isinstance(x, (tuple, list)) else (list(x) if isinstance(x, (tuple, list)) else x)
            if f.id == "abs":
                return sp.Abs(_as_expr(A(0)))
            if f.id in ("min", "max") and len(c.args) >= 2:
                return (sp.Min if f.id == "min" else sp.Max)(*[_as_expr(x) for x in A()])
            if f.id == "divmod":
                a, b = _as_expr(A(0)), _as_expr(A(1))
                return (sp.floor(a / b), sp.Mod(a, b))
            if f.id == "product" and c.args:
                xs = A()
                rep = kwarg(c, "repeat")
                if all(isinstance(x, (tuple, list)) for x in xs):
                    import itertools as _it
                    r_ = int(self.ev(rep)) if rep is not None else 1
                    return [tuple(t_) for t_ in _it.product(*xs, repeat=r_)]
            if f.id == "bool" and len(c.args) == 1:
                t_ = self.truth(c.args[0])
                if t_ is True or t_ is False:
                    return t_
                if isinstance(t_, sp.Basic):
                    return Mask(t_)
            if f.id == "enumerate" and c.args:
                xs = A(0)
                st_ = kwarg(c, "start")
                k0 = self.ev(st_) if st_ is not None else (A(1) if len(c.args) > 1 else 0)
                if isinstance(xs, (tuple, list)) and isinstance(k0, (int, sp.Integer)):
                    return [(sp.Integer(int(k0) + i_), x_) for i_, x_ in enumerate(xs)]
            if f.id == "zip":
                xs = A()
                if all(isinstance(x, (tuple, list)) for x in xs):
                    return tuple(zip(*xs))
        # methods
        if isinstance(f, ast.Attribute):
            recv_node = f.value
            if nm in ("upper", "lower", "strip", "replace", "keys", "transpose", "copy"):
                try:
                    rv = self.ev(recv_node)
                except Unsupported:
                    rv = None
                if isinstance(rv, str) and nm in ("upper", "lower", "strip", "replace"):
                    sargs = A()
                    if all(isinstance(x, str) for x in sargs):
                        return getattr(rv, nm)(*sargs)
                if isinstance(rv, dict) and nm == "keys":
                    return list(rv.keys())
                if isinstance(rv, dict) and nm == "copy":
                    return dict(rv)
                if _is_matrix(rv) and nm == "transpose" and not c.args:
                    return _transpose(rv)
            if nm in IDENTITY_METHODS:
                if nm == "astype":
                    dt = c.args[0] if c.args else kwarg(c, "dtype")
                    return _convert(self.ev(recv_node), _dtype_class(dt))
                return self.ev(recv_node)
            if nm == "clip":
                x = self.ev(recv_node)
                lo, hi = A(0), A(1)
                r = sp.Function("CLIP")(_as_expr(x), _as_expr(lo), _as_expr(hi))
                out = kwarg(c, "out")
                if out is not None:
                    self.assign(out, r, c)
                return r
            if nm in REDUCE:
                x = self.ev(recv_node)
                if _is_expr(x):
                    return sp.Function(REDUCE[nm])(_as_expr(x))
            if nm == "searchsorted":
                x = self.ev(recv_node)
                if _is_expr(x):
                    return sp.Function("SEARCHSORTED")(_as_expr(x), _as_expr(A(0)))
            if nm == "argsort":
                x = self.ev(recv_node)
                if _is_expr(x):
                    return sp.Function("ARGSORT")(_as_expr(x))
            if nm == "get":
                base = self.ev(recv_node)
                if isinstance(base, dict):
                    k = A(0)
                    return base.get(k, A(1) if len(c.args) > 1 else None)
            if nm in ("keys", "items", "values", "lower", "upper", "format", "write", "append", "fill", "any", "all"):
                if nm == "fill":
                    self.assign(recv_node, A(0), c)
                    return None
                return Opaque(nm)
            if nm in ("uniform", "random", "normal", "random_sample", "standard_normal"):
                # a draw from a generator: a fresh uninterpreted deviate per call site, remembering its arguments
                lo, hi = kwarg(c, "low"), kwarg(c, "high")
                parts = [_as_expr(self.ev(x)) for x in c.args[:2] if x is not None]
                if lo is not None and hi is not None:
                    parts = [_as_expr(self.ev(lo)), _as_expr(self.ev(hi))]
                self.se._draws = getattr(self.se, "_draws", 0) + 1
                u = sp.Symbol("U%d" % self.se._draws)
                self.se.notes.append(("draw", nm, norm(recv_node), tuple(parts), norm(kwarg(c, "size")) if kwarg(c, "size") is not None else None, str(u)))
                if nm in ("uniform",) and len(parts) == 2:
                    return parts[0] + (parts[1] - parts[0]) * u
                return u
        # package callee
        tgt = None
        selfcall = False
        if d:
            if self.se.repo.has(full):
                tgt = self.se.repo.func(full)
            elif d.startswith("self.") and d.count(".") == 1 and self.fi is not None and self.fi.cls:
                cand = "%s.%s.%s" % (self.fi.module.name, self.fi.cls, d[5:])
                if self.se.repo.has(cand):
                    tgt = self.se.repo.func(cand)
                    full = cand
                    selfcall = True
        if tgt is not None and selfcall:
            if full in self.se.opaque or self.depth >= self.se.inline_depth:
                vals = [_opaque_arg(x) for x in A() if _is_expr(x) or _is_matrix(x)]
                kws = [sp.Function("KW_" + k.arg)(_opaque_arg(self.ev(k.value))) for k in c.keywords
                       if k.arg and (_is_expr(self.ev(k.value)) or isinstance(self.ev(k.value), bool))]
                return sp.Function(tgt.name)(*(vals + kws))
            is_static = any(isinstance(d_, ast.Name) and d_.id == "staticmethod" for d_ in tgt.node.decorator_list)
            params = [p for p in tgt.params if not p.startswith("*")][0 if is_static else 1:]
            bind = {}
            for p, a in zip(params, A()):
                bind[p] = a
            for k in c.keywords:
                if k.arg:
                    bind[k.arg] = self.ev(k.value)
            # object state (self.* entries) is shared with the callee and its updates are visible afterwards
            for k2, v2 in self.vars.items():
                if k2 == "self" or k2.startswith("self."):
                    bind[k2] = v2
            bind.setdefault("self", Opaque("self"))
            env = type(self)(self.se, tgt, tgt.module, dict(bind), {}, depth=self.depth + 1)
            for p in tgt.params:
                pn = p.lstrip("*")
                if pn not in env.vars and pn in tgt.defaults:
                    env.vars[pn] = env.ev(tgt.defaults[pn])
            self.se.notes.append(("selfcall", self.fi.qualname, tgt.qualname, tuple(sorted(k3 for k3 in bind if not k3.startswith("self")))))
            rets = env.exec_body(tgt.node.body, sp.true)
            env.finish_returns(rets)
            for k2, v2 in env.vars.items():
                if k2.startswith("self."):
                    self.vars[k2] = v2
            return env.result
        if tgt is not None:
            if full in self.se.opaque or tgt.qualname in self.se.opaque or self.depth >= self.se.inline_depth:
                vals = [_as_expr(x) for x in A() if _is_expr(x)]
                r = sp.Function(tgt.name)(*vals)
                # opaque helpers that fold their first argument(s) in place
                if stmt_level and c.args and isinstance(c.args[0], ast.Name):
                    self.assign(c.args[0], sp.Function(tgt.name)(*vals), c)
                return r
            params = [p for p in tgt.params if not p.startswith("*")]
            bind = {}
            for p, a in zip(params, A()):
                bind[p] = a
            for k in c.keywords:
                if k.arg:
                    bind[k.arg] = self.ev(k.value)
            sub = SymEval.__new__(SymEval)
            sub.__dict__ = self.se.__dict__
            env = type(self)(self.se, tgt, tgt.module, dict(bind), {}, depth=self.depth + 1)
            for p in tgt.params:
                pn = p.lstrip("*")
                if pn not in env.vars and pn in tgt.defaults:
                    env.vars[pn] = env.ev(tgt.defaults[pn])
            rets = env.exec_body(tgt.node.body, sp.true)
            env.finish_returns(rets)
            # in-place updates of arguments made by the callee are visible to the caller
            for p, a in zip(params, c.args):
                if isinstance(a, ast.Name) and p in env.vars and not _same(env.vars[p], bind.get(p)) and _is_expr(env.vars[p]) and p in _inplace_params(tgt):
                    self.vars[a.id] = env.vars[p]
            return env.result
        if isinstance(f, ast.Name) and f.id in self.vars and isinstance(self.vars[f.id], Opaque):
            return sp.Function(f.id)(*[_as_expr(x) for x in A() if _is_expr(x)])
        if isinstance(f, ast.Name) and f.id in self.vars and _is_expr(self.vars[f.id]) and isinstance(self.vars[f.id], sp.Symbol):
            return sp.Function(str(self.vars[f.id]))(*[_as_expr(x) for x in A() if _is_expr(x)])
        if isinstance(f, ast.Attribute) and getattr(self.se, "self_calls_as_terms", False) and (
                (isinstance(f.value, ast.Name) and f.value.id == "self") or
                (isinstance(f.value, ast.Call) and isinstance(f.value.func, ast.Name) and f.value.func.id == "super")):
            def _oa(x):
                if x is None:
                    return sp.Symbol("NONE")
                if isinstance(x, (list, tuple)) and not _is_matrix(x):
                    return sp.Function("SEQ")(*[_oa(e) for e in x])
                if isinstance(x, Opaque):
                    return sp.Symbol("OPAQUE[%s]" % x.what)
                if isinstance(x, str):
                    return sp.Symbol("STR[%s]" % x)
                return _opaque_arg(x)
            try:
                return sp.Function("SELF_" + f.attr)(*([_oa(x) for x in A()] + [sp.Function("KW_" + k.arg)(_oa(self.ev(k.value))) for k in c.keywords if k.arg]))
            except Exception:
                return Opaque("%s(...)" % norm(f))
        if isinstance(f, ast.Attribute):
            return Opaque("%s(...)" % norm(f))
        raise Unsupported("symx: call `%s` at %s" % (norm(c)[:60], self.where(c)))


_inplace_cache = {}


def _inplace_params(fi):
    """parameters a function updates in place (subscript stores / out= ufuncs / augmented assignment)"""
    if fi.qualname in _inplace_cache:
        return _inplace_cache[fi.qualname]
    out = set()
    ps = set(p.lstrip("*") for p in fi.params)
    for x in ast.walk(fi.node):
        if isinstance(x, (ast.Assign, ast.AugAssign)):
            ts = x.targets if isinstance(x, ast.Assign) else [x.target]
            for t in ts:
                if isinstance(t, ast.Subscript) and isinstance(t.value, ast.Name) and t.value.id in ps:
                    out.add(t.value.id)
                if isinstance(x, ast.AugAssign) and isinstance(t, ast.Name) and t.id in ps:
                    out.add(t.id)
        if isinstance(x, ast.Call):
            o = kwarg(x, "out")
            cands = [o] if o is not None else []
            if call_name(x) in ("deg2rad", "rad2deg", "sin", "cos", "sqrt") and len(x.args) >= 2:
                cands.append(x.args[1])
            for cnd in cands:
                if isinstance(cnd, ast.Name) and cnd.id in ps:
                    out.add(cnd.id)
            if call_name(x) in ("atbound", "atbound2"):
                for a in x.args[:2 if call_name(x) == "atbound2" else 1]:
                    if isinstance(a, ast.Name) and a.id in ps:
                        out.add(a.id)
    _inplace_cache[fi.qualname] = out
    return out


def _opaque_arg(x):
    if isinstance(x, bool):
        return sp.Symbol("TRUE" if x else "FALSE")
    if _is_matrix(x):
        return sp.Function("MAT%dx%d" % (len(x), len(x[0])))(*[_as_expr(e) for row in x for e in row])
    return _as_expr(x)


def _zero_test(c):
    """(symbol, True) for a condition `s == 0`, (symbol, False) for `s != 0`, else None"""
    if isinstance(c, (sp.Eq, sp.Ne)) and c.rhs == 0 and isinstance(c.lhs, sp.Symbol):
        return c.lhs, isinstance(c, sp.Eq)
    if isinstance(c, (sp.Eq, sp.Ne)) and c.lhs == 0 and isinstance(c.rhs, sp.Symbol):
        return c.rhs, isinstance(c, sp.Eq)
    return None


def _agree_at_zero(a, b, z):
    """a is the value under the condition, b the value otherwise; z = (symbol, cond_is_eq)"""
    sym, is_eq = z
    at_zero, general = (a, b) if is_eq else (b, a)
    try:
        return sp.expand(general.subs(sym, 0) - at_zero) == 0
    except Exception:
        return False


def _continue_to_else(stmts):
    """`if c: ...; continue` followed by more statements  ==  `if c: ... else: <the rest>` (guard clauses in loop bodies)"""
    out = []
    for i, st in enumerate(stmts):
        if isinstance(st, ast.If) and st.body and isinstance(st.body[-1], ast.Continue) and not st.orelse and i + 1 < len(stmts):
            rest = _continue_to_else(stmts[i + 1:])
            new = ast.If(test=st.test, body=(st.body[:-1] or [ast.Pass()]), orelse=rest)
            ast.copy_location(new, st)
            out.append(new)
            return out
        out.append(st)
    return out


def _is_matrix(v):
    return isinstance(v, (tuple, list)) and len(v) > 0 and all(isinstance(r, (tuple, list)) for r in v) and len({len(r) for r in v}) == 1


def _transpose(m):
    return tuple(tuple(m[i][j] for i in range(len(m))) for j in range(len(m[0])))


def _idx_key(idx):
    if isinstance(idx, tuple):
        return tuple(_idx_key(i) for i in idx)
    if isinstance(idx, slice):
        return ("slice", str(idx.start), str(idx.stop), str(idx.step))
    return str(idx)


def _load(t):
    import copy
    t2 = copy.deepcopy(t)
    for x in ast.walk(t2):
        if hasattr(x, "ctx"):
            x.ctx = ast.Load()
    return t2


def _num(v):
    """float literal -> exact rational when it is short, else a high-precision Float"""
    r = sp.Rational(repr(v))
    return r


def _is_expr(v):
    return isinstance(v, (sp.Basic, int, float)) and not isinstance(v, bool)


def _as_expr(v):
    if isinstance(v, sp.Basic):
        return v
    if isinstance(v, bool):
        raise Unsupported("symx: boolean used as number")
    if isinstance(v, int):
        return sp.Integer(v)
    if isinstance(v, float):
        return _num(v)
    if isinstance(v, Mask):
        return sp.Piecewise((1, v.cond), (0, True))
    if v is None:
        return sp.Symbol("None")
    if isinstance(v, Opaque):
        return sp.Symbol("OPAQUE_" + "".join(ch if ch.isalnum() else "_" for ch in v.what))
    if isinstance(v, (tuple, list)):
        return sp.Tuple(*[_as_expr(x) for x in v])
    raise Unsupported("symx: %r is not a numeric term" % (v,))


def _map(fn, x):
    if isinstance(x, (tuple, list)):
        return tuple(_map(fn, y) for y in x)
    return fn(_as_expr(x))


def _same(a, b):
    try:
        if isinstance(a, sp.Basic) and isinstance(b, sp.Basic):
            return a == b
        return a is b or a == b
    except Exception:
        return False


# --------------------------------------------------------------------------
# comparison of terms
# --------------------------------------------------------------------------

class _Timeout(Exception):
    pass


def _with_timeout(fn, seconds):
    """run fn under a limit of `seconds` of this process's own CPU time (not wall-clock time: the verdict must not depend on how
    busy the machine is)"""
    import signal

    def handler(signum, frame):
        raise _Timeout()
    try:
        old = signal.signal(signal.SIGVTALRM, handler)
    except ValueError:          # not in the main thread
        return fn()
    signal.setitimer(signal.ITIMER_VIRTUAL, seconds)
    try:
        return fn()
    finally:
        signal.setitimer(signal.ITIMER_VIRTUAL, 0)
        signal.signal(signal.SIGVTALRM, old)


def skeleton(e, table):
    """canonical algebraic skeleton: every non-arithmetic application f(args) is replaced by one symbol per distinct
    (f, canonical args); the remaining rational expression is put in cancelled form.  Two terms with equal skeletons are
    equal as terms modulo field arithmetic (no function-specific identity is used)."""
    e = sp.sympify(e)
    if e.is_Atom:
        return e
    if isinstance(e, (sp.Add, sp.Mul)):
        return e.func(*[skeleton(a, table) for a in e.args])
    if isinstance(e, sp.Pow):
        b, x = e.args
        if x.is_Integer:
            return sp.Pow(skeleton(b, table), x)
        if x.is_Rational:
            # sqrt and friends: canonical base split into numerator and denominator (quantities under a root are taken
            # as positive: sqrt(1/q) == 1/sqrt(q)), then one symbol per (part, |exponent|)
            cb = _canon(skeleton(b, table))
            nu, de = sp.fraction(cb)
            if x < 0:
                nu, de, x = de, nu, -x
            out = sp.Integer(1)
            if nu != 1:
                out = out * _sym(table, ("pow", nu, x))
            if de != 1:
                out = out / _sym(table, ("pow", de, x))
            return out
        return _sym(table, ("pow", _canon(skeleton(b, table)), _canon(skeleton(x, table))))
    if isinstance(e, sp.Piecewise):
        parts = []
        for v, c in e.args:
            parts.append((_canon(skeleton(v, table)), _canon_cond(c, table)))
        return _sym(table, ("piecewise", tuple(parts)))
    if isinstance(e, (sp.Rel, sp.And, sp.Or, sp.Not)) or e is sp.true or e is sp.false:
        return _canon_cond(e, table)
    args = tuple(_canon(skeleton(a, table)) for a in e.args)
    return _sym(table, (e.func.__name__, args))


def _canon(e):
    try:
        return sp.cancel(sp.together(sp.expand(e)))
    except Exception:
        return e


def _canon_cond(c, table):
    if c is sp.true or c is sp.false or c == True or c == False:   # noqa
        return c
    if isinstance(c, sp.Rel):
        d = _canon(skeleton(c.lhs - c.rhs, table))
        op = type(c).__name__
        # orient: leading coefficient positive
        try:
            lead = sp.Poly(sp.numer(d)).LC() if sp.numer(d).free_symbols else sp.numer(d)
            if lead.is_number and lead < 0:
                d = -d
                op = {"StrictGreaterThan": "StrictLessThan", "StrictLessThan": "StrictGreaterThan", "GreaterThan": "LessThan",
                      "LessThan": "GreaterThan"}.get(op, op)
        except Exception:
            pass
        return _sym(table, ("rel", op, d))
    if isinstance(c, (sp.And, sp.Or)):
        return _sym(table, (type(c).__name__, tuple(sorted((str(_canon_cond(a, table)) for a in c.args)))))
    if isinstance(c, sp.Not):
        return _sym(table, ("not", str(_canon_cond(c.args[0], table))))
    return _sym(table, ("cond", str(c)))


def _sym(table, key):
    k = str(key)
    if k not in table:
        table[k] = sp.Symbol("K%d" % len(table))
    return table[k]


def equal(a, b, assumptions=None):
    """equality of two terms after normalisation; returns (bool, a normal form of the difference).
    1. structural; 2. algebraic skeleton (field arithmetic only, cheap); 3. sympy.simplify under a time limit
    (function identities such as trigonometric addition formulas)."""
    a, b = sp.sympify(a), sp.sympify(b)
    if a == b:
        return True, sp.Integer(0)
    table = {}
    try:
        sa, sb = skeleton(a, table), skeleton(b, table)
        d = _canon(sa - sb)
        if d == 0:
            return True, sp.Integer(0)
    except Exception:
        pass
    d2 = a - b
    for f in (sp.expand, lambda x: sp.trigsimp(sp.expand_trig(x)), sp.simplify):
        try:
            z = _with_timeout(lambda: f(a - b), 3.0)
        except _Timeout:
            continue
        except Exception:
            continue
        if z == 0:
            return True, sp.Integer(0)
        d2 = z
    return False, d2


def symbols(*names, **kw):
    return sp.symbols(" ".join(names), real=True, **kw)
