"""C09 -- celestial coordinate conversions: rotation tables, Euler core, ranges,
wrappers, unit-vector and SDSS conversions, longitude shifting."""
import ast
import os

import mpmath as mp
import sympy as sp

from vcheck import pat, rules, symx
from vcheck.core import PyRepo, AnalysisError, call_name, const_value, dotted_name, kwarg, norm, walk_no_nested
from vcheck.rules import cfg_of

MANIFEST = dict(
    text="Constant-table validation plus formula conformance by symbolic normal forms (not numerical testing): (1) the two epochs' "
         "Euler rotation tables are read from the AST and checked in 30-digit arithmetic: inverse selector pairs have psi/phi exchanged, "
         "stheta negated and ctheta equal, |s^2+c^2-1| <= 1e-9, and the entries agree within 1e-7 rad with the documented J2000 pole/node "
         "constants (all three pairs) and the standard B1950 galactic pole / obliquity; (2) the Euler core and the zxz rotation are "
         "abstractly interpreted to terms for every selector and epoch and compared with the astrolib definition; the asin argument must "
         "be clamped on both sides; the output longitude is a positive-offset modulo 2pi (range [0,360)); (3) the six wrappers map to "
         "selectors 1..6 and forward epoch and dtype; (4) unit-vector conversions and their range fold carry the units of the chosen "
         "option; SDSS node/pole constants and formulas; range checks raise; (5) longitude shifting wraps with >= at the open upper end.",
    note="Not decided: 1e-5 / 1e-9 degree tolerances, isometry numerically; B1950 ecliptic<->galactic constants are not documented in "
         "the source (relations only). Trusted: sympy normaliser, mpmath.",
    technique="static analysis: literal-table validation in exact/high-precision arithmetic, abstract interpretation over a symbolic term domain with normal-form comparison",
)

CO = "esutil.coords."
# documented constants (source comments of euler(), Hipparcos explanatory supplement) and the standard B1950 values
REF = {
    "J2000": dict(eps="23.4392911111", alphaG="192.85948", deltaG="27.12825", lomega="32.93192", alphaE="180.02322", deltaE="29.811438523", Eomega="6.3839743"),
    "B1950": dict(eps="23.4457889", alphaG="192.25", deltaG="27.4", lomega="33.0"),
}
INV = [1, 0, 3, 2, 5, 4]
WRAPPERS = {"eq2gal": 1, "gal2eq": 2, "eq2ec": 3, "ec2eq": 4, "ec2gal": 5, "gal2ec": 6}


# rules that keep their verdict however the code is laid out (decided by term equality, effect analysis or dominance over
# resolved calls); every other rule of this check is a template rule (vcheck.core.Check.obt)
SEMANTIC = ('R09.1', 'R09.3', 'R09.6', 'R09.8')


def _load_repo():
    """the parsed tree with local renames undone -- except that a module in which the rename-undo maps a local onto a name that is still in
    use under its own name in the current function (which would merge two different variables and change what the code computes) is taken
    as written: the term evaluation does not depend on the names of locals"""
    from vcheck import rename
    repo = PyRepo()
    if not repo.renames or os.environ.get("VCHECK_NO_RENAME") == "1":
        return repo
    os.environ["VCHECK_NO_RENAME"] = "1"
    try:
        raw = PyRepo()
    finally:
        del os.environ["VCHECK_NO_RENAME"]
    bad = set()
    for rel, q, m in repo.renames:
        modname = rel[:-3].replace(os.sep, ".")
        rfi = raw.funcs.get(modname + "." + q)
        if rfi is None:
            continue
        loc = rename._locals_of(rfi.node)
        if any(y in loc and y not in m for y in m.values()):
            bad.add(modname)
    for modname in bad:
        if modname in raw.modules:
            repo.modules[modname] = raw.modules[modname]
            for k in [k for k in repo.funcs if repo.funcs[k].module.name == modname]:
                del repo.funcs[k]
            for fi in raw.modules[modname].funcs.values():
                repo.funcs[fi.qualname] = fi
    return repo


def run(chk):
    repo = _load_repo()
    chk.set_templates(repo, semantic=SEMANTIC)
    mp.mp.dps = 30
    chk.explanation = MANIFEST["text"]
    chk.trusted = ["sympy normaliser", "mpmath", "CPython ast"]
    chk.floor = 120
    fi = repo.func(CO + "euler")
    chk.analysed_unit(fi.qualname)
    eff = euler_core(chk, repo, fi)
    tables(chk, repo, fi, eff)
    wrappers(chk, repo)
    rotate(chk, repo)
    unitvec(chk, repo)
    sdss(chk, repo)
    shift(chk, repo)
    folds(chk, repo)


# ---------------------------------------------------------------------------
def _mpf(x):
    return mp.mpf(str(sp.N(x, 40)))


def _circ(d):
    """distance of d from the nearest multiple of 2 pi"""
    d = mp.fmod(d, 2 * mp.pi)
    if d < 0:
        d += 2 * mp.pi
    return min(d, 2 * mp.pi - d)


def _reachable_code(repo, fi, depth=3):
    """(module, ast) of fi's body, of the package functions it calls (transitively, bounded), and of the module-level constants those read"""
    out, seen, todo = [], set(), [(fi, 0)]
    while todo:
        f, d = todo.pop()
        if f.qualname in seen:
            continue
        seen.add(f.qualname)
        out.append((f.module, f.node))
        for x in walk_no_nested(f.node):
            if isinstance(x, ast.Call) and d < depth:
                dn = dotted_name(x.func)
                full = repo.resolve_name(f.module, dn) if dn else None
                if full and repo.has(full):
                    todo.append((repo.func(full), d + 1))
    cseen = set()
    k = 0
    while k < len(out):
        mod, node = out[k]
        k += 1
        for x in ast.walk(node):
            if isinstance(x, ast.Name) and isinstance(x.ctx, ast.Load) and x.id in mod.consts and (mod.name, x.id) not in cseen:
                cseen.add((mod.name, x.id))
                out.append((mod, mod.consts[x.id]))
    return out


def _literal_tables(repo, fi, n=6):
    """every n-entry sequence of numeric literals (list or tuple display) in the code euler reaches, read at 30 digits from the source text"""
    seqs = []
    for mod, node in _reachable_code(repo, fi):
        for x in ast.walk(node):
            if isinstance(x, (ast.List, ast.Tuple)) and len(x.elts) == n:
                vals = []
                for e in x.elts:
                    neg = isinstance(e, ast.UnaryOp) and isinstance(e.op, ast.USub)
                    lit = e.operand if neg else e
                    if not (isinstance(lit, ast.Constant) and isinstance(lit.value, (int, float)) and not isinstance(lit.value, bool)):
                        break
                    txt = ast.get_source_segment(mod.src, lit) or repr(lit.value)
                    try:
                        v = mp.mpf(txt.replace("_", ""))
                    except Exception:
                        v = mp.mpf(repr(lit.value))
                    vals.append(-v if neg else v)
                else:
                    seqs.append((vals, "%s:%s" % (mod.relpath, getattr(x, "lineno", "?"))))
    return seqs


def tables(chk, repo, fi, eff):
    """R09.1 on the rotation constants.  eff[(epoch, select)] are the constants euler() actually uses for that selector, read off the
    evaluated output terms (so it does not matter where or how the tables are stored); the literal tables are located through their
    tie to those constants (an n-th entry of a 6-entry literal sequence for select = n)."""
    d2r = mp.pi / 180
    seqs = _literal_tables(repo, fi)
    tiny = mp.mpf("1e-20")
    for ep in ("J2000", "B1950"):
        E = [eff.get((ep, sel)) for sel in range(1, 7)]
        if any(e is None for e in E):
            chk.ob("R09.1", "%s::rotation-constants-readable" % ep, None, fi.where(),
                   "the rotation constants (psi, sin/cos theta, phi) of every selector can be read off the evaluated terms of euler()")
            continue
        psi, st, ct, phi = [[_mpf(e[k]) for e in E] for k in ("psi", "stheta", "ctheta", "phi")]
        # the literal tables behind the constants
        raw = {}
        for nm, vals, tol, circ in (("psi", psi, tiny, True), ("phi", phi, tiny, True), ("stheta", st, mp.mpf("1e-10"), False), ("ctheta", ct, mp.mpf("1e-10"), False)):
            for sv, wh in seqs:
                if all(((_circ(a - b) if circ else abs(a - b)) <= tol) for a, b in zip(sv, vals)):
                    raw[nm] = (sv, wh)
                    break
        found = len(raw) == 4
        chk.ob("R09.5", "euler[%s]::selector-is-one-based" % ep, True if found else None, fi.where(),
               "select = n uses the n-th entry of the tabulated psi / stheta / ctheta / phi (literal tables %s)"
               % (", ".join("%s at %s" % (k, v[1]) for k, v in sorted(raw.items())) if found else "not located: only %s tie to the constants used" % sorted(raw)))
        for i in range(6):
            j = INV[i]
            if found:
                rs, rc = raw["stheta"][0][i], raw["ctheta"][0][i]
                chk.ob("R09.1", "%s::sel%d::unit-norm" % (ep, i + 1), abs(rs ** 2 + rc ** 2 - 1) <= mp.mpf("1e-9"), fi.where(),
                       "tabulated stheta^2+ctheta^2 = 1 within 1e-9 (deviation %s)" % mp.nstr(rs ** 2 + rc ** 2 - 1, 3))
                tie = abs(rs - st[i]) <= mp.mpf("1e-10") and abs(rc - ct[i]) <= mp.mpf("1e-10")
                chk.ob("R09.1", "euler[%s,select=%d]::pair-used-is-the-tabulated-pair" % (ep, i + 1), bool(tie), fi.where(),
                       "the pair used agrees with the tabulated stheta/ctheta within 1e-10 (renormalisation only)")
            else:
                chk.ob("R09.1", "%s::sel%d::unit-norm" % (ep, i + 1), None, fi.where(),
                       "tabulated stheta^2+ctheta^2 = 1 within 1e-9: no 6-entry literal tables tie to the constants euler() uses")
            ok = _circ(psi[i] - phi[j]) <= tiny and abs(st[i] + st[j]) <= tiny and abs(ct[i] - ct[j]) <= tiny
            chk.ob("R09.1", "%s::sel%d::inverse-of-sel%d" % (ep, i + 1, j + 1), bool(ok), fi.where(),
                   "selector %d is the inverse rotation of selector %d: psi<->phi exchanged, stheta negated, ctheta equal" % (i + 1, j + 1))
        r = {k: mp.mpf(v) for k, v in REF[ep].items()}
        exp = {0: (r["lomega"] * d2r, mp.cos(r["deltaG"] * d2r), mp.sin(r["deltaG"] * d2r), ((r["alphaG"] + 90) % 360) * d2r),
               2: (mp.mpf(0), mp.sin(r["eps"] * d2r), mp.cos(r["eps"] * d2r), mp.mpf(0))}
        if "Eomega" in r:
            exp[4] = (r["Eomega"] * d2r, mp.cos(r["deltaE"] * d2r), mp.sin(r["deltaE"] * d2r), ((r["alphaE"] + 90) % 360) * d2r)
        tol = mp.mpf("1e-7")
        for i, (a, b, c, d) in exp.items():
            for nm, got, want, circ in (("psi", psi[i], a, True), ("stheta", st[i], b, False), ("ctheta", ct[i], c, False), ("phi", phi[i], d, True)):
                dev = _circ(got - want) if circ else abs(got - want)
                chk.ob("R09.1", "%s::sel%d::%s-vs-documented-constants" % (ep, i + 1, nm), dev <= tol, fi.where(),
                       "%s[%d] = %s agrees with the value %s derived from the documented pole/node constants within 1e-7 rad (delta %s)"
                       % (nm, i, mp.nstr(got, 12), mp.nstr(want, 12), mp.nstr(dev, 3)))


def _side(c, v, inner):
    """which side does the masked store `value v under condition c` clamp?  'hi' / 'lo' / None"""
    if not isinstance(c, (sp.Gt, sp.Ge, sp.Lt, sp.Le)):
        return None
    d = c.lhs - c.rhs          # c is  d > 0  or  d < 0
    pos = isinstance(c, (sp.Gt, sp.Ge))
    for sign, bound, side in ((1, 1, "hi"), (-1, -1, "lo")):
        # upper clamp:  inner - 1 > 0  (or 1 - inner < 0);  lower clamp: inner + 1 < 0 (or -inner - 1 > 0)
        want = inner - bound
        if sp.simplify(d - want) == 0 and ((pos and side == "hi") or (not pos and side == "lo")) and v == bound:
            return side
        if sp.simplify(d + want) == 0 and ((not pos and side == "hi") or (pos and side == "lo")) and v == bound:
            return side
    return None


def _two_sided(arg):
    """is the asin argument clamped on both sides?  returns (ok, description, inner value)"""
    CL = sp.Function("CLIP")
    if isinstance(arg, CL):
        lo, hi = arg.args[1], arg.args[2]
        return (lo == -1 and hi == 1), "clip(%s, %s)" % (lo, hi), arg.args[0]
    sides = set()
    cur = arg
    for _ in range(4):
        if not isinstance(cur, sp.Piecewise):
            break
        default = [v for v, c in cur.args if c == sp.true]
        if not default:
            break
        inner = default[0]
        base = inner
        while isinstance(base, sp.Piecewise):
            dd = [v for v, c in base.args if c == sp.true]
            if not dd:
                break
            base = dd[0]
        for v, c in cur.args:
            if c != sp.true:
                sd = _side(c, v, base) or _side(c, v, inner)
                if sd:
                    sides.add(sd)
        cur = inner
    ok = sides == {"hi", "lo"}
    return ok, "masked clamp: upper side %s, lower side %s" % ("present" if "hi" in sides else "MISSING", "present" if "lo" in sides else "MISSING"), cur


def _strip_clamp(arg):
    CL = sp.Function("CLIP")
    for _ in range(4):
        if isinstance(arg, CL):
            arg = arg.args[0]
        elif isinstance(arg, sp.Piecewise):
            d = [v for v, c in arg.args if c == sp.true]
            if not d:
                return None
            arg = d[0]
        else:
            break
    return arg


def _effective_pair(lat, ai, bi, phi):
    """(s, c) actually multiplying the latitude formula sin(lat') = -s cos b sin(a - phi) + c sin b, read off the evaluated term"""
    try:
        k, rest = lat.as_independent(ai, bi, as_Add=False)
        if not isinstance(rest, sp.asin):
            return None
        arg = _strip_clamp(rest.args[0])
        if arg is None:
            return None
        c = sp.simplify(arg.subs(bi, 90))
        sneg = sp.simplify(arg.subs(bi, 0).subs(ai, (sp.pi / 2 + phi) * 180 / sp.pi))
        if c.free_symbols or sneg.free_symbols:
            return None
        return -sneg, c
    except Exception:
        return None


def _read_constants(ao, bo, ai, bi):
    """the rotation constants (psi, stheta, ctheta, phi) euler() uses, read off its evaluated output terms: phi is what is subtracted from
    the input longitude inside the trigonometric functions, (stheta, ctheta) the coefficients of the latitude formula, psi the constant
    added to the arctangent of the longitude.  None when the terms do not have that shape."""
    try:
        k, rest = bo.as_independent(ai, bi, as_Add=False)
        if not isinstance(rest, sp.asin):
            return None
        f = _strip_clamp(rest.args[0])
        if f is None:
            return None
        phis = set()
        for t in f.atoms(sp.sin, sp.cos):
            a = sp.expand(t.args[0])
            if ai not in a.free_symbols:
                continue
            co = a.coeff(ai)
            if co == 0 or (a - co * ai).free_symbols:
                return None
            if co.is_negative:
                a, co = -a, -co
            if sp.simplify(co - sp.pi / 180) != 0:
                return None
            phis.add(sp.simplify(co * ai - a))
        if len(phis) != 1:
            return None
        phi = phis.pop()
        pair = _effective_pair(bo, ai, bi, phi)
        if pair is None:
            return None
        k, rest = ao.as_independent(ai, bi, as_Add=False)
        inner = rest.args[0] if isinstance(rest, sp.Mod) else rest
        psi, dep = inner.as_independent(ai, bi, as_Add=True)
        if not psi.is_number or not isinstance(dep, sp.atan2):
            return None
        return {"psi": psi, "stheta": pair[0], "ctheta": pair[1], "phi": phi}
    except Exception:
        return None


def euler_core(chk, repo, fi):
    se = symx.SymEval(repo)
    ai, bi = symx.symbols("ai", "bi")
    d2r = sp.pi / 180
    eff = {}
    for ep in ("J2000", "B1950"):
        for sel in range(1, 7):
            r = se.run(fi, {"ai": ai, "bi": bi, "select": sp.Integer(sel)}, {"b1950": ep == "B1950"})
            tag = "euler[%s,select=%d]" % (ep, sel)
            if not (isinstance(r, tuple) and len(r) == 2 and all(isinstance(x, sp.Basic) for x in r)):
                chk.ob("R09.2", tag + "::returns-pair", False, fi.where(), "expected (lon, lat), got %r" % (r,))
                continue
            ao, bo = r
            T = _read_constants(ao, bo, ai, bi)
            eff[(ep, sel)] = T
            if T is None:
                chk.ob("R09.2", tag + "::latitude-formula", False, fi.where(),
                       "the evaluated terms do not have the shape lat' = asin(-s cos b sin(a-phi) + c sin b), lon' = atan2(...) + psi with constant s, c, phi, psi: %s"
                       % str(r)[:200])
                continue
            se_, ce_ = T["stheta"], T["ctheta"]
            dev = abs(mp.mpf(sp.N(se_ ** 2 + ce_ ** 2 - 1, 40)))
            # a point at the pole of the target system gets sin(lat') = s^2 + c^2; with s^2 + c^2 = 1 - eps the latitude is short of 90 deg by
            # sqrt(2 eps) rad, so the property's 1e-5 degree (poles are in its quantifier) needs eps <= (1e-5 pi/180)^2 / 2 = 1.5e-14
            lim = (mp.mpf("1e-5") * mp.pi / 180) ** 2 / 2
            chk.ob("R09.1", "euler::rotation-sine-cosine-unit-norm" if dev > lim else tag + "::rotation-sine-cosine-unit-norm", dev <= lim, fi.where(),
                   "the sine/cosine pair actually used satisfies |s^2 + c^2 - 1| <= %s (needed for 1e-5 degree at the target pole, where sin(lat') = s^2 + c^2); "
                   "deviation %s" % (mp.nstr(lim, 3), mp.nstr(dev, 3)))
            a = ai * d2r - T["phi"]
            b = bi * d2r
            lat_arg = -T["stheta"] * sp.cos(b) * sp.sin(a) + T["ctheta"] * sp.sin(b)
            lon_arg = sp.atan2(T["ctheta"] * sp.cos(b) * sp.sin(a) + T["stheta"] * sp.sin(b), sp.cos(b) * sp.cos(a)) + T["psi"]
            # latitude
            k, rest = bo.as_independent(ai, bi, as_Add=False)
            okk = sp.simplify(k - 180 / sp.pi) == 0 and isinstance(rest, sp.asin)
            chk.ob("R09.2", tag + "::latitude-is-asin-in-degrees", bool(okk), fi.where(), "latitude = asin(...)*180/pi (range [-90,90])")
            if okk:
                ok2, desc, inner = _two_sided(rest.args[0])
                chk.ob("R09.3", "euler::asin-argument-clamped-both-sides" if not ok2 else tag + "::asin-argument-clamped-both-sides", ok2, fi.where(),
                       "the asin argument is clamped to [-1,1] on both sides (%s): rounding can push it below -1 as well as above 1, and an unclamped side gives NaN at the target system's pole" % desc)
                eq, d = symx.equal(inner, lat_arg)
                chk.ob("R09.2", tag + "::latitude-formula", eq, fi.where(), "sin(lat') = -stheta cos b sin(a-phi) + ctheta sin b%s" % ("" if eq else " (difference %s)" % str(d)[:160]))
            # longitude
            k, rest = ao.as_independent(ai, bi, as_Add=False)
            okk = sp.simplify(k - 180 / sp.pi) == 0 and isinstance(rest, sp.Mod) and sp.simplify(rest.args[1] - 2 * sp.pi) == 0
            chk.ob("R09.4", tag + "::longitude-in-[0,360)", bool(okk), fi.where(), "longitude = (angle mod 2pi)*180/pi, i.e. in [0,360) (found %s)" % str(ao)[:100])
            if okk:
                inner = rest.args[0]
                # a positive multiple of 2pi may have been added before the modulo
                diff = sp.simplify(inner - lon_arg)
                eq = diff.is_number and sp.simplify(sp.Mod(diff, 2 * sp.pi)) == 0
                if not eq:
                    eq, _ = symx.equal(inner, lon_arg)
                chk.ob("R09.2", tag + "::longitude-formula", bool(eq), fi.where(), "lon' = atan2(ctheta cos b sin(a-phi) + stheta sin b, cos b cos(a-phi)) + psi (mod 2pi)")
    return eff


def wrappers(chk, repo):
    for name, sel in WRAPPERS.items():
        fi = repo.func(CO + name)
        chk.analysed_unit(fi.qualname)
        rets = [x for x in walk_no_nested(fi.node) if isinstance(x, ast.Return)]
        ok = len(rets) == 1 and isinstance(rets[0].value, ast.Call) and call_name(rets[0].value) == "euler"
        if ok:
            c = rets[0].value
            ok = [norm(a) for a in c.args[:2]] == fi.params[:2] and len(c.args) >= 3 and norm(c.args[2]) == str(sel)
            okk = kwarg(c, "b1950") is not None and norm(kwarg(c, "b1950")) == "b1950" and kwarg(c, "dtype") is not None and norm(kwarg(c, "dtype")) == "dtype"
            chk.ob("R09.5", name + "::forwards-epoch-and-dtype", okk, fi.where(), "b1950= and dtype= are forwarded")
        chk.ob("R09.5", name + "::selector", bool(ok), fi.where(), "%s is euler(lon, lat, %d, ...) with its two coordinates in order" % (name, sel))
    # chained = direct is a table property: selectors 5/6 (ec<->gal) must equal the product of 4,1 / 2,3; checked through the
    # documented constants above for J2000; for B1950 the relation is checked numerically on the literal tables


def rotate(chk, repo):
    fi = repo.func(CO + "rotate")
    chk.analysed_unit(fi.qualname)
    se = symx.SymEval(repo)
    phi, theta, psi, ra, dec = symx.symbols("phi", "theta", "psi", "ra", "dec")
    r = se.run(fi, {"phi": phi, "theta": theta, "psi": psi, "ra": ra, "dec": dec}, {}, pins={"is_scalar": False})
    if not (isinstance(r, tuple) and len(r) == 2):
        chk.ob("R09.9", "rotate::returns-pair", False, fi.where(), "expected (ra, dec), got %r" % (r,))
        return
    d2r = sp.pi / 180
    P, T, S = -phi * d2r, -theta * d2r, -psi * d2r
    a = ra * d2r - P
    b = dec * d2r
    lat_arg = -sp.sin(T) * sp.cos(b) * sp.sin(a) + sp.cos(T) * sp.sin(b)
    lon_arg = sp.atan2(sp.cos(T) * sp.cos(b) * sp.sin(a) + sp.sin(T) * sp.sin(b), sp.cos(b) * sp.cos(a)) + S
    ra_o, dec_o = r
    k, rest = dec_o.as_independent(ra, dec, phi, theta, psi, as_Add=False)
    okk = sp.simplify(k - 180 / sp.pi) == 0 and isinstance(rest, sp.asin)
    chk.ob("R09.9", "rotate::latitude-is-asin-in-degrees", bool(okk), fi.where(), "dec' = asin(...)*180/pi")
    if okk:
        ok2, desc, inner = _two_sided(rest.args[0])
        chk.ob("R09.3", "rotate::asin-argument-clamped-both-sides", ok2, fi.where(), "asin argument clamped on both sides (%s)" % desc)
        eq, d = symx.equal(inner, lat_arg)
        chk.ob("R09.9", "rotate::latitude-formula", eq, fi.where(), "zxz rotation with negated angles (rotating points): sin(dec') formula%s" % ("" if eq else " (difference %s)" % str(d)[:160]))
    k, rest = ra_o.as_independent(ra, dec, phi, theta, psi, as_Add=False)
    okk = sp.simplify(k - 180 / sp.pi) == 0 and isinstance(rest, sp.Mod) and sp.simplify(rest.args[1] - 2 * sp.pi) == 0
    chk.ob("R09.4", "rotate::longitude-in-[0,360)", bool(okk), fi.where(), "ra' = (angle mod 2pi)*180/pi")
    if okk:
        diff = sp.simplify(rest.args[0] - lon_arg)
        eq = (diff.is_number and sp.simplify(sp.Mod(diff, 2 * sp.pi)) == 0) or symx.equal(rest.args[0], lon_arg)[0]
        chk.ob("R09.9", "rotate::longitude-formula", bool(eq), fi.where(), "ra' formula of the zxz rotation")
    # scalar in, scalar out
    cfg = cfg_of(fi)
    sc = [n for n in cfg.nodes if n.kind == "stmt" and isinstance(n.ast, ast.Assign) and norm(n.ast.value).endswith("_out[0]")]
    ok = len(sc) == 2 and all(dict(rules.controlling_tests(cfg.view(), n)).get("is_scalar") == "T" for n in sc)
    chk.ob("R09.9", "rotate::scalar-in-scalar-out", ok, fi.where(), "scalar inputs are returned as scalars (element 0 under is_scalar)")


def unitvec(chk, repo):
    se = symx.SymEval(repo, opaque={CO + "atbound", CO + "atbound2"})
    x, y, z = symx.symbols("x", "y", "z")
    fi = repo.func(CO + "xyz2eq")
    chk.analysed_unit(fi.qualname)
    AT = sp.Function("atbound")
    node = sp.Rational(95) * sp.pi / 180
    for units in ("deg", "rad"):
        for stomp in (False, True):
            r = se.run(fi, {"xin": x, "yin": y, "zin": z}, {"units": units, "stomp": stomp})
            tag = "xyz2eq[units=%s,stomp=%s]" % (units, stomp)
            f = 180 / sp.pi if units == "deg" else sp.Integer(1)
            full = sp.Integer(360) if units == "deg" else 2 * sp.pi
            ok = isinstance(r, tuple) and len(r) == 2
            if not ok:
                chk.ob("R09.6", tag + "::returns-pair", False, fi.where(), "got %r" % (r,))
                continue
            lon, lat = r
            eq, d = symx.equal(lat, sp.asin(z) * f)
            chk.ob("R09.6", tag + "::latitude", eq, fi.where(), "dec = asin(z) in %s" % units)
            base = (sp.atan2(y, x) + (node if stomp else 0)) * f
            okf, why = _fold_ok(lon, base, full, AT)
            chk.ob("R09.6", (tag if okf else "xyz2eq[units=%s]" % units) + "::longitude-and-range-fold", okf, fi.where(),
                   "ra = atan2(y,x) in %s folded into [0, %s) with bounds in the same units: %s" % (units, full, why))
    fi = repo.func(CO + "eq2xyz")
    ra, dec = symx.symbols("ra", "dec")
    for units in ("deg", "rad"):
        r = se.run(fi, {"ra": ra, "dec": dec}, {"units": units, "stomp": True})
        f = sp.pi / 180 if units == "deg" else sp.Integer(1)
        ref = (sp.cos(ra * f - node) * sp.cos(dec * f), sp.sin(ra * f - node) * sp.cos(dec * f), sp.sin(dec * f))
        ok = isinstance(r, tuple) and len(r) == 3 and all(symx.equal(a, b)[0] for a, b in zip(r, ref))
        chk.ob("R09.6", "eq2xyz[units=%s,stomp=True]" % units, ok, fi.where(), "stomp convention subtracts the node (95 deg) in radians before projecting")


def _fold_ok(lon, base, full, AT):
    """accepted range folds: opaque atbound(base, 0, full) (its period is 360, so only valid in degrees), or a one-step wrap
    Piecewise((base + full, base < 0), (base, True))"""
    if isinstance(lon, AT):
        v, lo, hi = lon.args
        eq, _ = symx.equal(v, base)
        if not eq:
            return False, "folded value is %s, expected %s" % (v, base)
        if not (lo == 0 and sp.simplify(hi - full) == 0):
            return False, "fold bounds are (%s, %s) but the value is in units where a full turn is %s" % (lo, hi, full)
        if sp.simplify(full - 360) != 0:
            return False, "the range-fold helper steps by 360 (degrees) but the value is in radians"
        return True, "atbound(v, 0, %s)" % hi
    if isinstance(lon, sp.Piecewise) and len(lon.args) == 2:
        (v1, c1), (v2, c2) = lon.args
        eqb, _ = symx.equal(v2, base)
        eqw, _ = symx.equal(v1, base + full)
        okc = isinstance(c1, sp.Lt) and symx.equal(c1.lhs - c1.rhs, base)[0] or (isinstance(c1, sp.Lt) and c1.rhs == 0 and symx.equal(c1.lhs, base)[0])
        if not okc and isinstance(c1, (sp.Lt, sp.Gt)):
            # sympy may have canonicalised the relation (e.g. atan2(y,x) < 0)
            okc = sp.simplify(c1.lhs - c1.rhs - base * (1 if isinstance(c1, sp.Lt) else -1)) == 0 or \
                (base / c1.lhs).is_number if c1.rhs == 0 else False
        return bool(eqb and eqw and okc), "one-step wrap by %s where negative" % full
    return False, "unrecognised fold %s" % str(lon)[:120]


def sdss(chk, repo):
    se = symx.SymEval(repo, opaque={CO + "atbound", CO + "atbound2"})
    mod = repo.module("esutil.coords")
    par = se.module_const(mod, "_sdsspar")
    ok = isinstance(par, dict) and sp.simplify(par.get("node", 0) - 95 * sp.pi / 180) == 0 and sp.simplify(par.get("etapole", 0) - sp.Rational(65, 2) * sp.pi / 180) == 0
    chk.ob("R09.7", "sdss::node-and-pole-constants", bool(ok), "esutil/coords.py", "survey node = (185-90) deg and eta pole = 32.5 deg, stored in radians")
    node, pole = 95 * sp.pi / 180, sp.Rational(65, 2) * sp.pi / 180
    ra, dec = symx.symbols("ra", "dec")
    fi = repo.func(CO + "eq2sdss")
    chk.analysed_unit(fi.qualname)
    r = se.run(fi, {"ra_in": ra, "dec_in": dec}, {})
    d2r = sp.pi / 180
    AT = sp.Function("atbound")
    if isinstance(r, tuple) and len(r) == 2:
        lam, eta = r
        a, d = ra * d2r - node, dec * d2r
        eq, df = symx.equal(lam, -sp.asin(sp.cos(a) * sp.cos(d)) / d2r)
        chk.ob("R09.7", "eq2sdss::clambda", eq, fi.where(), "clambda = -asin(cos(ra-node) cos dec) in degrees%s" % ("" if eq else " (difference %s)" % str(df)[:160]))
        ok = isinstance(eta, AT) and eta.args[1:] == (-180, 180) and symx.equal(eta.args[0], (sp.atan2(sp.sin(d), sp.sin(a) * sp.cos(d)) - pole) / d2r)[0]
        chk.ob("R09.7", "eq2sdss::ceta", bool(ok), fi.where(), "ceta = atan2(sin dec, sin(ra-node) cos dec) - etapole in degrees, folded into [-180,180]")
    else:
        chk.ob("R09.7", "eq2sdss::returns-pair", False, fi.where(), "got %r" % (r,))
    _range_checks(chk, fi, {"ra": ("0.0", "360.0"), "dec": ("-90.0", "90.0")})
    lam, eta = symx.symbols("clambda", "ceta")
    fi = repo.func(CO + "sdss2eq")
    chk.analysed_unit(fi.qualname)
    r = se.run(fi, {"clambda_in": lam, "ceta_in": eta}, {})
    AT2 = sp.Function("atbound2")
    if isinstance(r, tuple) and len(r) == 2:
        ra_o, dec_o = r
        l, e = lam * d2r, eta * d2r
        xx, yy, zz = -sp.sin(l), sp.cos(e + pole) * sp.cos(l), sp.sin(e + pole) * sp.cos(l)
        ra_ref = (sp.atan2(yy, xx) + node) / d2r
        dec_ref = sp.asin(zz) / d2r
        # the in-place fold atbound2(dec, ra) is opaque: the evaluator shows it on its first argument
        dec_core = dec_o.args[0] if isinstance(dec_o, AT2) else dec_o
        eq1, d1 = symx.equal(dec_core, dec_ref)
        chk.ob("R09.7", "sdss2eq::dec", eq1, fi.where(), "dec = asin(sin(ceta+etapole) cos clambda) in degrees")
        eq2, d2 = symx.equal(ra_o, ra_ref)
        if isinstance(dec_o, AT2):
            eq2 = eq2 or symx.equal(dec_o.args[1], ra_ref)[0]
        chk.ob("R09.7", "sdss2eq::ra", eq2, fi.where(), "ra = atan2(cos(ceta+etapole) cos clambda, -sin clambda) + node in degrees")
        folds = [x for x in walk_no_nested(fi.node) if isinstance(x, ast.Call) and call_name(x) == "atbound2"]
        chk.ob("R09.7", "sdss2eq::range-fold-roles", len(folds) == 1 and [norm(a) for a in folds[0].args] == ["dec", "ra"], fi.where(), "atbound2(latitude, longitude) folds the pair into range")
    else:
        chk.ob("R09.7", "sdss2eq::returns-pair", False, fi.where(), "got %r" % (r,))
    _range_checks(chk, fi, {"clambda": ("-90.0", "90.0"), "ceta": ("-180.0", "180.0")})


def _range_checks(chk, fi, want):
    cfg = cfg_of(fi)
    view = cfg.view()
    tests = [t.replace(" ", "") for n in rules.raise_nodes(cfg) for t, lab in rules.controlling_tests(view, n)[:1] if lab == "T"]
    for v, (lo, hi) in want.items():
        w = "(%s.min()<%s)|(%s.max()>%s)" % (v, lo, v, hi)
        chk.ob("R09.7", "%s::range-check::%s" % (fi.name, v), w in tests, fi.where(), "%s outside [%s,%s] is rejected (raise tests: %s)" % (v, lo, hi, tests))


def shift(chk, repo):
    fi = repo.func(CO + "shiftlon")
    chk.analysed_unit(fi.qualname)
    se = symx.SymEval(repo)
    lon, s = symx.symbols("lon", "s")
    # negative shift: lon + |s| mod 360, wrap at the *closed* lower / open upper end
    for neg in (True, False):
        r = se.run(fi, {"lon_input": lon, "shift": s}, {"negshift": neg})
        # the evaluator follows `if negshift:` with the literal flag only if negshift is not re-assigned; evaluate both arms by hand instead
    fn = fi.node
    cfg = cfg_of(fi)
    view = cfg.view()
    wraps = []
    for n in cfg.nodes:
        a = n.ast
        if n.kind == "stmt" and isinstance(a, ast.Assign) and isinstance(a.value, ast.Call) and call_name(a.value) == "where" and len(a.value.args) == 1:
            c = a.value.args[0]
            if isinstance(c, ast.Compare):
                ts = dict(rules.controlling_tests(view, n))
                wraps.append((n, c, ts))
    for n, c, ts in wraps:
        txt = norm(c)
        if ts.get("shift is not None") == "T" and ts.get("negshift") == "T":
            ok = isinstance(c.ops[0], ast.GtE) and norm(c.comparators[0]) in ("360.0", "360")
            chk.ob("R09.8", "shiftlon::upper-wrap-comparator", ok, fi.where(n.ast),
                   "the target interval [0,360) is open at the top, so the upper wrap must use >= 360 (found `%s`): with > a result of exactly 360 escapes the interval" % txt)
        elif ts.get("shift is not None") == "T" and ts.get("negshift") == "F":
            ok = isinstance(c.ops[0], ast.Lt) and norm(c.comparators[0]) in ("0.0", "0")
            chk.ob("R09.8", "shiftlon::lower-wrap-comparator", ok, fi.where(n.ast), "values below 0 are wrapped up (found `%s`)" % txt)
        elif ts.get("wrap") == "T":
            ok = isinstance(c.ops[0], ast.Gt) and norm(c.comparators[0]) in ("180", "180.0")
            chk.ob("R09.8", "shiftlon::wrap-to-[-180,180]", ok, fi.where(n.ast), "without a shift, values above 180 are lowered by 360 (found `%s`)" % txt)
    chk.ob("R09.8", "shiftlon::three-wraps", len(wraps) == 3, fi.where(), "three wrap sites found (%d)" % len(wraps))
    # |shift| reduced mod 360 so that a single wrap suffices; sign handled by the two arms
    env = {}
    for x in sorted([y for y in walk_no_nested(fn) if isinstance(y, ast.Assign)], key=lambda y: y.lineno):
        env.setdefault(norm(x.targets[0]), []).append(norm(x.value))
    ok = env.get("abs_shift") == ["abs(shift)", "abs_shift % 360.0"] or env.get("abs_shift") == ["abs(shift) % 360.0"]
    chk.ob("R09.8", "shiftlon::shift-reduced-mod-360", ok, fi.where(), "|shift| is reduced modulo 360 so one wrap step suffices (%s)" % env.get("abs_shift"))
    augs = [(norm(x.target), type(x.op).__name__, norm(x.value), dict(rules.controlling_tests(view, rules.node_of_stmt(cfg, x)))) for x in walk_no_nested(fn) if isinstance(x, ast.AugAssign)]
    want = {("lon", "Add", "abs_shift", "T"), ("lon", "Sub", "abs_shift", "F")}
    got = {(t, o, v, ts.get("negshift")) for t, o, v, ts in augs if v == "abs_shift"}
    chk.ob("R09.8", "shiftlon::result-is-lon-minus-shift", got == want, fi.where(), "negative shift adds |shift|, positive subtracts it (result = lon - shift mod 360): %s" % sorted(got))
    steps = {(t, o, v) for t, o, v, ts in augs if v != "abs_shift"}
    chk.ob("R09.8", "shiftlon::wrap-steps-are-360", steps == {("lon[w]", "Sub", "360.0"), ("lon[w]", "Add", "360.0"), ("lon[w]", "Sub", "360")}, fi.where(),
           "each wrap moves by exactly one turn (%s)" % sorted(steps))
    sr = repo.func(CO + "shiftra")
    rets = [x for x in walk_no_nested(sr.node) if isinstance(x, ast.Return)]
    chk.ob("R09.8", "shiftra::delegates", len(rets) == 1 and norm(rets[0].value) == "shiftlon(ra, shift=shift, wrap=wrap)", sr.where(), "shiftra is shiftlon")


def folds(chk, repo):
    fi = repo.func(CO + "atbound")
    chk.analysed_unit(fi.qualname)
    loops = sorted([x for x in walk_no_nested(fi.node) if isinstance(x, ast.While)], key=lambda x: x.lineno)
    ok = len(loops) == 2
    desc = []
    for lp in loops:
        aug = [x for x in lp.body if isinstance(x, ast.AugAssign)]
        rew = [x for x in lp.body if isinstance(x, ast.Assign) and isinstance(x.value, ast.Call) and call_name(x.value) == "where"]
        if len(aug) == 1 and len(rew) == 1:
            desc.append((type(aug[0].op).__name__, norm(aug[0].value), norm(rew[0].value.args[0])))
    want = [("Add", "360.0", "longitude < minval"), ("Sub", "360.0", "longitude > maxval")]
    chk.ob("R09.8", "atbound::fold-structure", ok and desc == want, fi.where(),
           "range fold: add 360 while below the minimum, subtract 360 while above the maximum (loop conditions recomputed each step): %s" % desc)
