"""C09 -- celestial coordinate conversions: rotation tables, Euler core, ranges,
wrappers, unit-vector and SDSS conversions, longitude shifting."""
import ast
import os

import mpmath as mp
import sympy as sp

from vcheck import pat, rules, symx
from vcheck.core import PyRepo, AnalysisError, call_name, const_value, dotted_name, kwarg, norm, walk_no_nested
from vcheck.rules import cfg_of

MANIFEST = dict(
    text="Constant validation plus formula conformance by symbolic normal forms (not numerical testing): (1) the Euler core is abstractly "
         "interpreted to terms for every selector and epoch; the rotation constants it actually uses (psi, sin/cos theta, phi) are read off "
         "those terms -- wherever the tables are stored -- and checked in 30-digit arithmetic: inverse selector pairs have psi/phi exchanged, "
         "stheta negated and ctheta equal, the pair used has |s^2+c^2-1| <= 1.5e-14, and the constants agree within 1e-7 rad with the documented "
         "J2000 pole/node constants (all three pairs) and the standard B1950 galactic pole / obliquity; the 6-entry literal tables are located "
         "through their tie to the constants used and must satisfy |s^2+c^2-1| <= 1e-9; (2) the Euler core and the zxz rotation terms are "
         "compared with the astrolib definition; the asin argument must "
         "be clamped on both sides; the output longitude is a positive-offset modulo 2pi (range [0,360)); a result rotate() returns only under a "
         "guard on the Euler angles (a shortcut) is compared with the zxz rotation on the solution set of the guard (a tolerance test |g| < eps "
         "stands for g = 0; the solution families are substituted into both and the directions compared as terms; a difference is reported "
         "with a point of the guard's solution set that refutes the identity); a result euler() returns only for positions its guard pins to "
         "isolated coordinate values is compared in the same way with the rotation of those positions as unit vectors (the longitude is free only "
         "where the guard confines the OUTPUT latitude to +-90); (3) the six wrappers map to "
         "selectors 1..6 and forward epoch and dtype, and each wrapper evaluated to terms for either epoch uses the rotation constants of its own "
         "selector in that epoch; (4) unit-vector conversions and their range fold carry the units of the chosen "
         "option; SDSS node/pole constants and formulas; range checks raise; (5) longitude shifting: the evaluated result of shiftlon for a "
         "negative / non-negative / absent shift is split into guarded cases and each case is shown by interval reasoning to lie in the "
         "documented interval (open at 360) and to differ from lon - shift by whole turns (a result dispatched on the value of the shift is decided "
         "per alternative for the shifts that reach it, zero included); shiftra's call of shiftlon is bound through shiftlon's signature and each option must reach the parameter of its own meaning; the range-fold loops are checked by one symbolic step; the pair fold "
         "behind sdss2eq, specialised to latitudes in [-90,90] by interval reasoning, keeps the latitude and changes the longitude by whole turns "
         "only, except for latitudes its guards confine to the poles (solution set of the guards computed, within 1e-9 degree on the sky).",
    note="Not decided: 1e-5 / 1e-9 degree tolerances, isometry numerically; B1950 ecliptic<->galactic constants are not documented in "
         "the source (relations only). Trusted: sympy normaliser, mpmath.",
    technique="static analysis: literal-table validation in exact/high-precision arithmetic, abstract interpretation over a symbolic term domain with normal-form comparison",
)

CO = "esutil.coords."
# documented constants (source comments of euler(), Hipparcos explanatory supplement) and the standard B1950 values
REF = {
    "J2000": dict(eps="23.4392911111", alphaG="192.85948", deltaG="27.12825", lomega="32.93192", alphaE="180.02322", deltaE="29.811438523", Eomega="6.3839743"),
    "B1950": dict(eps="23.4457889", alphaG="192.25", deltaG="27.4", lomega="33.0"),
}
INV = [1, 0, 3, 2, 5, 4]
WRAPPERS = {"eq2gal": 1, "gal2eq": 2, "eq2ec": 3, "ec2eq": 4, "ec2gal": 5, "gal2ec": 6}


# rules that keep their verdict however the code is laid out (decided by term equality, effect analysis or dominance over
# resolved calls); every other rule of this check is a template rule (vcheck.core.Check.obt)
SEMANTIC = ('R09.1', 'R09.3', 'R09.5::wrapper-term', 'R09.6', 'R09.8', 'R09.9::rotate::alternative-under-angle-guard', 'R09.10')


def _load_repo():
    """the parsed tree with local renames undone -- except that a module in which the rename-undo maps a local onto a name that is still in
    use under its own name in the current function (which would merge two different variables and change what the code computes) is taken
    as written: the term evaluation does not depend on the names of locals"""
    from vcheck import rename
    repo = PyRepo()
    if not repo.renames or os.environ.get("VCHECK_NO_RENAME") == "1":
        return repo
    os.environ["VCHECK_NO_RENAME"] = "1"
    try:
        raw = PyRepo()
    finally:
        del os.environ["VCHECK_NO_RENAME"]
    bad = set()
    for rel, q, m in repo.renames:
        modname = rel[:-3].replace(os.sep, ".")
        rfi = raw.funcs.get(modname + "." + q)
        if rfi is None:
            continue
        loc = rename._locals_of(rfi.node)
        if any(y in loc and y not in m for y in m.values()):
            bad.add(modname)
    for modname in bad:
        if modname in raw.modules:
            repo.modules[modname] = raw.modules[modname]
            for k in [k for k in repo.funcs if repo.funcs[k].module.name == modname]:
                del repo.funcs[k]
            for fi in raw.modules[modname].funcs.values():
                repo.funcs[fi.qualname] = fi
    return repo


def _coords_fn(repo, name):
    """qualified name of the function the name `name` stands for in esutil.coords: defined there, or imported into it from another package
    module (a helper moved to a module of its own and re-exported is still the function coords.<name>)"""
    mod = repo.modules.get("esutil.coords")
    if mod is not None:
        full = repo.resolve_name(mod, name)
        if repo.has(full):
            return full
    return CO + name


def _opaque_folds(repo):
    return {_coords_fn(repo, "atbound"), _coords_fn(repo, "atbound2")}


# ---------------------------------------------------------------------------
# the term evaluator with the numpy / call idioms the coordinate code may be written in (all of them abstract: one symbolic
# element stands for every element of an array; nothing is executed)
_UFUNC1 = set(symx.UNARY) | {"deg2rad", "rad2deg", "radians", "degrees", "negative"}
_UFUNC2 = {"add", "subtract", "multiply", "divide", "true_divide", "power", "mod", "fmod", "arctan2", "minimum", "maximum", "fmin", "fmax"}


def _np_full(env, node):
    d = dotted_name(node)
    if not d or d.split(".")[0] in env.vars:
        return None
    full = env.se.repo.resolve_name(env.mod, d)
    return full if full.startswith(("numpy.", "math.")) else None


class _Instance(dict):
    """a constant-evaluated object: {attribute: value} (attribute reads go through symx.Env.ev's dict case)"""


def _is_literal(e):
    if isinstance(e, ast.UnaryOp) and isinstance(e.op, (ast.USub, ast.UAdd)):
        e = e.operand
    return isinstance(e, ast.Constant) and (e.value is None or isinstance(e.value, (bool, int, float, str)))


def _hypot(a, b, where):
    """numpy.hypot / math.hypot as a term: sqrt(a**2 + b**2), element by element (a number is broadcast over a sequence)"""
    sa, sb = isinstance(a, (tuple, list)), isinstance(b, (tuple, list))
    if sa and sb:
        if len(a) != len(b):
            raise symx.Unsupported("symx: hypot of sequences of different length at %s" % where)
        return tuple(_hypot(x, y, where) for x, y in zip(a, b))
    if sa:
        return tuple(_hypot(x, b, where) for x in a)
    if sb:
        return tuple(_hypot(a, y, where) for y in b)
    if not (symx._is_expr(a) and symx._is_expr(b)):
        raise symx.Unsupported("symx: hypot of non-numeric values at %s" % where)
    a, b = symx._as_expr(a), symx._as_expr(b)
    return sp.sqrt(a * a + b * b)


_NOT_A_CONDITION = object()
# element-wise numpy functions of one argument beyond symx.UNARY, and the functions whose out= the evaluator (symx.Env.call / this class) writes
_UNARY_MORE = {"negative": lambda x: -x, "positive": lambda x: x, "reciprocal": lambda x: 1 / x}
_OUT_KNOWN = set(symx.UNARY) | set(_UNARY_MORE) | {"deg2rad", "radians", "rad2deg", "degrees", "arctan2", "atan2", "multiply", "add", "subtract",
                                                   "divide", "power", "mod", "fmod", "minimum", "maximum", "fmin", "fmax", "clip", "hypot"}
_COMPARE_UFUNCS = {"less": ast.Lt, "less_equal": ast.LtE, "greater": ast.Gt, "greater_equal": ast.GtE, "equal": ast.Eq, "not_equal": ast.NotEq}


class _FlatIndex(symx.Mask):
    """the index *array* numpy.flatnonzero(cond) (numpy.nonzero / one-argument numpy.where give a *tuple* of index arrays): used as a
    subscript it selects the same elements, but it must not be tuple-unpacked"""


class _Env(symx.Env):
    """symx.Env plus
      * numpy.hypot / math.hypot (sqrt(x1**2 + x2**2), element by element);
      * a numpy function used as a *value* (entry of a dispatch table, local alias) and called through that value;
      * ufunc(..., out=x, where=mask): the masked in-place update  x = Piecewise((ufunc(...), mask), (x, True));
      * package helpers taking *args that update those arrays in place;
      * hasattr / numpy.isscalar decided by the assumption the rule states (SymEval.assume 'call:<name>')."""

    def ev(self, e, stmt_level=False):
        if isinstance(e, ast.Attribute) and norm(e) not in self.vars:
            try:
                return super().ev(e, stmt_level)
            except symx.Unsupported:
                full = _np_full(self, e)
                if full and full.rsplit(".", 1)[1] in (_UFUNC1 | _UFUNC2):
                    return symx.Opaque(full)
                raise
        return super().ev(e, stmt_level)

    def _np_callee(self, full, at):
        """an expression that names the numpy function `full` in this module (through its imports), or None"""
        head, fn = full.rsplit(".", 1)
        for local, target in self.mod.imports.items():
            if target == full and local not in self.vars:
                return ast.copy_location(ast.Name(id=local, ctx=ast.Load()), at)
        for local, target in self.mod.imports.items():
            if target == head and local not in self.vars:
                return ast.copy_location(ast.Attribute(value=ast.copy_location(ast.Name(id=local, ctx=ast.Load()), at), attr=fn, ctx=ast.Load()), at)
        return None

    def call(self, c, stmt_level=False):
        f = c.func
        nm = call_name(c)
        # a numpy function reached through a local (entry of a dispatch table): the call is the call of that function
        if isinstance(f, ast.Name) and isinstance(self.vars.get(f.id), symx.Opaque) and self.vars[f.id].what.startswith(("numpy.", "math.")):
            callee = self._np_callee(self.vars[f.id].what, c)
            if callee is None:
                raise symx.Unsupported("symx: call through `%s` = %s at %s" % (f.id, self.vars[f.id].what, self.where(c)))
            return self.call(ast.copy_location(ast.Call(func=callee, args=c.args, keywords=c.keywords), c), stmt_level)
        if nm in ("hasattr", "isscalar") and ("call:" + nm) in self.se.assume:
            return self.se.assume["call:" + nm]
        if nm == "isclose" and _np_full(self, f) == "numpy.isclose" and len(c.args) >= 2 and all(k.arg in ("rtol", "atol", "equal_nan") for k in c.keywords):
            # the documented meaning of the library function, as a term:  |a - b| <= atol + rtol |b|  (defaults 1e-5, 1e-8)
            a, b = self.ev(c.args[0]), self.ev(c.args[1])
            rtol = self.ev(c.args[2]) if len(c.args) > 2 else (self.ev(kwarg(c, "rtol")) if kwarg(c, "rtol") is not None else sp.Rational(1, 10 ** 5))
            atol = self.ev(c.args[3]) if len(c.args) > 3 else (self.ev(kwarg(c, "atol")) if kwarg(c, "atol") is not None else sp.Rational(1, 10 ** 8))
            if all(symx._is_expr(x) for x in (a, b, rtol, atol)):
                a, b, rtol, atol = [symx._as_expr(x) for x in (a, b, rtol, atol)]
                rel = sp.Le(sp.Abs(a - b), atol + rtol * sp.Abs(b))
                return bool(rel) if rel in (sp.true, sp.false) else symx.Mask(rel)
        if nm == "hypot" and _np_full(self, f) in ("numpy.hypot", "math.hypot") and len(c.args) in (2, 3) and all(k.arg == "out" for k in c.keywords):
            # the documented meaning of the library function, as a term: sqrt(x1**2 + x2**2), element by element with broadcasting
            r = _hypot(self.ev(c.args[0]), self.ev(c.args[1]), self.where(c))
            out = c.args[2] if len(c.args) == 3 else kwarg(c, "out")
            if out is not None:
                self.assign(out, r, c)
            return r
        r = self._condition_idiom(c)
        if r is not _NOT_A_CONDITION:
            return r
        npf = _np_full(self, f)
        if npf and npf == "numpy." + nm and nm in _UNARY_MORE and len(c.args) in (1, 2) and all(k.arg == "out" for k in c.keywords) \
                and not any(isinstance(a, ast.Starred) for a in c.args):
            # numpy.negative / positive / reciprocal (x[, out]): the documented element-wise meaning; with out= the array handed over is
            # updated in place and is also what the call returns
            x = self.ev(c.args[0])
            if not (isinstance(x, (tuple, list)) or symx._is_expr(x)):
                raise symx.Unsupported("symx: `%s` of a non-numeric value at %s" % (nm, self.where(c)))
            r = symx._map(_UNARY_MORE[nm], x)
            out = c.args[1] if len(c.args) == 2 else kwarg(c, "out")
            if out is not None:
                self.assign(out, r, c)
            return r
        if npf and npf.startswith("numpy.") and kwarg(c, "out") is not None and kwarg(c, "where") is None and nm not in _OUT_KNOWN:
            # a numpy function this evaluator has no meaning for, writing its result into an array: the array must not keep its old term
            raise symx.Unsupported("symx: `%s` with out= at %s" % (nm, self.where(c)))
        w = kwarg(c, "where")
        if w is not None and _np_full(self, f):
            return self._masked_ufunc(c, w)
        d = dotted_name(f)
        full = self.se.repo.resolve_name(self.mod, d) if d else None
        # object.__setattr__(obj, "name", value): the attribute store of a frozen dataclass, obj.name = value
        if d == "object.__setattr__" and "object" not in self.vars and len(c.args) == 3 and not c.keywords and isinstance(c.args[0], ast.Name) \
                and isinstance(const_value(c.args[1]), str):
            self.vars["%s.%s" % (c.args[0].id, const_value(c.args[1]))] = self.ev(c.args[2])
            return None
        if full == "dataclasses.asdict" and len(c.args) == 1 and not c.keywords:
            o = self.ev(c.args[0])
            if isinstance(o, _Instance):
                return dict(o)
            raise symx.Unsupported("symx: asdict() of a value that is not a dataclass instance at %s" % self.where(c))
        if full and d and d.split(".")[0] not in self.vars and self.se.repo.class_of(full) and self.se.repo.class_of(full)[1].decorator_list:
            return self._construct(c, *self.se.repo.class_of(full))
        # a package helper kept as an uninterpreted term: its arguments in the order of its parameters, however they are passed (by
        # position, by keyword, left to a literal default)
        if full and self.se.repo.has(full) and full in self.se.opaque:
            nc = self._positional(c, self.se.repo.func(full))
            if nc is not None:
                return super().call(nc, stmt_level)
            info = _fold_info(self.se.repo)
            if info is not None and info["qualname"] == full:
                raise symx.Unsupported("symx: arguments of the range fold `%s` at %s" % (norm(c)[:60], self.where(c)))
        if full and self.se.repo.has(full) and full not in self.se.opaque and self.depth < self.se.inline_depth:
            tgt = self.se.repo.func(full)
            if tgt.qualname not in self.se.opaque and any(p.startswith("*") and not p.startswith("**") for p in tgt.params) \
                    and not any(isinstance(a, ast.Starred) for a in c.args) and all(k.arg for k in c.keywords):
                return self._call_varargs(c, tgt)
        return super().call(c, stmt_level)

    def _condition_idiom(self, c):
        """the everyday numpy spellings of an element-wise condition and of the set of elements it selects, as the evaluator's Mask (the
        abstraction `x[w] op= v`  ==  Piecewise((x op v, cond), (x, True)) is the same whichever spelling produced w):
          * numpy.less / less_equal / greater / greater_equal / equal / not_equal (a, b)            ==  a < b, ...
          * numpy.logical_and / logical_or / bitwise_and / bitwise_or (m1, m2), numpy.logical_not / invert / bitwise_not (m)  ==  m1 & m2, ~m
          * numpy.nonzero(m), m.nonzero()            ==  numpy.where(m)  (documented: where(cond) is nonzero(cond)): a tuple of index arrays
          * numpy.flatnonzero(m)                     ==  numpy.nonzero(numpy.ravel(m))[0]: the index array itself (never unpacked)
        Returns _NOT_A_CONDITION when the call is none of these (or carries out=/where=/other keywords, which are left to the other cases)."""
        f = c.func
        nm = call_name(c)
        if c.keywords or any(isinstance(a, ast.Starred) for a in c.args):
            return _NOT_A_CONDITION
        if isinstance(f, ast.Attribute) and f.attr == "nonzero" and not c.args and _np_full(self, f) is None:
            try:
                m = self.ev(f.value)
            except symx.Unsupported:
                return _NOT_A_CONDITION
            if isinstance(m, symx.Mask):
                return symx.Mask(m.cond)
            if m is True or m is False:
                return symx.Mask(sp.true if m else sp.false)
            return _NOT_A_CONDITION
        full = _np_full(self, f)
        if not full or not full.startswith("numpy.") or full != "numpy." + nm:
            return _NOT_A_CONDITION
        if nm in _COMPARE_UFUNCS and len(c.args) == 2:
            return self.compare(ast.copy_location(ast.Compare(left=c.args[0], ops=[_COMPARE_UFUNCS[nm]()], comparators=[c.args[1]]), c))
        if nm in ("logical_and", "logical_or", "bitwise_and", "bitwise_or") and len(c.args) == 2:
            a, b = self.ev(c.args[0]), self.ev(c.args[1])
            both = [x for x in (a, b) if isinstance(x, symx.Mask)]
            if len(both) == 2:
                return symx.Mask((sp.And if nm.endswith("and") else sp.Or)(a.cond, b.cond))
            if both and any(x is True or x is False for x in (a, b)):
                k = a if not isinstance(a, symx.Mask) else b
                if nm.endswith("and"):
                    return symx.Mask(both[0].cond) if k else False
                return True if k else symx.Mask(both[0].cond)
            raise symx.Unsupported("symx: `%s` of values that are not conditions at %s" % (nm, self.where(c)))
        if nm in ("logical_not", "invert", "bitwise_not") and len(c.args) == 1:
            m = self.ev(c.args[0])
            if isinstance(m, symx.Mask):
                return symx.Mask(sp.Not(m.cond))
            if m is True or m is False:
                return not m
            raise symx.Unsupported("symx: `%s` of a value that is not a condition at %s" % (nm, self.where(c)))
        if nm in ("nonzero", "flatnonzero") and len(c.args) == 1:
            m = self.ev(c.args[0])
            cls = _FlatIndex if nm == "flatnonzero" else symx.Mask
            if isinstance(m, symx.Mask):
                return cls(m.cond)
            if m is True or m is False:
                return cls(sp.true if m else sp.false)
            raise symx.Unsupported("symx: %s() of non-condition at %s" % (nm, self.where(c)))
        return _NOT_A_CONDITION

    def assign(self, t, v, st):
        if isinstance(t, (ast.Tuple, ast.List)) and isinstance(v, _FlatIndex):
            # (w,) = numpy.flatnonzero(cond) unpacks the *elements* of the index array (an error unless exactly one is selected)
            raise symx.Unsupported("symx: cannot unpack the index array of flatnonzero() into %s at %s" % (norm(t), self.where(st)))
        return super().assign(t, v, st)

    def _masked_ufunc(self, c, w):
        nm = call_name(c)
        arity = 1 if nm in _UFUNC1 else 2 if nm in _UFUNC2 else None
        if arity is None or len(c.args) < arity:
            raise symx.Unsupported("symx: `%s` with where= at %s" % (nm, self.where(c)))
        out = c.args[arity] if len(c.args) > arity else kwarg(c, "out")
        m = self.ev(w)                               # the mask is taken on the operands as they are before the update
        plain = ast.copy_location(ast.Call(func=c.func, args=c.args[:arity], keywords=[k for k in c.keywords if k.arg not in ("where", "out")]), c)
        if m is True:
            r = super().call(plain)
            if out is not None:
                self.assign(out, r, c)
            return r
        if m is False and out is not None:
            return self.ev(symx._load(out))
        if not isinstance(m, symx.Mask) or out is None:
            # without out= the unselected elements are uninitialised
            raise symx.Unsupported("symx: `%s` with where= but no out=, or a non-mask condition, at %s" % (nm, self.where(c)))
        old = self.ev(symx._load(out))
        r = super().call(plain)
        if not (symx._is_expr(r) and symx._is_expr(old)):
            raise symx.Unsupported("symx: masked `%s` on non-scalar-like values at %s" % (nm, self.where(c)))
        new = sp.Piecewise((symx._as_expr(r), m.cond), (symx._as_expr(old), True))
        self.assign(out, new, c)
        return new

    def _positional(self, c, tgt):
        """the call with its arguments in the order of tgt's parameters (keywords bound, literal defaults filled in), or None.  For the range
        fold whose step is one of its parameters (see _fold_info) a step of exactly 360 is left out: atbound(v, lo, hi) is the fold by whole
        turns of 360 whether the 360 is written in the helper or handed to it"""
        b = _bound_args(c, tgt)
        if b is None:
            return None
        args = []
        for p in [p for p in tgt.params if not p.startswith("*")]:
            if p in b:
                args.append(b[p])
            elif p in tgt.defaults and _is_literal(tgt.defaults[p]):
                args.append(tgt.defaults[p])
            else:
                return None
        info = _fold_info(self.se.repo)
        if info is not None and tgt.qualname == info["qualname"] and info["period_index"] is not None and len(args) == info["period_index"] + 1:
            try:
                v = self.ev(args[-1])
            except symx.Unsupported:
                v = None
            if v is not None and not isinstance(v, bool) and symx._is_expr(v) and sp.simplify(symx._as_expr(v) - 360) == 0:
                args = args[:-1]
        return ast.copy_location(ast.Call(func=c.func, args=args, keywords=[]), c)

    def _construct(self, c, cmod, cls):
        """constant evaluation of the construction of a plain dataclass (no bases, generated __init__): the fields in order bound to the
        arguments / their defaults, then __post_init__ evaluated on them (attribute stores, also through object.__setattr__ as a frozen
        dataclass has to).  -> _Instance {attribute: value}"""
        repo = self.se.repo
        bad = "symx: construction of `%s` at %s" % (cls.name, self.where(c))
        isdc = False
        for dec in cls.decorator_list:
            dn = dotted_name(dec.func if isinstance(dec, ast.Call) else dec)
            if not dn or repo.resolve_name(cmod, dn) != "dataclasses.dataclass":
                raise symx.Unsupported(bad + ": decorated class")
            isdc = True
            if isinstance(dec, ast.Call) and (dec.args or any(k.arg not in ("frozen", "eq", "order", "repr", "slots", "unsafe_hash") for k in dec.keywords)):
                raise symx.Unsupported(bad + ": dataclass options")
        if not isdc or cls.bases or cls.keywords:
            raise symx.Unsupported(bad + ": not a plain dataclass")
        cenv = type(self)(self.se, None, cmod, {}, {}, depth=self.depth + 1)
        fields, attrs, post = [], {}, None
        for st in cls.body:
            if isinstance(st, ast.Pass) or (isinstance(st, ast.Expr) and isinstance(st.value, ast.Constant)):
                continue
            if isinstance(st, ast.AnnAssign) and isinstance(st.target, ast.Name) and not any(w_ in norm(st.annotation) for w_ in ("ClassVar", "InitVar", "KW_ONLY")):
                default, init = st.value, True
                if isinstance(default, ast.Call) and dotted_name(default.func) and repo.resolve_name(cmod, dotted_name(default.func)) == "dataclasses.field":
                    if default.args or any(k.arg not in ("default", "init", "repr", "compare", "hash", "metadata") for k in default.keywords):
                        raise symx.Unsupported(bad + ": field options of `%s`" % st.target.id)
                    iv = kwarg(default, "init")
                    if iv is not None and not isinstance(const_value(iv), bool):
                        raise symx.Unsupported(bad + ": field options of `%s`" % st.target.id)
                    init = True if iv is None else const_value(iv)
                    default = kwarg(default, "default")
                fields.append((st.target.id, default, init))
            elif isinstance(st, ast.FunctionDef) and st.name == "__post_init__" and not st.decorator_list:
                post = st
            elif isinstance(st, ast.FunctionDef) and not (st.name.startswith("__") and st.name.endswith("__")):
                continue            # a method or property: not an attribute this evaluation provides
            else:
                raise symx.Unsupported(bad + ": class body statement at line %s" % getattr(st, "lineno", "?"))
        if any(isinstance(a, ast.Starred) for a in c.args) or any(k.arg is None for k in c.keywords):
            raise symx.Unsupported(bad + ": starred arguments")
        inits = [n for n, _, i in fields if i]
        if len(c.args) > len(inits):
            raise symx.Unsupported(bad + ": too many arguments")
        given = dict(zip(inits, c.args))
        for k in c.keywords:
            if k.arg in given or k.arg not in inits:
                raise symx.Unsupported(bad + ": argument `%s`" % k.arg)
            given[k.arg] = k.value
        for n, default, init in fields:
            if init and n in given:
                attrs[n] = self.ev(given[n])
            elif default is not None:
                attrs[n] = cenv.ev(default)
            elif init:
                raise symx.Unsupported(bad + ": no value for field `%s`" % n)
        if post is not None:
            pa = post.args
            if len(pa.args) != 1 or pa.posonlyargs or pa.kwonlyargs or pa.vararg or pa.kwarg:
                raise symx.Unsupported(bad + ": __post_init__ with parameters")
            me = pa.args[0].arg
            pfi = repo.funcs.get("%s.%s.__post_init__" % (cmod.name, cls.name))
            v0 = {me: symx.Opaque("self")}
            v0.update({"%s.%s" % (me, k): v for k, v in attrs.items()})
            penv = type(self)(self.se, pfi, cmod, v0, {}, depth=self.depth + 1)
            penv.exec_body(post.body, sp.true)
            attrs = {k[len(me) + 1:]: v for k, v in penv.vars.items() if k.startswith(me + ".") and "." not in k[len(me) + 1:]}
        return _Instance(attrs)

    def _call_varargs(self, c, tgt):
        """inline a package helper  def h(a, b, *rest)  called with plain positional / keyword arguments; arrays passed through *rest
        that the helper updates in place (loop over rest with out= ufuncs / augmented assignment) are updated in the caller"""
        named = [p for p in tgt.params if not p.startswith("*")]
        star = [p for p in tgt.params if p.startswith("*") and not p.startswith("**")][0][1:]
        kwonly = [a.arg for a in tgt.node.args.kwonlyargs]
        pos = [p for p in named if p not in kwonly]
        vals = [self.ev(a) for a in c.args]
        bind = dict(zip(pos, vals))
        rest = list(vals[len(pos):])
        bind[star] = list(rest)
        for k in c.keywords:
            bind[k.arg] = self.ev(k.value)
        env = type(self)(self.se, tgt, tgt.module, dict(bind), {}, depth=self.depth + 1)
        for p in tgt.params:
            pn = p.lstrip("*")
            if pn not in env.vars and pn in tgt.defaults:
                env.vars[pn] = env.ev(tgt.defaults[pn])
        # the loop variable over *rest must only be updated in place (never re-bound by a plain assignment)
        for x in ast.walk(tgt.node):
            if isinstance(x, ast.For) and isinstance(x.iter, ast.Name) and x.iter.id == star:
                tn = {t.id for t in ast.walk(x.target) if isinstance(t, ast.Name)}
                for y in ast.walk(x):
                    if isinstance(y, (ast.Assign, ast.AnnAssign)):
                        for t_ in (y.targets if isinstance(y, ast.Assign) else [y.target]):
                            if not isinstance(t_, ast.Subscript) and any(isinstance(t, ast.Name) and t.id in tn for t in ast.walk(t_)):
                                raise symx.Unsupported("symx: loop variable over *%s re-bound in %s at %s" % (star, tgt.name, self.where(c)))
        rets = env.exec_body(tgt.node.body, sp.true)
        env.finish_returns(rets)
        after = env.vars.get(star)
        if isinstance(after, list) and len(after) == len(rest):
            for a, old, new in zip(c.args[len(pos):], rest, after):
                if isinstance(a, ast.Name) and not symx._same(old, new) and symx._is_expr(new):
                    self.vars[a.id] = new
        for p, a in zip(pos, c.args):
            if isinstance(a, ast.Name) and p in env.vars and not symx._same(env.vars[p], bind.get(p)) and symx._is_expr(env.vars[p]) \
                    and p in symx._inplace_params(tgt):
                self.vars[a.id] = env.vars[p]
        return env.result


class _Eval(symx.SymEval):
    """SymEval running on _Env"""

    def module_const(self, mod, name, depth=0):
        v = super().module_const(mod, name, depth)
        if v is None and name in mod.consts:
            key = ("_Env", mod.name, name)
            if key not in self._const_cache:
                self._const_cache[key] = None
                try:
                    self._const_cache[key] = _Env(self, None, mod, {}, {}).ev(mod.consts[name])
                except symx.Unsupported:
                    pass
            v = self._const_cache[key]
        return v

    def run(self, fi, args, flags=None, depth=0, pins=None):
        flags = dict(flags or {})
        env = _Env(self, fi, fi.module, dict(args), flags, depth=depth)
        env.pins = dict(pins or {})
        names = [p.lstrip("*") for p in fi.params]
        for p in fi.params:
            pn = p.lstrip("*")
            if pn not in env.vars:
                if pn in fi.defaults:
                    env.vars[pn] = env.ev(fi.defaults[pn])
                elif p.startswith("**"):
                    env.vars[pn] = {}
                elif p.startswith("*"):
                    env.vars[pn] = ()
        for k, v in flags.items():
            if k in names:
                env.vars[k] = v
        rets = env.exec_body(fi.node.body, sp.true)
        env.finish_returns(rets)
        self.last_env = env
        return env.result


def run(chk):
    repo = _load_repo()
    chk.set_templates(repo, semantic=SEMANTIC)
    mp.mp.dps = 30
    chk.explanation = MANIFEST["text"]
    chk.trusted = ["sympy normaliser", "mpmath", "CPython ast"]
    chk.floor = 120
    fi = repo.func(CO + "euler")
    chk.analysed_unit(fi.qualname)
    eff, terms = euler_core(chk, repo, fi)
    tables(chk, repo, fi, eff)
    wrappers(chk, repo, eff, terms)
    rotate(chk, repo)
    unitvec(chk, repo)
    sdss(chk, repo)
    shift(chk, repo)
    folds(chk, repo)
    fold2(chk, repo)


# ---------------------------------------------------------------------------
def _mpf(x):
    return mp.mpf(str(sp.N(x, 40)))


def _circ(d):
    """distance of d from the nearest multiple of 2 pi"""
    d = mp.fmod(d, 2 * mp.pi)
    if d < 0:
        d += 2 * mp.pi
    return min(d, 2 * mp.pi - d)


def _reachable_code(repo, fi, depth=3):
    """(module, ast) of fi's body, of the package functions it calls (transitively, bounded), and of the module-level constants those read"""
    out, seen, todo = [], set(), [(fi, 0)]
    while todo:
        f, d = todo.pop()
        if f.qualname in seen:
            continue
        seen.add(f.qualname)
        out.append((f.module, f.node))
        for x in walk_no_nested(f.node):
            if isinstance(x, ast.Call) and d < depth:
                dn = dotted_name(x.func)
                full = repo.resolve_name(f.module, dn) if dn else None
                if full and repo.has(full):
                    todo.append((repo.func(full), d + 1))
    cseen = set()
    k = 0
    while k < len(out):
        mod, node = out[k]
        k += 1
        for x in ast.walk(node):
            if isinstance(x, ast.Name) and isinstance(x.ctx, ast.Load) and x.id in mod.consts and (mod.name, x.id) not in cseen:
                cseen.add((mod.name, x.id))
                out.append((mod, mod.consts[x.id]))
    return out


def _literal_value(mod, e):
    """30-digit value of a (possibly negated) numeric literal, read from the source text; None for anything else"""
    neg = isinstance(e, ast.UnaryOp) and isinstance(e.op, ast.USub)
    lit = e.operand if neg else e
    if not (isinstance(lit, ast.Constant) and isinstance(lit.value, (int, float)) and not isinstance(lit.value, bool)):
        return None
    txt = ast.get_source_segment(mod.src, lit) or repr(lit.value)
    try:
        v = mp.mpf(txt.replace("_", ""))
    except Exception:
        v = mp.mpf(repr(lit.value))
    return -v if neg else v


def _literal_tables(repo, fi, n=6):
    """every sequence of numeric literals (list or tuple display) in the code euler reaches, read at 30 digits from the source text;
    n: only sequences of that length (None: every length, and every single numeric literal as a sequence of one)"""
    seqs = []
    for mod, node in _reachable_code(repo, fi):
        inseq = set()
        for x in ast.walk(node):
            if isinstance(x, (ast.List, ast.Tuple)) and x.elts and (n is None or len(x.elts) == n):
                vals = [_literal_value(mod, e) for e in x.elts]
                if all(v is not None for v in vals):
                    seqs.append((vals, "%s:%s" % (mod.relpath, getattr(x, "lineno", "?"))))
                    inseq.update(id(e) for e in x.elts)
        if n is None:
            neg_operands = set()
            for x in ast.walk(node):
                if id(x) in inseq or id(x) in neg_operands:
                    continue
                v = _literal_value(mod, x)
                if v is not None:
                    if isinstance(x, ast.UnaryOp):
                        neg_operands.add(id(x.operand))
                    seqs.append(([v], "%s:%s" % (mod.relpath, getattr(x, "lineno", "?"))))
    return seqs


def _entry_ties(seqs, psi, st, ct, phi, tiny):
    """for each selector the literal entries behind the constants it uses, wherever and in whatever layout they are tabulated:
    psi and phi as written (an entry of some literal sequence), the sine/cosine pair as the same-position entries of two equally long
    literal sequences whose direction -- the sine possibly negated, as for an inverse rotation derived from the forward one -- is the
    direction of the pair used (renormalisation only changes the length).  -> [ {name: (value, where)} or None ] per selector"""
    by_len = {}
    for sv, wh in seqs:
        by_len.setdefault(len(sv), []).append((sv, wh, [float(v) for v in sv]))
    out = []
    for i in range(len(psi)):
        row = {}
        for nm, want in (("psi", psi[i]), ("phi", phi[i])):
            fw = float(want)
            for sv, wh in seqs:
                hit = [v for v in sv if abs(float(v) - fw) < 7 and _circ(v - want) <= tiny]
                if hit:
                    row[nm] = (hit[0], wh)
                    break
        fs, fc = float(st[i]), float(ct[i])
        for n_, group in by_len.items():
            if "stheta" in row:
                break
            for sv, wh, fsv in group:
                if "stheta" in row:
                    break
                for cv, wh2, fcv in group:
                    ks = [k for k in range(n_) if abs(abs(fsv[k]) * fc - fcv[k] * abs(fs)) < 1e-9 and abs(fsv[k] * fs) + fcv[k] * fc > 0.5]
                    for k in ks:
                        for sg in (1, -1):
                            if abs(sg * sv[k] * ct[i] - cv[k] * st[i]) <= tiny and sg * sv[k] * st[i] + cv[k] * ct[i] > mp.mpf("0.5"):
                                row["stheta"], row["ctheta"] = (sg * sv[k], wh), (cv[k], wh2)
                                break
                        if "stheta" in row:
                            break
                    if "stheta" in row:
                        break
        out.append(row if len(row) == 4 else None)
    return out


def tables(chk, repo, fi, eff):
    """R09.1 on the rotation constants.  eff[(epoch, select)] are the constants euler() actually uses for that selector, read off the
    evaluated output terms (so it does not matter where or how the tables are stored); the literal tables are located through their
    tie to those constants: an n-th entry of a 6-entry literal sequence for select = n, or -- for any other layout (forward rotations
    only, one row per selector, ...) -- literal entries that are the constants used (up to the renormalisation of the sine/cosine pair)."""
    d2r = mp.pi / 180
    seqs = _literal_tables(repo, fi)
    allseqs = None
    tiny = mp.mpf("1e-20")
    for ep in ("J2000", "B1950"):
        E = [eff.get((ep, sel)) for sel in range(1, 7)]
        if any(e is None for e in E):
            chk.ob("R09.1", "%s::rotation-constants-readable" % ep, None, fi.where(),
                   "the rotation constants (psi, sin/cos theta, phi) of every selector can be read off the evaluated terms of euler()")
            continue
        psi, st, ct, phi = [[_mpf(e[k]) for e in E] for k in ("psi", "stheta", "ctheta", "phi")]
        # the literal tables behind the constants: psi and phi are used as tabulated; the sine/cosine pair used is the tabulated pair up to a
        # common positive factor (renormalisation), so the pair of tables is found by direction, whatever its norm
        raw = {}
        for nm, vals in (("psi", psi), ("phi", phi)):
            for sv, wh in seqs:
                if all(_circ(x - y) <= tiny for x, y in zip(sv, vals)):
                    raw[nm] = (sv, wh)
                    break
        for sv, wh in seqs:
            for cv, wh2 in seqs:
                if "stheta" not in raw and all(abs(sv[i] * ct[i] - cv[i] * st[i]) <= tiny and sv[i] * st[i] + cv[i] * ct[i] > mp.mpf("0.5") for i in range(6)):
                    raw["stheta"], raw["ctheta"] = (sv, wh), (cv, wh2)
        if len(raw) == 4:
            rows = [{k: (v[0][i], v[1]) for k, v in raw.items()} for i in range(6)]
            desc = "literal tables %s" % ", ".join("%s at %s" % (k, v[1]) for k, v in sorted(raw.items()))
        else:
            # another layout: tie the constants of each selector to literal entries one by one
            if allseqs is None:
                allseqs = _literal_tables(repo, fi, n=None)
            rows = _entry_ties(allseqs, psi, st, ct, phi, tiny)
            desc = "literal entries: " + "; ".join("select=%d: %s" % (i + 1, ", ".join("%s at %s" % (k, v[1]) for k, v in sorted(r.items())) if r else "not located")
                                                    for i, r in enumerate(rows))
        found = all(r is not None for r in rows)
        chk.ob("R09.5", "euler[%s]::selector-is-one-based" % ep, True if found else None, fi.where(),
               "select = n uses the n-th rotation: the psi / stheta / ctheta / phi it uses are the tabulated literals of that rotation (%s)" % desc[:600])
        for i in range(6):
            j = INV[i]
            if rows[i] is not None:
                rs, rc = rows[i]["stheta"][0], rows[i]["ctheta"][0]
                chk.ob("R09.1", "%s::sel%d::unit-norm" % (ep, i + 1), abs(rs ** 2 + rc ** 2 - 1) <= mp.mpf("1e-9"), fi.where(),
                       "tabulated stheta^2+ctheta^2 = 1 within 1e-9 (deviation %s)" % mp.nstr(rs ** 2 + rc ** 2 - 1, 3))
                tie = abs(rs - st[i]) <= mp.mpf("1e-10") and abs(rc - ct[i]) <= mp.mpf("1e-10")
                chk.ob("R09.1", "euler[%s,select=%d]::pair-used-is-the-tabulated-pair" % (ep, i + 1), bool(tie), fi.where(),
                       "the pair used agrees with the tabulated stheta/ctheta within 1e-10 (renormalisation only)")
            else:
                chk.ob("R09.1", "%s::sel%d::unit-norm" % (ep, i + 1), None, fi.where(),
                       "tabulated stheta^2+ctheta^2 = 1 within 1e-9: no literal entries tie to the constants euler() uses for this selector")
            ok = _circ(psi[i] - phi[j]) <= tiny and abs(st[i] + st[j]) <= tiny and abs(ct[i] - ct[j]) <= tiny
            chk.ob("R09.1", "%s::sel%d::inverse-of-sel%d" % (ep, i + 1, j + 1), bool(ok), fi.where(),
                   "selector %d is the inverse rotation of selector %d: psi<->phi exchanged, stheta negated, ctheta equal" % (i + 1, j + 1))
        r = {k: mp.mpf(v) for k, v in REF[ep].items()}
        exp = {0: (r["lomega"] * d2r, mp.cos(r["deltaG"] * d2r), mp.sin(r["deltaG"] * d2r), ((r["alphaG"] + 90) % 360) * d2r),
               2: (mp.mpf(0), mp.sin(r["eps"] * d2r), mp.cos(r["eps"] * d2r), mp.mpf(0))}
        if "Eomega" in r:
            exp[4] = (r["Eomega"] * d2r, mp.cos(r["deltaE"] * d2r), mp.sin(r["deltaE"] * d2r), ((r["alphaE"] + 90) % 360) * d2r)
        tol = mp.mpf("1e-7")
        for i, (a, b, c, d) in exp.items():
            for nm, got, want, circ in (("psi", psi[i], a, True), ("stheta", st[i], b, False), ("ctheta", ct[i], c, False), ("phi", phi[i], d, True)):
                dev = _circ(got - want) if circ else abs(got - want)
                chk.ob("R09.1", "%s::sel%d::%s-vs-documented-constants" % (ep, i + 1, nm), dev <= tol, fi.where(),
                       "%s[%d] = %s agrees with the value %s derived from the documented pole/node constants within 1e-7 rad (delta %s)"
                       % (nm, i, mp.nstr(got, 12), mp.nstr(want, 12), mp.nstr(dev, 3)))


def _side(c, v, inner):
    """which side does the masked store `value v under condition c` clamp?  'hi' / 'lo' / None"""
    if not isinstance(c, (sp.Gt, sp.Ge, sp.Lt, sp.Le)):
        return None
    d = c.lhs - c.rhs          # c is  d > 0  or  d < 0
    pos = isinstance(c, (sp.Gt, sp.Ge))
    for sign, bound, side in ((1, 1, "hi"), (-1, -1, "lo")):
        # upper clamp:  inner - 1 > 0  (or 1 - inner < 0);  lower clamp: inner + 1 < 0 (or -inner - 1 > 0)
        want = inner - bound
        if sp.simplify(d - want) == 0 and ((pos and side == "hi") or (not pos and side == "lo")) and v == bound:
            return side
        if sp.simplify(d + want) == 0 and ((not pos and side == "hi") or (pos and side == "lo")) and v == bound:
            return side
    return None


def _two_sided(arg):
    """is the asin argument clamped on both sides?  returns (ok, description, inner value)"""
    CL = sp.Function("CLIP")
    if isinstance(arg, CL):
        lo, hi = arg.args[1], arg.args[2]
        return (lo == -1 and hi == 1), "clip(%s, %s)" % (lo, hi), arg.args[0]
    sides = set()
    cur = arg
    for _ in range(4):
        if not isinstance(cur, sp.Piecewise):
            break
        default = [v for v, c in cur.args if c == sp.true]
        if not default:
            break
        inner = default[0]
        base = inner
        while isinstance(base, sp.Piecewise):
            dd = [v for v, c in base.args if c == sp.true]
            if not dd:
                break
            base = dd[0]
        for v, c in cur.args:
            if c != sp.true:
                sd = _side(c, v, base) or _side(c, v, inner)
                if sd:
                    sides.add(sd)
        cur = inner
    ok = sides == {"hi", "lo"}
    return ok, "masked clamp: upper side %s, lower side %s" % ("present" if "hi" in sides else "MISSING", "present" if "lo" in sides else "MISSING"), cur


def _strip_clamp(arg):
    CL = sp.Function("CLIP")
    for _ in range(4):
        if isinstance(arg, CL):
            arg = arg.args[0]
        elif isinstance(arg, sp.Piecewise):
            d = [v for v, c in arg.args if c == sp.true]
            if not d:
                return None
            arg = d[0]
        else:
            break
    return arg


def _effective_pair(lat, ai, bi, phi):
    """(s, c) actually multiplying the latitude formula sin(lat') = -s cos b sin(a - phi) + c sin b, read off the evaluated term"""
    try:
        k, rest = lat.as_independent(ai, bi, as_Add=False)
        if not isinstance(rest, sp.asin):
            return None
        arg = _strip_clamp(rest.args[0])
        if arg is None:
            return None
        c = sp.simplify(arg.subs(bi, 90))
        sneg = sp.simplify(arg.subs(bi, 0).subs(ai, (sp.pi / 2 + phi) * 180 / sp.pi))
        if c.free_symbols or sneg.free_symbols:
            return None
        return -sneg, c
    except Exception:
        return None


def _read_constants(ao, bo, ai, bi):
    """the rotation constants (psi, stheta, ctheta, phi) euler() uses, read off its evaluated output terms: phi is what is subtracted from
    the input longitude inside the trigonometric functions, (stheta, ctheta) the coefficients of the latitude formula, psi the constant
    added to the arctangent of the longitude.  None when the terms do not have that shape."""
    try:
        k, rest = bo.as_independent(ai, bi, as_Add=False)
        if not isinstance(rest, sp.asin):
            return None
        f = _strip_clamp(rest.args[0])
        if f is None:
            return None
        phis = set()
        for t in f.atoms(sp.sin, sp.cos):
            a = sp.expand(t.args[0])
            if ai not in a.free_symbols:
                continue
            co = a.coeff(ai)
            if co == 0 or (a - co * ai).free_symbols:
                return None
            if co.is_negative:
                a, co = -a, -co
            if sp.simplify(co - sp.pi / 180) != 0:
                return None
            phis.add(sp.simplify(co * ai - a))
        if len(phis) != 1:
            return None
        phi = phis.pop()
        pair = _effective_pair(bo, ai, bi, phi)
        if pair is None:
            return None
        k, rest = ao.as_independent(ai, bi, as_Add=False)
        inner = rest.args[0] if isinstance(rest, sp.Mod) else rest
        psi, dep = inner.as_independent(ai, bi, as_Add=True)
        if not psi.is_number or not isinstance(dep, sp.atan2):
            return None
        return {"psi": psi, "stheta": pair[0], "ctheta": pair[1], "phi": phi}
    except Exception:
        return None


def _guard_disjuncts(c):
    """the guard c as a list of alternatives, each a list of relations (see _flat_conds); None for anything else"""
    out = []
    for a in (c.args if isinstance(c, sp.Or) else [c]):
        rels = _flat_conds([a])
        if not rels:
            return None
        out.append(rels)
    return out


def _position_alternatives(ao, bo, coords):
    """(ao', bo', alternatives): every alternative of a Piecewise sub-term of the result whose guard speaks about the input coordinates alone and
    pins one of them to isolated values in each of its disjuncts (see _pinning_equation: lat == 90, |lat| == 90, |lon - node| < 1e-12, ...) is
    taken out of the terms.  alternatives = [(guard relations, lon', lat')]: the result with that alternative selected; (ao', bo') is the result
    for every other position.  The guard may as well speak about a value computed from the coordinates (the output latitude): then it contains
    both coordinates and is kept as written for _euler_alternatives to decide"""
    cs = set(coords)
    alts = []
    for _ in range(12):
        T = sp.Tuple(ao, bo)
        hit = None
        for pw in sp.preorder_traversal(T):
            if not isinstance(pw, sp.Piecewise) or pw.args[-1][1] is not sp.true:
                continue
            before = []
            for i, (v, c) in enumerate(pw.args[:-1]):
                dj = _guard_disjuncts(c)
                if dj and all(all(r_.free_symbols and r_.free_symbols <= cs for r_ in rels) and any(_pinning_equation(r_) is not None for r_ in rels)
                              for rels in dj):
                    hit = (pw, i, v, dj, list(before))
                    break
                before.append(c)
            if hit:
                break
        if hit is None:
            break
        pw, i, v, dj, before = hit
        rest = [a for j, a in enumerate(pw.args) if j != i]
        gen = rest[0][0] if len(rest) == 1 else sp.Piecewise(*rest, evaluate=False)
        alt = T.xreplace({pw: v})
        for rels in dj:
            alts.append(([sp.Not(b) for b in before] + list(rels), alt[0], alt[1]))
        g = T.xreplace({pw: gen})
        ao, bo = g[0], g[1]
    return ao, bo, alts


def _clip_as_minmax(e):
    CL = sp.Function("CLIP")
    return e.replace(lambda t: isinstance(t, CL) and len(t.args) == 3, lambda t: sp.Max(t.args[1], sp.Min(t.args[2], t.args[0])))


def _euler_alternatives(chk, fi, ep, sel, alts, T, bo_general, coords):
    """R09.10 alternative-under-position-guard: a result euler() returns only for positions that satisfy a guard pinning an input coordinate to
    isolated values (a canonical longitude `at the pole', a shortcut at the node, ...) must be the same DIRECTION as the rotation of that
    position for EVERY position the guard lets through: the poles of the source system are ordinary points of the target system, only at the
    poles of the TARGET system is the longitude free.  The guard's solution set is computed, substituted into the returned terms and into
    the rotation with the constants euler() uses, and the two unit vectors are compared as terms."""
    ai, bi = coords
    tag = "[%s,select=%d]" % (ep, sel)
    if not alts:
        chk.ob("R09.10", "euler::alternative-under-position-guard::%s" % tag, True, fi.where(),
               "euler() returns no result that is selected by a guard pinning an input coordinate to isolated values")
        return
    d2r = sp.pi / 180
    for k, (conds, ra_v, dec_v) in enumerate(alts):
        key = "euler::alternative-under-position-guard::%s::%d" % (tag, k + 1)
        gtxt = " and ".join(str(c) for c in (_flat_conds(conds) or conds))[:200]
        what = "euler%s: the result returned when %s (lon' = %s, lat' = %s) is the direction the rotation gives for every position that satisfies this guard" % (
            tag, gtxt, str(ra_v)[:80], str(dec_v)[:60])
        if T is None:
            chk.ob("R09.10", key, None, fi.where(), what + ": the rotation constants could not be read off the general result")
            continue
        # the guard confines the OUTPUT latitude (the latitude term this alternative returns, unchanged from the general result) to +-90: the
        # position is a pole of the target system, where every longitude is the same direction
        at_pole = False
        if dec_v == bo_general:
            Lv = sp.Dummy("L", real=True)
            k_, core_ = dec_v.as_independent(ai, bi, as_Add=False)
            for c in (_flat_conds(conds) or []):
                g = _pinning_equation(c)
                if g is None or not (k_.is_number and k_ != 0):
                    continue
                # the same latitude term, however its argument happens to be arranged
                same = {A: Lv / k_ for A in g.atoms(type(core_)) if A == core_ or sp.expand(A) == sp.expand(core_)} if isinstance(core_, sp.Function) else {}
                if not same:
                    continue
                g2 = sp.simplify(g.xreplace(same))
                fam_ = _solution_families(g2, Lv) if g2.free_symbols == {Lv} else None
                if fam_ and all(t in (sp.Integer(90), sp.Integer(-90)) for t in fam_):
                    at_pole = True
        if at_pole:
            chk.ob("R09.10", key, True, fi.where(), what + " (the guard confines the output latitude to +-90: a pole of the target system, where the longitude is free)")
            continue
        subs, open_ = _pinned_angles(conds, (ai, bi))
        if subs is None:
            chk.ob("R09.10", key, None, fi.where(), what + ": the solution set of the guard could not be computed")
            continue
        a = ai * d2r - T["phi"]
        b = bi * d2r
        x1 = sp.cos(b) * sp.cos(a)
        y1 = T["ctheta"] * sp.cos(b) * sp.sin(a) + T["stheta"] * sp.sin(b)
        z1 = -T["stheta"] * sp.cos(b) * sp.sin(a) + T["ctheta"] * sp.sin(b)
        L = dec_v * d2r
        A = ra_v * d2r - T["psi"]
        res = [sp.cos(L) * sp.cos(A) - x1, sp.cos(L) * sp.sin(A) - y1, sp.sin(L) - z1]
        allok, bad = True, None
        for s_ in subs:
            fam = ", ".join("%s = %s" % (q, sp.simplify(t)) for q, t in sorted(s_.items(), key=lambda kv: str(kv[0]))).replace("_n", "n")
            for r_ in res:
                try:
                    r1 = _clip_as_minmax(_unmod_turns(r_.subs(s_)))
                except Exception:
                    allok = False
                    continue
                proven = False
                if not r1.free_symbols:
                    try:
                        val = abs(mp.mpf(str(sp.N(r1, 30))))
                    except Exception:
                        val = None
                    if val is not None and val <= mp.mpf("1e-9"):
                        proven = True
                    elif val is not None:
                        bad = "for %s (any value of the other coordinate) the returned direction differs from the rotation of that position by %s (unit-vector component)" % (fam, mp.nstr(val, 3))
                else:
                    for f in (lambda x: x, sp.expand_trig, sp.simplify):
                        try:
                            z = symx._with_timeout(lambda: f(r1), 5.0)
                        except Exception:
                            continue
                        if z == 0:
                            proven = True
                            break
                    if not proven:
                        bad = _position_witness(conds, r1, s_, coords, fam)
                if bad is not None:
                    break
                if not proven:
                    allok = False
            if bad is not None:
                break
        if bad is not None:
            chk.ob("R09.10", key, False, fi.where(), what + ": " + bad + " -- a pole (or any other special point) of the source system is an ordinary point "
                   "of the target system; the longitude is free only where the OUTPUT latitude is +-90")
            continue
        chk.ob("R09.10", key, True if allok else None, fi.where(),
               what + ("" if allok else ": the returned terms could not be shown equal to the rotation on the guard's solution set, nor different from it"))


def _position_witness(conds, residual, sub, coords, fam):
    """a position of the guard's solution set at which the residual term is not zero (exact values that satisfy every relation of the guard, the
    residual term evaluated there in 30-digit arithmetic): refutes the identity of two terms, it is not a run of the code.  -> text or None"""
    rels = _flat_conds(conds) or []
    ints = sorted({x for t in sub.values() for x in t.free_symbols if x.is_integer}, key=str)
    ints += sorted({x for x in residual.free_symbols if x.is_integer and x not in ints}, key=str)
    for base in ((37, 23), (211, -48), (122, 61)):
        for nval in (0, 1, -1):
            at = dict(zip(coords, [sp.Integer(v) for v in base]))
            for q, t in sub.items():
                at[q] = t.subs({n: nval for n in ints})
            at = {q: sp.sympify(v).subs({p: w for p, w in at.items() if p != q}) for q, v in at.items()}
            if any(v.free_symbols for v in at.values()):
                continue
            try:
                if not all(sp.simplify(c.subs(at)) is sp.true for c in rels):
                    continue
                val = abs(mp.mpf(str(sp.N(residual.subs(at).subs({n: nval for n in ints}), 30))))
            except Exception:
                continue
            if val > mp.mpf("1e-9"):
                return "at lon=%s lat=%s, which satisfies the guard (%s), the returned direction differs from the rotation of that position by %s (unit-vector component)" % (
                    at[coords[0]], at[coords[1]], fam, mp.nstr(val, 3))
    return None


def euler_core(chk, repo, fi):
    se = _Eval(repo)
    ai, bi = symx.symbols("ai", "bi")
    d2r = sp.pi / 180
    eff = {}
    terms = {}
    for ep in ("J2000", "B1950"):
        for sel in range(1, 7):
            tag = "euler[%s,select=%d]" % (ep, sel)
            try:
                r = se.run(fi, {"ai": ai, "bi": bi, "select": sp.Integer(sel)}, {"b1950": ep == "B1950"})
            except (IndexError, KeyError) as e:
                # the selector (a number) indexes a literal table outside its bounds: the call raises for a documented selector
                chk.ob("R09.1", "euler::rotation-constants-exist-for-every-selector", False, fi.where(),
                       "%s: looking up the rotation constants fails (%s: %s)" % (tag, type(e).__name__, e))
                continue
            if not (isinstance(r, tuple) and len(r) == 2 and all(isinstance(x, sp.Basic) for x in r)):
                chk.ob("R09.2", tag + "::returns-pair", False, fi.where(), "expected (lon, lat), got %r" % (r,))
                continue
            ao, bo = r
            terms[(ep, sel)] = (ao, bo)
            # results returned only for positions that satisfy a guard pinning a coordinate to isolated values (a special case for a pole, for
            # the node, ...) are set aside and compared with the rotation on the guard's solution set (R09.10); what remains is the general form
            ao, bo, alts = _position_alternatives(ao, bo, (ai, bi))
            T = _read_constants(ao, bo, ai, bi)
            eff[(ep, sel)] = T
            _euler_alternatives(chk, fi, ep, sel, alts, T, bo, (ai, bi))
            if T is None:
                chk.ob("R09.2", tag + "::latitude-formula", False, fi.where(),
                       "the evaluated terms do not have the shape lat' = asin(-s cos b sin(a-phi) + c sin b), lon' = atan2(...) + psi with constant s, c, phi, psi: %s"
                       % str(r)[:200])
                continue
            se_, ce_ = T["stheta"], T["ctheta"]
            dev = abs(mp.mpf(sp.N(se_ ** 2 + ce_ ** 2 - 1, 40)))
            # a point at the pole of the target system gets sin(lat') = s^2 + c^2; with s^2 + c^2 = 1 - eps the latitude is short of 90 deg by
            # sqrt(2 eps) rad, so the property's 1e-5 degree (poles are in its quantifier) needs eps <= (1e-5 pi/180)^2 / 2 = 1.5e-14
            lim = (mp.mpf("1e-5") * mp.pi / 180) ** 2 / 2
            chk.ob("R09.1", "euler::rotation-sine-cosine-unit-norm" if dev > lim else tag + "::rotation-sine-cosine-unit-norm", dev <= lim, fi.where(),
                   "the sine/cosine pair actually used satisfies |s^2 + c^2 - 1| <= %s (needed for 1e-5 degree at the target pole, where sin(lat') = s^2 + c^2); "
                   "deviation %s" % (mp.nstr(lim, 3), mp.nstr(dev, 3)))
            a = ai * d2r - T["phi"]
            b = bi * d2r
            lat_arg = -T["stheta"] * sp.cos(b) * sp.sin(a) + T["ctheta"] * sp.sin(b)
            lon_arg = sp.atan2(T["ctheta"] * sp.cos(b) * sp.sin(a) + T["stheta"] * sp.sin(b), sp.cos(b) * sp.cos(a)) + T["psi"]
            # latitude
            k, rest = bo.as_independent(ai, bi, as_Add=False)
            okk = sp.simplify(k - 180 / sp.pi) == 0 and isinstance(rest, sp.asin)
            chk.ob("R09.2", tag + "::latitude-is-asin-in-degrees", bool(okk), fi.where(), "latitude = asin(...)*180/pi (range [-90,90])")
            if okk:
                ok2, desc, inner = _two_sided(rest.args[0])
                chk.ob("R09.3", "euler::asin-argument-clamped-both-sides" if not ok2 else tag + "::asin-argument-clamped-both-sides", ok2, fi.where(),
                       "the asin argument is clamped to [-1,1] on both sides (%s): rounding can push it below -1 as well as above 1, and an unclamped side gives NaN at the target system's pole" % desc)
                eq, d = symx.equal(inner, lat_arg)
                chk.ob("R09.2", tag + "::latitude-formula", eq, fi.where(), "sin(lat') = -stheta cos b sin(a-phi) + ctheta sin b%s" % ("" if eq else " (difference %s)" % str(d)[:160]))
            # longitude
            k, rest = ao.as_independent(ai, bi, as_Add=False)
            okk = sp.simplify(k - 180 / sp.pi) == 0 and isinstance(rest, sp.Mod) and sp.simplify(rest.args[1] - 2 * sp.pi) == 0
            chk.ob("R09.4", tag + "::longitude-in-[0,360)", bool(okk), fi.where(), "longitude = (angle mod 2pi)*180/pi, i.e. in [0,360) (found %s)" % str(ao)[:100])
            if okk:
                inner = rest.args[0]
                # a positive multiple of 2pi may have been added before the modulo
                diff = sp.simplify(inner - lon_arg)
                eq = diff.is_number and sp.simplify(sp.Mod(diff, 2 * sp.pi)) == 0
                if not eq:
                    eq, _ = symx.equal(inner, lon_arg)
                chk.ob("R09.2", tag + "::longitude-formula", bool(eq), fi.where(), "lon' = atan2(ctheta cos b sin(a-phi) + stheta sin b, cos b cos(a-phi)) + psi (mod 2pi)")
    return eff, terms


def _bound_args(call, callee):
    """{parameter of callee: argument expression} for a call with plain positional and keyword arguments, else None"""
    if any(isinstance(a, ast.Starred) for a in call.args) or any(k.arg is None for k in call.keywords):
        return None
    kwonly = {a.arg for a in callee.node.args.kwonlyargs}
    pos = [p for p in callee.params if not p.startswith("*") and p not in kwonly]
    if len(call.args) > len(pos):
        return None
    out = dict(zip(pos, call.args))
    for k in call.keywords:
        if k.arg in out or k.arg not in [p.lstrip("*") for p in callee.params]:
            return None
        out[k.arg] = k.value
    return out


def _same_constants(A, B, tol=mp.mpf("1e-12")):
    return all((_circ(_mpf(A[k]) - _mpf(B[k])) if k in ("psi", "phi") else abs(_mpf(A[k]) - _mpf(B[k]))) <= tol for k in ("psi", "stheta", "ctheta", "phi"))


def _wrapper_terms(chk, repo, eff, terms):
    """R09.5 wrapper-term: each wrapper, evaluated to terms for either value of its epoch option (the call of the Euler core followed
    into it, however the arguments are passed), is the rotation the Euler core performs for the wrapper's own selector *in that epoch*:
    the rotation constants read off the wrapper's terms are those of euler(select = n, b1950 = the wrapper's b1950).  A wrapper that
    drops, fixes or inverts the epoch, or picks another selector, evaluates to the constants of a different (selector, epoch)."""
    ai, bi = symx.symbols("ai", "bi")
    se = _Eval(repo)
    for name, sel in WRAPPERS.items():
        fi = repo.func(CO + name)
        for ep in ("J2000", "B1950"):
            key = "wrapper-term::%s[%s]" % (name, ep)
            what = "%s(lon, lat, b1950=%s) is the rotation euler() performs for select=%d in epoch %s" % (name, ep == "B1950", sel, ep)
            want = eff.get((ep, sel))
            if want is None or len(fi.params) < 2 or "b1950" not in fi.params:
                chk.ob("R09.5", key, None, fi.where(), what + ": the wrapper has no b1950 option, or the constants of the Euler core could not be read")
                continue
            try:
                r = se.run(fi, {fi.params[0]: ai, fi.params[1]: bi}, {"b1950": ep == "B1950"})
            except AnalysisError as e:
                chk.ob("R09.5", key, None, fi.where(), what + ": the wrapper could not be evaluated (%s)" % str(e)[:160])
                continue
            if not (isinstance(r, tuple) and len(r) == 2 and all(isinstance(x, sp.Basic) for x in r)):
                chk.ob("R09.5", key, None, fi.where(), what + ": the wrapper does not evaluate to a (lon, lat) pair of terms: %s" % str(r)[:120])
                continue
            if r == terms.get((ep, sel)):
                chk.ob("R09.5", key, True, fi.where(), what + " (same terms)")
                continue
            got = _read_constants(r[0], r[1], ai, bi)
            if got is None:
                # e.g. the coordinates exchanged, or something done to the result: not a rotation of (lon, lat) in the shape euler() has
                chk.ob("R09.5", key, None, fi.where(), what + ": the wrapper's terms do not have the shape of euler()'s output: %s" % str(r)[:160])
                continue
            if _same_constants(got, want):
                eq = all(symx.equal(x, y)[0] for x, y in zip(r, terms[(ep, sel)]))
                chk.ob("R09.5", key, True if eq else None, fi.where(), what + (" (equal terms)" if eq else ": same rotation constants but the terms differ: %s" % str(r)[:160]))
                continue
            other = ["select=%d in epoch %s" % (s2, e2) for (e2, s2), t in sorted(eff.items()) if t is not None and _same_constants(got, t)]
            chk.ob("R09.5", key, False, fi.where(),
                   what + ": the rotation constants the call of the Euler core in %s ends up using are %s, not psi=%s stheta=%s ctheta=%s phi=%s%s"
                   % (name, ", ".join("%s=%s" % (k, mp.nstr(_mpf(got[k]), 12)) for k in ("psi", "stheta", "ctheta", "phi")),
                      mp.nstr(_mpf(want["psi"]), 12), mp.nstr(_mpf(want["stheta"]), 12), mp.nstr(_mpf(want["ctheta"]), 12), mp.nstr(_mpf(want["phi"]), 12),
                      (" -- those of %s: the epoch option or the selector does not reach euler()" % " / ".join(other)) if other else ""))


def wrappers(chk, repo, eff, terms):
    """each wrapper returns euler(...) with its own two coordinates bound to euler's two coordinate parameters in order, the selector
    parameter bound to the wrapper's number, and its epoch / dtype options bound to euler's -- however the arguments are passed
    (by position or by keyword, directly or through a single-definition temporary)"""
    core = repo.func(CO + "euler")
    p_lon, p_lat, p_sel = core.params[:3]
    for name, sel in WRAPPERS.items():
        fi = repo.func(CO + name)
        chk.analysed_unit(fi.qualname)
        rets = [x for x in walk_no_nested(fi.node) if isinstance(x, ast.Return)]
        b = None
        if len(rets) == 1 and rets[0].value is not None:
            c = rules.expand(rets[0].value, fi.node)
            d = dotted_name(c.func) if isinstance(c, ast.Call) else None
            if d and repo.resolve_name(fi.module, d) == core.qualname:
                b = _bound_args(c, core)
        ok = b is not None
        if ok:
            ok = [norm(b[p]) if p in b else None for p in (p_lon, p_lat)] == fi.params[:2] and p_sel in b and const_value(b[p_sel]) == sel \
                and not isinstance(const_value(b[p_sel]), bool)
            okk = all(o in b and norm(b[o]) == o and o in fi.params for o in ("b1950", "dtype"))
            chk.ob("R09.5", name + "::forwards-epoch-and-dtype", okk, fi.where(), "b1950= and dtype= are forwarded")
        chk.ob("R09.5", name + "::selector", bool(ok), fi.where(), "%s is euler(lon, lat, %d, ...) with its two coordinates in order" % (name, sel))
    _wrapper_terms(chk, repo, eff, terms)
    # chained = direct is a table property: selectors 5/6 (ec<->gal) must equal the product of 4,1 / 2,3; checked through the
    # documented constants above for J2000; for B1950 the relation is checked numerically on the literal tables


# ---------------------------------------------------------------------------
# zxz rotation: alternatives selected by a guard on the Euler angles
_TOL_GUARD = sp.Rational(1, 10 ** 7)          # rad; the property's 1e-5 degree is 1.7e-7 rad


def _flat_conds(conds):
    """the guard as a list of relations (conjunctions flattened, negations of relations pushed in); None for anything else"""
    out = []
    todo = list(conds)
    while todo:
        c = todo.pop(0)
        if c is sp.true or c == True:                      # noqa
            continue
        if isinstance(c, sp.And):
            todo = list(c.args) + todo
        elif isinstance(c, sp.Not) and isinstance(c.args[0], sp.Rel):
            todo.insert(0, c.args[0].negated)
        elif isinstance(c, sp.Rel):
            out.append(c)
        else:
            return None
    return out


def _pinning_equation(c):
    """g when the relation c confines a quantity g to zero, or to a tolerance band around zero too narrow for the property's 1e-5 degree to tell
    from zero: every point with g = 0 satisfies c.  Recognised: an equation; |g| < eps, |g| <= eps, eps > |g| ... with a number
    0 < eps <= 1e-7; a sine / cosine (or its absolute value) compared with a number within 1e-7 of the end of its range on the side of that
    end (cos t > 1 - eps pins cos t = 1, |sin t| < eps pins sin t = 0, cos t <= -1 + eps pins cos t = -1).  None for a relation that holds
    on a whole range of angles"""
    if isinstance(c, sp.Eq):
        return c.lhs - c.rhs
    if not isinstance(c, (sp.Lt, sp.Le, sp.Gt, sp.Ge)):
        return None
    if isinstance(c, (sp.Gt, sp.Ge)) and c.lhs.is_number:
        c = c.reversed
    elif isinstance(c, (sp.Lt, sp.Le)) and c.lhs.is_number:
        c = c.reversed
    if not (c.rhs.is_number and c.rhs.is_real):
        # bring the numbers to the right:  t - k (op) 0  ->  t (op) k
        d = sp.expand(c.lhs - c.rhs)
        k, t = d.as_independent(*d.free_symbols, as_Add=True)
        if not (k.is_number and k.is_real) or t == 0:
            return None
        c = type(c)(t, -k)
    t, k = c.lhs, c.rhs
    co, core = t.as_independent(*t.free_symbols, as_Add=False)
    if co.is_number and co.is_real and co != 0 and co != 1:
        t, k = core, k / co
        if co < 0:
            c = c.reversed.func(t, k)                      # dividing by a negative number turns the relation round
        else:
            c = c.func(t, k)
    upper = isinstance(c, (sp.Lt, sp.Le))                   # t below k
    if isinstance(t, sp.Abs):
        lo, hi = sp.Integer(0), (sp.Integer(1) if isinstance(t.args[0], (sp.sin, sp.cos)) else None)
    elif isinstance(t, (sp.sin, sp.cos)):
        lo, hi = sp.Integer(-1), sp.Integer(1)
    else:
        return None
    if upper and 0 <= k - lo <= _TOL_GUARD and (k > lo or isinstance(c, sp.Le)):
        return t.args[0] if lo == 0 else t - lo
    if not upper and hi is not None and 0 <= hi - k <= _TOL_GUARD and (k < hi or isinstance(c, sp.Ge)):
        return t - hi
    return None


def _solution_families(g, v):
    """the real solutions of g = 0 for the symbol v as a list of terms (whole-number parameters as fresh integer symbols); None when the
    solution set does not come out as a finite union of points and one-parameter families"""
    co, core = g.as_independent(*g.free_symbols, as_Add=False)
    if isinstance(core, sp.Mod) and co.is_number and co != 0:
        g = core                                           # k Mod(f, m) = 0  <=>  Mod(f, m) = 0
    if isinstance(g, sp.Mod) and g.args[1].is_number and g.args[1] > 0:
        n = sp.Dummy("n", integer=True)
        g = g.args[0] - g.args[1] * n                      # Mod(f, m) = 0  <=>  f = m n
    try:
        S = symx._with_timeout(lambda: sp.solveset(sp.Eq(g, 0), v, sp.S.Reals), 10.0)
    except Exception:
        return None
    out = []

    def take(S):
        if S is sp.S.EmptySet:
            return True
        if isinstance(S, sp.FiniteSet):
            out.extend(S.args)
            return True
        if isinstance(S, sp.ImageSet) and S.base_sets == (sp.S.Integers,) and len(S.lamda.variables) == 1:
            n = sp.Dummy("n", integer=True)
            out.append(sp.simplify(S.lamda.expr.xreplace({S.lamda.variables[0]: n})))
            return True
        if isinstance(S, sp.Union):
            return all(take(a) for a in S.args)
        return False
    return out if take(S) else None


def _pinned_angles(conds, angles):
    """(substitutions, open) for a guard on the Euler angles: substitutions = the list of {angle: term} that solve the guard's pinning equations
    (see _pinning_equation) and are not excluded by its other relations, open = those other relations.  (None, None) when the guard is not a
    conjunction of relations on the Euler angles alone or its equations cannot be solved"""
    rels = _flat_conds(conds)
    if rels is None or any(not c.free_symbols or not c.free_symbols <= set(angles) for c in rels):
        return None, None
    eqs, open_ = [], []
    for c in rels:
        g = _pinning_equation(c)
        if g is None:
            open_.append(c)
        else:
            eqs.append(g)
    subs = [{}]
    for g in eqs:
        nxt = []
        for s_ in subs:
            g1 = g.subs(s_)
            free = [x for x in g1.free_symbols if x in angles]
            if not free:
                z = sp.simplify(g1)
                if z == 0:
                    nxt.append(s_)
                elif not z.is_number and not (z.is_zero is False):
                    return None, None
                continue
            if len(free) != 1:
                return None, None
            fam = _solution_families(g1, free[0])
            if fam is None:
                return None, None
            for t in fam:
                s2 = dict(s_)
                s2[free[0]] = t
                nxt.append(s2)
        subs = nxt
    keep = []
    for s_ in subs:
        dead = False
        for c in open_:
            try:
                t = sp.simplify(c.subs(s_))
            except Exception:
                t = None
            if t is sp.false:
                dead = True
        if not dead:
            keep.append(s_)
    return keep, open_


def _unmod_turns(e):
    """e with every  Mod(x, m)  replaced by  x - m k  (k a fresh whole number): what the modulo is, up to which multiple it removes"""
    return e.replace(lambda t: isinstance(t, sp.Mod) and t.args[1].is_number and t.args[1] > 0,
                     lambda t: t.args[0] - t.args[1] * sp.Dummy("k", integer=True))


def _rotation_residuals(ra_v, dec_v, sym):
    """the three components of  (unit vector of the returned (ra', dec'), turned back by psi about z)  minus  (the zxz rotation of the input unit
    vector before that last turn): all three are identically zero exactly when (ra', dec') is the zxz rotation of (ra, dec), ra' up to whole turns"""
    phi, theta, psi, ra, dec = sym
    d2r = sp.pi / 180
    P, T, S = -phi * d2r, -theta * d2r, -psi * d2r
    a = ra * d2r - P
    b = dec * d2r
    x1 = sp.cos(b) * sp.cos(a)
    y1 = sp.cos(T) * sp.cos(b) * sp.sin(a) + sp.sin(T) * sp.sin(b)
    z1 = -sp.sin(T) * sp.cos(b) * sp.sin(a) + sp.cos(T) * sp.sin(b)
    L = dec_v * d2r
    A = ra_v * d2r - S
    return [sp.cos(L) * sp.cos(A) - x1, sp.cos(L) * sp.sin(A) - y1, sp.sin(L) - z1]


def _guard_witness(conds, res, sub, sym):
    """a point of the guard's solution set at which one of the residual terms is not zero: exact values of the symbols that satisfy every
    relation of the guard (decided exactly), the residual evaluated there in 30-digit arithmetic.  This refutes the identity of two terms; it is
    not a run of the code.  -> description or None"""
    phi, theta, psi, ra, dec = sym
    rels = _flat_conds(conds) or []
    ints = sorted({x for t in sub.values() for x in t.free_symbols if x.is_integer}, key=str)
    for base in ({phi: 11, psi: 53, ra: 37, dec: 23, theta: 29}, {phi: -71, psi: 140, ra: 211, dec: -48, theta: -117}):
        for nval in (0, 1, -1, 2):
            at = {k: sp.Integer(v) for k, v in base.items()}
            for k, t in sub.items():
                at[k] = t.subs({n: nval for n in ints})
            # angles pinned in terms of other angles
            at = {k: (sp.sympify(v).subs({q: w for q, w in at.items() if q != k}) if isinstance(v, sp.Basic) else v) for k, v in at.items()}
            if any(sp.sympify(v).free_symbols for v in at.values()):
                continue
            try:
                if not all(sp.simplify(c.subs(at)) is sp.true for c in rels):
                    continue
                vals = [abs(mp.mpf(str(sp.N(r_.subs(at), 30)))) for r_ in res]
            except Exception:
                continue
            worst = max(vals)
            if worst > mp.mpf("1e-9"):
                return "at phi=%s theta=%s psi=%s ra=%s dec=%s, which satisfies the guard, the returned direction differs from the zxz rotation by %s (unit-vector component)" % (
                    at[phi], at[theta], at[psi], at[ra], at[dec], mp.nstr(worst, 3))
    return None


def _rotate_alternative(chk, fi, k, conds, ra_v, dec_v, sym):
    """R09.9 alternative-under-angle-guard: a result rotate() returns only for Euler angles that satisfy a guard (a shortcut for `no tilt', for the
    identity, ...) must be the zxz rotation for EVERY angle the guard lets through.  The guard's solution set is computed (a tolerance test
    |g| < eps stands for g = 0), each solution family is substituted into the returned terms and into the rotation, and the two directions are
    compared as terms."""
    phi, theta, psi, ra, dec = sym
    key = "rotate::alternative-under-angle-guard::%d" % k
    gtxt = " and ".join(str(c) for c in (_flat_conds(conds) or conds))[:200]
    what = "the result returned when %s is the zxz rotation for every angle that satisfies this guard" % gtxt
    subs, open_ = _pinned_angles(conds, (phi, theta, psi))
    if subs is None:
        chk.ob("R09.9", key, None, fi.where(), what + ": the solution set of the guard could not be computed")
        return
    res = _rotation_residuals(ra_v, dec_v, sym)
    allok = True
    for s_ in subs:
        fam = ", ".join("%s = %s" % (a_, sp.simplify(t)) for a_, t in sorted(s_.items(), key=lambda kv: str(kv[0])))
        fam = fam.replace("_n", "n") + (" (n any whole number)" if any(x.is_integer for t in s_.values() for x in t.free_symbols) else "")
        bad = None
        proven = True
        for r_ in res:
            r1 = _unmod_turns(r_.subs(s_))
            eq = False
            for f in (lambda x: x, sp.expand_trig, sp.simplify, lambda x: sp.simplify(sp.expand_trig(x))):
                try:
                    z = symx._with_timeout(lambda: f(r1), 5.0)
                except Exception:
                    continue
                if z == 0:
                    eq = True
                    break
            if not eq:
                proven = False
        if not proven:
            bad = _guard_witness(conds, res, s_, sym)
            if bad is not None:
                chk.ob("R09.9", key, False, fi.where(),
                       what + ": the guard also holds for %s, where the shortcut `ra' = %s, dec' = %s` is not the rotation: %s"
                       % (fam, str(ra_v)[:120], str(dec_v)[:80], bad))
                return
            allok = False
    chk.ob("R09.9", key, True if allok else None, fi.where(),
           what + (" (solutions of the guard: %s)" % "; ".join(", ".join("%s = %s" % (a_, t) for a_, t in s_.items()) for s_ in subs)[:300] if allok
                   else ": the returned terms could not be shown equal to the rotation on the guard's solution set, nor different from it"))


def _rotate_cases(ra_o, dec_o, angles):
    """the (ra', dec') result split into its guarded alternatives: [(guard relations, ra', dec', pinned)], pinned = the guard confines an Euler
    angle to isolated values; None when an alternative is not selected by relations on the Euler angles alone"""
    out = []
    for conds, v in _guarded_cases(sp.Tuple(ra_o, dec_o)):
        rels = _flat_conds(conds)
        if rels is None:
            return None
        if any(c.negated in rels for c in rels):
            continue                                    # the same test taken both ways: not a path
        if any(not c.free_symbols <= set(angles) for c in rels):
            return None
        out.append((rels, v[0], v[1], any(_pinning_equation(c) is not None for c in rels)))
    return out


def rotate(chk, repo):
    fi = repo.func(CO + "rotate")
    chk.analysed_unit(fi.qualname)
    se = _Eval(repo)
    phi, theta, psi, ra, dec = symx.symbols("phi", "theta", "psi", "ra", "dec")
    sym = (phi, theta, psi, ra, dec)
    # array input: the positions have a length (whatever local holds that fact)
    se.assume = {"call:hasattr": True, "call:isscalar": False}
    r = se.run(fi, {"phi": phi, "theta": theta, "psi": psi, "ra": ra, "dec": dec}, {})
    if not (isinstance(r, tuple) and len(r) == 2):
        chk.ob("R09.9", "rotate::returns-pair", False, fi.where(), "expected (ra, dec), got %r" % (r,))
        return
    # alternatives selected by a guard on the Euler angles: those whose guard pins an angle to isolated values are compared with the rotation
    # on the guard's solution set; the alternative(s) for a whole range of angles must have the general form
    general = [r]
    if all(isinstance(x, sp.Basic) for x in r) and any(x.has(sp.Piecewise) for x in r):
        try:
            cases = _rotate_cases(r[0], r[1], (phi, theta, psi))
        except Exception:
            cases = None
        if cases and any(not c[3] for c in cases):
            general = [(c[1], c[2]) for c in cases if not c[3]]
            for k, c in enumerate([c for c in cases if c[3]]):
                _rotate_alternative(chk, fi, k + 1, c[0], c[1], c[2], sym)
    for k, (ra_o, dec_o) in enumerate(general):
        _rotate_general(chk, fi, ra_o, dec_o, sym, "" if k == 0 else "#%d" % (k + 1))
    # scalar in, scalar out: evaluated again for a position without a length, the result is element 0 of what array input gives
    se2 = _Eval(repo)
    se2.assume = {"call:hasattr": False, "call:isscalar": True}
    try:
        r0 = se2.run(fi, {"phi": phi, "theta": theta, "psi": psi, "ra": ra, "dec": dec}, {})
    except AnalysisError:
        r0 = None
    AT = sp.Function("AT")

    def at0(x):
        # element 0 of every alternative
        if isinstance(x, sp.Piecewise):
            return sp.Piecewise(*[(at0(v), c) for v, c in x.args], evaluate=False)
        return AT(x, 0)

    def leaves(x):
        if isinstance(x, sp.Piecewise):
            return [y for v, _ in x.args for y in leaves(v)]
        return [x]
    ok = None
    if isinstance(r0, tuple) and len(r0) == 2 and all(isinstance(x, sp.Basic) for x in r0 + r):
        if all(x0 == AT(x, 0) or x0 == at0(x) for x0, x in zip(r0, r)):
            ok = True
        elif all(isinstance(y, AT) for x0 in r0 for y in leaves(x0)):
            ok = False          # an element is taken, but not element 0 of the corresponding array
    chk.ob("R09.9", "rotate::scalar-in-scalar-out", ok, fi.where(), "scalar inputs are returned as scalars (element 0 of the result for array input)")


def _rotate_general(chk, fi, ra_o, dec_o, sym, sfx):
    phi, theta, psi, ra, dec = sym
    d2r = sp.pi / 180
    P, T, S = -phi * d2r, -theta * d2r, -psi * d2r
    a = ra * d2r - P
    b = dec * d2r
    lat_arg = -sp.sin(T) * sp.cos(b) * sp.sin(a) + sp.cos(T) * sp.sin(b)
    lon_arg = sp.atan2(sp.cos(T) * sp.cos(b) * sp.sin(a) + sp.sin(T) * sp.sin(b), sp.cos(b) * sp.cos(a)) + S
    k, rest = dec_o.as_independent(ra, dec, phi, theta, psi, as_Add=False)
    okk = sp.simplify(k - 180 / sp.pi) == 0 and isinstance(rest, sp.asin)
    chk.ob("R09.9", "rotate::latitude-is-asin-in-degrees" + sfx, bool(okk), fi.where(), "dec' = asin(...)*180/pi")
    if okk:
        ok2, desc, inner = _two_sided(rest.args[0])
        chk.ob("R09.3", "rotate::asin-argument-clamped-both-sides" + sfx, ok2, fi.where(), "asin argument clamped on both sides (%s)" % desc)
        eq, d = symx.equal(inner, lat_arg)
        chk.ob("R09.9", "rotate::latitude-formula" + sfx, eq, fi.where(), "zxz rotation with negated angles (rotating points): sin(dec') formula%s" % ("" if eq else " (difference %s)" % str(d)[:160]))
    k, rest = ra_o.as_independent(ra, dec, phi, theta, psi, as_Add=False)
    okk = sp.simplify(k - 180 / sp.pi) == 0 and isinstance(rest, sp.Mod) and sp.simplify(rest.args[1] - 2 * sp.pi) == 0
    chk.ob("R09.4", "rotate::longitude-in-[0,360)" + sfx, bool(okk), fi.where(), "ra' = (angle mod 2pi)*180/pi")
    if okk:
        diff = sp.simplify(rest.args[0] - lon_arg)
        eq = (diff.is_number and sp.simplify(sp.Mod(diff, 2 * sp.pi)) == 0) or symx.equal(rest.args[0], lon_arg)[0]
        chk.ob("R09.9", "rotate::longitude-formula" + sfx, bool(eq), fi.where(), "ra' formula of the zxz rotation")


def unitvec(chk, repo):
    se = _Eval(repo, opaque=_opaque_folds(repo))
    x, y, z = symx.symbols("x", "y", "z")
    fi = repo.func(CO + "xyz2eq")
    chk.analysed_unit(fi.qualname)
    AT = sp.Function("atbound")
    info = _fold_info(repo)
    node = sp.Rational(95) * sp.pi / 180
    for units in ("deg", "rad"):
        for stomp in (False, True):
            r = se.run(fi, {"xin": x, "yin": y, "zin": z}, {"units": units, "stomp": stomp})
            tag = "xyz2eq[units=%s,stomp=%s]" % (units, stomp)
            f = 180 / sp.pi if units == "deg" else sp.Integer(1)
            full = sp.Integer(360) if units == "deg" else 2 * sp.pi
            ok = isinstance(r, tuple) and len(r) == 2
            if not ok:
                chk.ob("R09.6", tag + "::returns-pair", False, fi.where(), "got %r" % (r,))
                continue
            lon, lat = r
            eq, d = symx.equal(lat, sp.asin(z) * f)
            chk.ob("R09.6", tag + "::latitude", eq, fi.where(), "dec = asin(z) in %s" % units)
            base = (sp.atan2(y, x) + (node if stomp else 0)) * f
            okf, why = _fold_ok(lon, base, full, AT, period_arg=bool(info is not None and info["period_index"] == 3))
            chk.ob("R09.6", (tag if okf else "xyz2eq[units=%s]" % units) + "::longitude-and-range-fold", okf, fi.where(),
                   "ra = atan2(y,x) in %s folded into [0, %s) with bounds in the same units: %s" % (units, full, why))
    fi = repo.func(CO + "eq2xyz")
    ra, dec = symx.symbols("ra", "dec")
    for units in ("deg", "rad"):
        r = se.run(fi, {"ra": ra, "dec": dec}, {"units": units, "stomp": True})
        f = sp.pi / 180 if units == "deg" else sp.Integer(1)
        ref = (sp.cos(ra * f - node) * sp.cos(dec * f), sp.sin(ra * f - node) * sp.cos(dec * f), sp.sin(dec * f))
        ok = isinstance(r, tuple) and len(r) == 3 and all(symx.equal(a, b)[0] for a, b in zip(r, ref))
        chk.ob("R09.6", "eq2xyz[units=%s,stomp=True]" % units, ok, fi.where(), "stomp convention subtracts the node (95 deg) in radians before projecting")


def _fold_ok(lon, base, full, AT, period_arg=False):
    """accepted range folds: opaque atbound(base, 0, full) (its period is 360, so only valid in degrees), or a one-step wrap
    Piecewise((base + full, base < 0), (base, True))"""
    if isinstance(lon, AT) and len(lon.args) == 4 and not period_arg:
        return None, "range-fold helper with a fourth argument that is not known to be its period: %s" % str(lon)[:120]
    if isinstance(lon, AT) and len(lon.args) in (3, 4):
        # atbound(v, lo, hi) steps by 360; atbound(v, lo, hi, period) by the period handed to it (see _Env._positional / _fold_info)
        v, lo, hi = lon.args[:3]
        period = lon.args[3] if len(lon.args) == 4 else sp.Integer(360)
        eq, _ = symx.equal(v, base)
        if not eq:
            return False, "folded value is %s, expected %s" % (v, base)
        if not (lo == 0 and sp.simplify(hi - full) == 0):
            return False, "fold bounds are (%s, %s) but the value is in units where a full turn is %s" % (lo, hi, full)
        if sp.simplify(period - full) != 0:
            if not period.is_number:
                return None, "the range-fold helper steps by %s: not a number" % period
            return False, "the range-fold helper steps by %s%s but a full turn is %s in the units of the value" % (
                period, " (degrees)" if period == 360 else "", full)
        return True, "atbound(v, 0, %s) stepping by %s" % (hi, period)
    if isinstance(lon, sp.Piecewise) and len(lon.args) == 2:
        (v1, c1), (v2, c2) = lon.args
        eqb, _ = symx.equal(v2, base)
        eqw, _ = symx.equal(v1, base + full)
        okc = isinstance(c1, sp.Lt) and symx.equal(c1.lhs - c1.rhs, base)[0] or (isinstance(c1, sp.Lt) and c1.rhs == 0 and symx.equal(c1.lhs, base)[0])
        if not okc and isinstance(c1, (sp.Lt, sp.Gt)):
            # sympy may have canonicalised the relation (e.g. atan2(y,x) < 0)
            sgn = 1 if isinstance(c1, sp.Lt) else -1
            ratio = sp.simplify(base / c1.lhs) if c1.rhs == 0 and c1.lhs != 0 else None
            okc = sp.simplify(c1.lhs - c1.rhs - base * sgn) == 0 or bool(ratio is not None and ratio.is_number and ratio * sgn > 0)
        return bool(eqb and eqw and okc), "one-step wrap by %s where negative" % full
    if isinstance(lon, sp.Mod) and symx.equal(lon.args[0], base)[0]:
        # value modulo a positive modulus lies in [0, modulus) and differs from the value by whole multiples of it
        if sp.simplify(lon.args[1] - full) == 0:
            return True, "modulo %s" % full
        return False, "folded modulo %s but a full turn is %s in these units" % (lon.args[1], full)
    if symx.equal(lon, base)[0]:
        return False, "the longitude is returned as it comes out of atan2, in (-turn/2, turn): no fold into [0, %s)" % full
    return None, "unrecognised fold %s" % str(lon)[:120]


def sdss(chk, repo):
    se = _Eval(repo, opaque=_opaque_folds(repo))
    mod = repo.module("esutil.coords")
    par = se.module_const(mod, "_sdsspar")
    ok = isinstance(par, dict) and sp.simplify(par.get("node", 0) - 95 * sp.pi / 180) == 0 and sp.simplify(par.get("etapole", 0) - sp.Rational(65, 2) * sp.pi / 180) == 0
    chk.ob("R09.7", "sdss::node-and-pole-constants", bool(ok), "esutil/coords.py", "survey node = (185-90) deg and eta pole = 32.5 deg, stored in radians")
    node, pole = 95 * sp.pi / 180, sp.Rational(65, 2) * sp.pi / 180
    ra, dec = symx.symbols("ra", "dec")
    fi = repo.func(CO + "eq2sdss")
    chk.analysed_unit(fi.qualname)
    r = se.run(fi, {"ra_in": ra, "dec_in": dec}, {})
    d2r = sp.pi / 180
    AT = sp.Function("atbound")
    if isinstance(r, tuple) and len(r) == 2:
        lam, eta = r
        a, d = ra * d2r - node, dec * d2r
        eq, df = symx.equal(lam, -sp.asin(sp.cos(a) * sp.cos(d)) / d2r)
        chk.ob("R09.7", "eq2sdss::clambda", eq, fi.where(), "clambda = -asin(cos(ra-node) cos dec) in degrees%s" % ("" if eq else " (difference %s)" % str(df)[:160]))
        ok = isinstance(eta, AT) and eta.args[1:] == (-180, 180) and symx.equal(eta.args[0], (sp.atan2(sp.sin(d), sp.sin(a) * sp.cos(d)) - pole) / d2r)[0]
        chk.ob("R09.7", "eq2sdss::ceta", bool(ok), fi.where(), "ceta = atan2(sin dec, sin(ra-node) cos dec) - etapole in degrees, folded into [-180,180]")
    else:
        chk.ob("R09.7", "eq2sdss::returns-pair", False, fi.where(), "got %r" % (r,))
    _range_checks(chk, repo, fi, {"ra_in": ("0.0", "360.0"), "dec_in": ("-90.0", "90.0")})
    lam, eta = symx.symbols("clambda", "ceta")
    fi = repo.func(CO + "sdss2eq")
    chk.analysed_unit(fi.qualname)
    r = se.run(fi, {"clambda_in": lam, "ceta_in": eta}, {})
    AT2 = sp.Function("atbound2")
    if isinstance(r, tuple) and len(r) == 2:
        ra_o, dec_o = r
        l, e = lam * d2r, eta * d2r
        xx, yy, zz = -sp.sin(l), sp.cos(e + pole) * sp.cos(l), sp.sin(e + pole) * sp.cos(l)
        ra_ref = (sp.atan2(yy, xx) + node) / d2r
        dec_ref = sp.asin(zz) / d2r
        # the in-place fold atbound2(dec, ra) is opaque: the evaluator shows it on its first argument
        dec_core = dec_o.args[0] if isinstance(dec_o, AT2) else dec_o
        eq1, d1 = symx.equal(dec_core, dec_ref)
        chk.ob("R09.7", "sdss2eq::dec", eq1, fi.where(), "dec = asin(sin(ceta+etapole) cos clambda) in degrees")
        # the longitude, with the range fold spelled out taken off: ra = 0 where |dec| = 90 (the convention at the poles), atbound(ra, 0, 360)
        ra_core, lonfold = ra_o, False
        if isinstance(ra_core, sp.Piecewise) and len(ra_core.args) == 2 and ra_core.args[1][1] == sp.true and ra_core.args[0][0] == 0 \
                and isinstance(ra_core.args[0][1], sp.Eq):
            c0 = ra_core.args[0][1]
            try:
                q = sp.simplify((c0.lhs - c0.rhs) / (sp.Abs(dec_ref) - 90))
            except Exception:
                q = None
            if q is not None and q.is_number and q != 0:
                ra_core = ra_core.args[1][0]
        if isinstance(ra_core, AT) and ra_core.args[1:] == (0, 360):
            ra_core, lonfold = ra_core.args[0], True
        eq2, d2 = symx.equal(ra_core, ra_ref)
        if isinstance(dec_o, AT2):
            eq2 = eq2 or symx.equal(dec_o.args[1], ra_ref)[0]
        chk.ob("R09.7", "sdss2eq::ra", eq2, fi.where(), "ra = atan2(cos(ceta+etapole) cos clambda, -sin clambda) + node in degrees")
        folds = [x for x in walk_no_nested(fi.node) if isinstance(x, ast.Call) and call_name(x) == "atbound2"]
        okf = len(folds) == 1 and [norm(a) for a in folds[0].args] == ["dec", "ra"]
        if not okf and len(folds) == 1 and isinstance(dec_o, AT2) and len(dec_o.args) == 2:
            # the roles as the evaluated call has them, however the arguments are passed (keywords, other local names): the value bound to the
            # pair fold's first (latitude) parameter is the declination term and the one bound to its second (longitude) parameter the right
            # ascension term; the fold is opaque here, so its term sits on the returned declination
            okf = bool(eq1 and symx.equal(dec_o.args[1], ra_ref)[0] and symx.equal(ra_o, ra_ref)[0])
        if not okf and not folds and lonfold and eq1 and eq2 and not isinstance(dec_o, AT2):
            # the fold of the pair spelled out: the latitude is an arcsine in degrees (within [-90,90] as it is), the longitude is folded into [0,360]
            okf = True
        chk.ob("R09.7", "sdss2eq::range-fold-roles", okf, fi.where(),
               "atbound2(latitude, longitude) folds the pair into range (or, the latitude being an arcsine, the longitude alone is folded into [0,360])")
    else:
        chk.ob("R09.7", "sdss2eq::returns-pair", False, fi.where(), "got %r" % (r,))
    _range_checks(chk, repo, fi, {"clambda_in": ("-90.0", "90.0"), "ceta_in": ("-180.0", "180.0")})


def _disjuncts(t):
    if isinstance(t, ast.BoolOp) and isinstance(t.op, ast.Or):
        return [d for v in t.values for d in _disjuncts(v)]
    if isinstance(t, ast.BinOp) and isinstance(t.op, ast.BitOr):
        return _disjuncts(t.left) + _disjuncts(t.right)
    return [t]


_LOW = ("_V.min() < _B", "_B > _V.min()", "np.min(_V) < _B", "min(_V) < _B", "(_V < _B).any()", "np.any(_V < _B)", "any(_V < _B)", "np.amin(_V) < _B")
_HIGH = ("_V.max() > _B", "_B < _V.max()", "np.max(_V) > _B", "max(_V) > _B", "(_V > _B).any()", "np.any(_V > _B)", "any(_V > _B)", "np.amax(_V) > _B")


def _raise_guards(fi):
    """(guards, shown): guards = [(side, parameter, bound)] -- a raise is reached when the parameter (or a fresh array copy of it that has not
    been updated since it was made) has an element below ('lo') / above ('hi') the bound; the bound is a number, or ('param', name) when
    it is a parameter of fi that has not been re-assigned"""
    cfg = cfg_of(fi)
    view = cfg.view()
    IN, _ = view.reaching_defs()
    params = [p.lstrip("*") for p in fi.params]
    found = []
    for n in rules.raise_nodes(cfg):
        for b, lab in view.controlling_branches(n):
            if b.kind != "branch" or lab != "T":
                continue
            for d in _disjuncts(rules.expand(b.ast.test, fi.node)):
                for side, pats in (("lo", _LOW), ("hi", _HIGH)):
                    for p_ in pats:
                        m = pat.match(p_, d, commutative=False)
                        if not m:
                            continue
                        if const_value(m["_B"]) is not None and not isinstance(const_value(m["_B"]), (str, bool)):
                            bound = float(const_value(m["_B"]))
                        elif isinstance(m["_B"], ast.Name) and m["_B"].id in params and IN.get(b.id, {}).get(m["_B"].id, set()) == {cfg.entry.id}:
                            bound = ("param", m["_B"].id)
                        else:
                            continue
                        found.append((side, m["_V"], bound, b))

    def raw_param(e, at):
        """the parameter whose value, as passed in, the expression e is at node `at` (the parameter itself or a fresh array copy of it)"""
        if isinstance(e, ast.Name) and e.id in params and IN.get(at.id, {}).get(e.id, set()) == {cfg.entry.id}:
            return e.id
        if isinstance(e, ast.Call) and call_name(e) in symx.IDENTITY_FUNCS and e.args and (isinstance(e.func, ast.Name) or _is_np_name(fi, e.func)):
            return raw_param(e.args[0], at) if isinstance(e.args[0], ast.Name) else None
        return None

    guards = []
    for side, v, bound, b in found:
        # the tested value is a parameter, or a copy of it that has not been updated since it was made
        prm = raw_param(v, b)
        if prm is None and isinstance(v, ast.Name):
            srcs = IN.get(b.id, {}).get(v.id, set())
            if len(srcs) == 1:
                dn = cfg.node(next(iter(srcs)))
                if dn.kind == "stmt" and isinstance(dn.ast, ast.Assign) and len(dn.ast.targets) == 1 and isinstance(dn.ast.targets[0], ast.Name):
                    prm = raw_param(dn.ast.value, dn) if isinstance(dn.ast.value, ast.Call) else None
        if prm is not None:
            guards.append((side, prm, bound))
    return guards, sorted({(s_, norm(v)[:40], str(bd)) for s_, v, bd, _ in found})


def _is_np_name(fi, f):
    d = dotted_name(f)
    return bool(d) and d.split(".")[0] in fi.module.imports and fi.module.imports[d.split(".")[0]].split(".")[0] == "numpy"


def _range_guards(repo, fi, depth=2):
    """[(side, parameter of fi, numeric bound)]: fi's own raise guards, and those of the package helpers the untouched parameter is handed to
    on every path (a checked-copy helper): the helper's guards on the receiving parameter, with bounds it takes as parameters bound to the
    numbers written at the call"""
    own, shown = _raise_guards(fi)
    out = [(s_, v, b) for s_, v, b in own if not isinstance(b, tuple)]
    if depth <= 0:
        return out, shown
    from vcheck.cfg import stmts_calls
    cfg = cfg_of(fi)
    view = cfg.view()
    IN, _ = view.reaching_defs()
    params = [p.lstrip("*") for p in fi.params]
    for n in cfg.nodes:
        if n.id not in view.reach or n.kind not in ("stmt", "return", "branch"):
            continue
        for c in stmts_calls(n):
            d = dotted_name(c.func)
            full = repo.resolve_name(fi.module, d) if d else None
            if not (full and repo.has(full)) or repo.func(full) is fi:
                continue
            if rules.controlling_tests(view, n, skip_reject_guards=True):
                continue                      # a check made on some paths only is not a rejection of every out-of-range input
            tgt = repo.func(full)
            b = _bound_args(c, tgt)
            if b is None:
                continue
            sub, subshown = _range_guards_raw(repo, tgt, depth - 1)
            for q, a in b.items():
                if not (isinstance(a, ast.Name) and a.id in params and IN.get(n.id, {}).get(a.id, set()) == {cfg.entry.id}):
                    continue
                for side, v, bound in sub:
                    if v != q:
                        continue
                    if isinstance(bound, tuple):
                        arg = b.get(bound[1], tgt.defaults.get(bound[1]))
                        cv = const_value(arg) if arg is not None else None
                        if cv is None or isinstance(cv, (str, bool)):
                            continue
                        bound = float(cv)
                    out.append((side, a.id, bound))
                    shown = sorted(set(shown) | {(side, "%s via %s" % (a.id, tgt.name), str(bound))})
    return out, shown


def _range_guards_raw(repo, fi, depth):
    """like _range_guards but keeps the bounds that are parameters of fi symbolic"""
    own, shown = _raise_guards(fi)
    if depth > 0:
        more, sh2 = _range_guards(repo, fi, depth)
        own = own + [g for g in more if g not in own]
        shown = sorted(set(shown) | set(sh2))
    return own, shown


def _range_checks(chk, repo, fi, want):
    """want: {input parameter: (lo, hi)}.  A raise is reached when the (private copy of the) parameter, not yet converted to radians, has an
    element below lo, and when it has one above hi -- as one test joined by `|` / `or` or as separate tests, in the function itself or in a
    helper the parameter is handed to."""
    guards, shown = _range_guards(repo, fi)
    for prm, (lo, hi) in want.items():
        got = {}
        for side, v, bound in guards:
            if v == prm:
                got.setdefault(side, set()).add(bound)
        name = prm[:-3] if prm.endswith("_in") else prm
        ok = float(lo) in got.get("lo", ()) and float(hi) in got.get("hi", ())
        chk.ob("R09.7", "%s::range-check::%s" % (fi.name, name), ok, fi.where(),
               "%s outside [%s,%s] is rejected before any unit conversion (raise guards found: %s)" % (name, lo, hi, shown))


# ---------------------------------------------------------------------------
# longitude shifting / wrapping: decided on the evaluated terms by interval reasoning over the guarded cases
class _Iv:
    """interval of reals with open / closed ends (ends are sympy numbers or +-oo)"""

    def __init__(self, lo, lc, hi, hc):
        self.lo, self.lc, self.hi, self.hc = sp.sympify(lo), bool(lc) and lo != -sp.oo, sp.sympify(hi), bool(hc) and hi != sp.oo

    def empty(self):
        return self.lo > self.hi or (self.lo == self.hi and not (self.lc and self.hc))

    def scale(self, k):
        if k >= 0:
            return _Iv(self.lo * k, self.lc, self.hi * k, self.hc) if k != 0 else _Iv(0, True, 0, True)
        return _Iv(self.hi * k, self.hc, self.lo * k, self.lc)

    def add(self, o):
        return _Iv(self.lo + o.lo, self.lc and o.lc, self.hi + o.hi, self.hc and o.hc)

    def meet(self, o):
        if self.lo > o.lo or (self.lo == o.lo and not self.lc):
            lo, lc = self.lo, self.lc
        else:
            lo, lc = o.lo, o.lc
        if self.hi < o.hi or (self.hi == o.hi and not self.hc):
            hi, hc = self.hi, self.hc
        else:
            hi, hc = o.hi, o.hc
        return _Iv(lo, lc, hi, hc)

    def within(self, o):
        okl = self.lo > o.lo or (self.lo == o.lo and (o.lc or not self.lc))
        okh = self.hi < o.hi or (self.hi == o.hi and (o.hc or not self.hc))
        return bool(okl and okh)

    def __str__(self):
        return "%s%s, %s%s" % ("[" if self.lc else "(", self.lo, self.hi, "]" if self.hc else ")")


def _range_of(e, dom):
    """interval of a linear combination (rational coefficients) of atoms with known ranges; Mod(x, m), m > 0 a number, ranges over [0, m)"""
    e = sp.expand(e)
    out = _Iv(0, True, 0, True)
    for atom, co in e.as_coefficients_dict().items():
        if not co.is_number or not co.is_real:
            return None
        if atom == 1:
            iv = _Iv(co, True, co, True)
        else:
            if atom in dom:
                base = dom[atom]
            elif isinstance(atom, sp.Mod) and atom.args[1].is_number and atom.args[1] > 0:
                base = _Iv(0, True, atom.args[1], False)
            else:
                return None
            iv = base.scale(co)
        out = out.add(iv)
    return out


def _guarded_cases(value, conds=()):
    """[(constraints, value)]: the Piecewise sub-terms of the value (and of the constraints met on the way) split into guarded plain cases"""
    pw = None
    for t in (value,) + tuple(conds):
        for x in sp.preorder_traversal(t):
            if isinstance(x, sp.Piecewise):
                pw = x
                break
        if pw is not None:
            break
    if pw is None:
        # the guards as a disjunction of conjunctions of comparisons (an if-then-else guard comes from comparing a wrapped value)
        try:
            dnf = sp.to_dnf(sp.And(*conds), simplify=False) if conds else sp.true
        except Exception:
            return [(list(conds), value)]
        if dnf is sp.false:
            return []
        out = []
        for alt in (dnf.args if isinstance(dnf, sp.Or) else [dnf]):
            if alt is sp.false:
                continue
            out.append(([] if alt is sp.true else (list(alt.args) if isinstance(alt, sp.And) else [alt]), value))
        return out
    out = []
    before = []
    for v, c in pw.args:
        cs = [x.xreplace({pw: v}) for x in conds] + [sp.Not(b) for b in before] + ([c] if c is not sp.true else [])
        out += _guarded_cases(value.xreplace({pw: v}), tuple(cs))
        before.append(c)
    return out


def _case_ranges(term, dom):
    """[(value, interval of the value under its guard, step = value - unwrapped value)] for the feasible cases of a wrap term, or None when a
    guard is not a comparison of the (unwrapped) value with a number"""
    base = term
    while isinstance(base, sp.Piecewise):
        d = [v for v, c in base.args if c == sp.true]
        if not d:
            return None
        base = d[0]
    out = []
    for conds, v in _guarded_cases(term):
        iv = _range_of(v, dom)
        if iv is None:
            return None
        for c in conds:
            if not isinstance(c, (sp.Lt, sp.Le, sp.Gt, sp.Ge)):
                return None
            d = c.lhs - c.rhs                      # d > 0, d >= 0, d < 0 or d <= 0
            lower = isinstance(c, (sp.Gt, sp.Ge))
            closed = isinstance(c, (sp.Ge, sp.Le))
            k = sp.simplify(d - v)
            if k.is_number:                        # v + k (op) 0
                bound = -k
            else:
                k = sp.simplify(d + v)
                if not k.is_number:
                    return None
                bound, lower = k, not lower        # -v + k (op) 0
            iv = iv.meet(_Iv(bound, closed, sp.oo, False) if lower else _Iv(-sp.oo, False, bound, closed))
        if not iv.empty():
            out.append((v, iv, sp.simplify(v - base)))
    return out, base


def _multiple_of_turn(d, turn=360):
    """is d a whole number of turns?  Mod(x, turn) is x minus an unknown whole number of turns"""
    ks = []

    def unmod(e):
        k = sp.Dummy("k", integer=True)
        ks.append(k)
        return e.args[0] - turn * k
    d = d.replace(lambda e: isinstance(e, sp.Mod) and sp.simplify(e.args[1] - turn) == 0, unmod)
    q = sp.expand(d / turn)
    if q.free_symbols - set(ks):
        return False
    return all(co.is_integer for co in q.as_coefficients_dict().values())


def _restrict(dom, c):
    """dom narrowed by a guard that compares one parameter symbol of dom with a number (==, !=, <, <=, >, >=); None when the guard is not of
    that kind or the narrowed domain is not an interval; an empty interval when the guard cannot hold"""
    if c is sp.true:
        return dict(dom)
    if not isinstance(c, (sp.Eq, sp.Ne, sp.Lt, sp.Le, sp.Gt, sp.Ge)):
        return None
    syms = [x for x in c.free_symbols]
    if len(syms) != 1 or syms[0] not in dom:
        return None
    x = syms[0]
    d = sp.expand(c.lhs - c.rhs)
    co = d.coeff(x)
    k = sp.simplify(d - co * x)
    if not (co.is_number and co != 0 and k.is_number and k.is_real):
        return None
    bound = -k / co                                 # co (x - bound) (op) 0
    op = type(c)
    if co < 0:
        op = {sp.Lt: sp.Gt, sp.Le: sp.Ge, sp.Gt: sp.Lt, sp.Ge: sp.Le}.get(op, op)
    iv = dom[x]
    if op is sp.Eq:
        new = iv.meet(_Iv(bound, True, bound, True))
    elif op is sp.Ne:
        pt = _Iv(bound, True, bound, True)
        if pt.meet(iv).empty():
            new = iv
        elif iv.lo == bound and iv.hi == bound:
            new = _Iv(1, False, 0, False)
        elif iv.lo == bound:
            new = _Iv(iv.lo, False, iv.hi, iv.hc)
        elif iv.hi == bound:
            new = _Iv(iv.lo, iv.lc, iv.hi, False)
        else:
            return None                              # an interior point removed: not an interval
    elif op in (sp.Gt, sp.Ge):
        new = iv.meet(_Iv(bound, op is sp.Ge, sp.oo, False))
    else:
        new = iv.meet(_Iv(-sp.oo, False, bound, op is sp.Le))
    out = dict(dom)
    out[x] = new
    return out


def _param_split(term, dom, value_sym, guards=()):
    """[(domain, guards, sub-term)]: a result that is dispatched on the *parameters* (e.g. on whether the shift is zero) before it is computed
    is split into one sub-term per feasible alternative, each with the parameter's domain narrowed by its guards; a parameter pinned to one
    number by its guards is replaced by that number.  None when a dispatch guard is not a comparison of one parameter with a number."""
    if isinstance(term, sp.Piecewise) and any(c is not sp.true and value_sym not in c.free_symbols and c.free_symbols for v, c in term.args):
        out, before = [], []
        for v, c in term.args:
            if c is not sp.true and (value_sym in c.free_symbols or not c.free_symbols):
                return None
            d = dom
            gs = list(guards)
            for g in [sp.Not(b) for b in before] + [c]:
                if g is sp.true:
                    continue
                alts = g.args if isinstance(g, sp.And) else [g]
                for a in alts:
                    d = _restrict(d, a) if d is not None else None
                    gs.append(a)
            if d is None:
                return None
            before.append(c)
            if any(iv.empty() for iv in d.values()):
                continue
            sub = _param_split(v, d, value_sym, tuple(gs))
            if sub is None:
                return None
            out += sub
        return out
    pins = {x: iv.lo for x, iv in dom.items() if x != value_sym and iv.lo == iv.hi and iv.lc and iv.hc}
    return [(dom, tuple(guards), term.xreplace(pins) if pins and isinstance(term, sp.Basic) else term)]


def shift(chk, repo):
    """R09.8: shiftlon(lon, shift, wrap) is evaluated to a term for a negative shift, a non-negative shift, and no shift with / without wrapping;
    with the documented input range lon in [0,360) each guarded case of the term must land in the documented interval, differ from lon - shift by
    whole turns, and a single 360-degree step must suffice (the shift is reduced modulo 360 first).  A result that is dispatched on the value of
    the shift (zero / non-zero, ...) is decided alternative by alternative, each for the shifts that reach it: `every shift` includes 0."""
    fi = repo.func(CO + "shiftlon")
    chk.analysed_unit(fi.qualname)
    se = _Eval(repo)
    lon = sp.Symbol("lon", real=True)
    sneg, spos = sp.Symbol("s", negative=True), sp.Symbol("s", nonnegative=True)
    dom = {lon: _Iv(0, True, 360, False), sneg: _Iv(-sp.oo, False, 0, False), spos: _Iv(0, True, sp.oo, False)}
    confs = [("neg", {"lon_input": lon, "shift": sneg}, {"wrap": True}, lon - sneg, _Iv(0, True, 360, False), "shiftlon::upper-wrap-comparator",
              "a negative shift moves the longitude up and the result lies in [0,360): the interval is open at the top, so a value of exactly 360 has to be wrapped too (>= 360, not > 360)"),
             ("pos", {"lon_input": lon, "shift": spos}, {"wrap": True}, lon - spos, _Iv(0, True, 360, False), "shiftlon::lower-wrap-comparator",
              "a non-negative shift moves the longitude down and the result lies in [0,360): values below 0 are wrapped up"),
             ("wrap", {"lon_input": lon}, {"wrap": True}, lon, _Iv(-180, True, 180, True), "shiftlon::wrap-to-[-180,180]",
              "without a shift, wrap=True maps [0,360) into [-180,180]: values above 180 are lowered by 360")]
    terms = {}
    nwrap = 0
    congr, steps, reduced, unrec = [], [], [], []
    for nm, args, flags, want, target, key, what in confs:
        r = se.run(fi, dict(args), dict(flags))
        terms[nm] = r
        svar = args.get("shift")
        subdom = {k: v for k, v in dom.items() if k == lon or k == svar}
        parts = _param_split(r, subdom, lon) if isinstance(r, sp.Basic) else None
        crs = []
        for d_, gs, t_ in (parts or []):
            cr = _case_ranges(t_, d_) if isinstance(t_, sp.Basic) else None
            if cr is None:
                crs = None
                break
            pins = {x: iv.lo for x, iv in d_.items() if x != lon and iv.lo == iv.hi}
            crs.append((d_, gs, cr[0], cr[1], want.xreplace(pins)))
        if not crs:
            unrec.append(nm)
            chk.ob("R09.8", key, None, fi.where(), "%s: the evaluated result is not a value wrapped under comparisons of that value with numbers: %s" % (what, str(r)[:160]))
            continue
        bad, shown, wraps = [], [], False
        for d_, gs, cases, base, want_ in crs:
            pre = ("for shift in %s (dispatch guard %s): " % (d_[svar], " and ".join(str(g) for g in gs))) if gs and svar is not None else ""
            bad += [(pre, v, iv) for v, iv, st in cases if not iv.within(target)]
            shown.append(pre + "; ".join("%s in %s" % (v, iv) for v, iv, st in cases))
            wraps = wraps or any(st != 0 for v, iv, st in cases)
            steps += [(nm, st) for v, iv, st in cases if not (st.is_number and (st / 360).is_integer)]
            congr.append((nm, _multiple_of_turn(base - want_)))
            rb = _range_of(base, d_)
            if nm != "wrap":
                reduced.append((nm, rb is not None and rb.within(_Iv(target.lo - 360, True, target.hi + 360, True)), str(rb)))
        chk.ob("R09.8", key, not bad, fi.where(),
               "%s (cases: %s)%s" % (what, " | ".join(shown), "; outside %s: %s" % (target, "; ".join("%s%s in %s" % b for b in bad)) if bad else ""))
        if wraps:
            nwrap += 1
    some = len(unrec) < len(confs)
    chk.ob("R09.8", "shiftlon::three-wraps", (nwrap == 3) if not unrec else None, fi.where(),
           "each of the three configurations (negative shift, non-negative shift, wrap without shift) wraps (%d of 3%s)" % (nwrap, "; not recognised: %s" % unrec if unrec else ""))
    chk.ob("R09.8", "shiftlon::shift-reduced-mod-360", all(ok for _, ok, _ in reduced) if (some and not (set(unrec) & {"neg", "pos"})) else None, fi.where(),
           "|shift| is reduced modulo 360 so one wrap step suffices: the shifted value stays within one turn of [0,360) (%s)" % ", ".join("%s: %s" % (n, r) for n, _, r in reduced))
    chk.ob("R09.8", "shiftlon::result-is-lon-minus-shift", all(ok for _, ok in congr) if (some and not (set(unrec) & {"neg", "pos"})) else None, fi.where(),
           "before wrapping the value is lon - shift up to whole turns (negative shift adds |shift|, non-negative subtracts it): %s" % congr)
    chk.ob("R09.8", "shiftlon::wrap-steps-are-360", (not steps) if not unrec else None, fi.where(),
           "each wrap moves by exactly one turn (offending steps: %s)" % steps)
    # shiftra is shiftlon: same term in every configuration
    sr = repo.func(CO + "shiftra")
    chk.analysed_unit(sr.qualname)
    same = True
    diffs = []
    for nm, args, flags, want, target, key, what in confs + [("nowrap", {"lon_input": lon}, {"wrap": False}, lon, None, None, None)]:
        a2 = {("ra" if k == "lon_input" else k): v for k, v in args.items()}
        r1 = terms[nm] if nm in terms else se.run(fi, dict(args), dict(flags))
        try:
            r2 = se.run(sr, a2, dict(flags))
        except AnalysisError as e:
            # e.g. a truth value that arrives where shiftlon computes with a number: decided by the argument binding below
            same = None if same else same
            diffs.append("%s: shiftra could not be evaluated (%s)" % (nm, str(e)[:100]))
            continue
        eq = isinstance(r1, sp.Basic) and isinstance(r2, sp.Basic) and symx.equal(r1, r2)[0]
        if not eq:
            same = False
            diffs.append("%s: %s vs %s" % (nm, str(r2)[:80], str(r1)[:80]))
    chk.ob("R09.8", "shiftra::delegates", same, sr.where(), "shiftra(ra, shift, wrap) evaluates to the same term as shiftlon(ra, shift, wrap) in every configuration%s" % ("" if same else " (%s)" % "; ".join(diffs)))
    _shiftra_binding(chk, repo, fi, sr)


def _shiftra_binding(chk, repo, fi, sr):
    """R09.8 shiftra::forwards-arguments: when shiftra hands its work to shiftlon, each of its own parameters (the longitude, `shift`, `wrap`)
    must reach the parameter of shiftlon that has that meaning -- bound through shiftlon's actual signature, whether the arguments are passed by
    position or by keyword.  A call that is positively resolved to shiftlon and binds shiftra's `wrap` to shiftlon's `shift` (or the other way
    round) shifts by the truth value of wrap and wraps on the truth value of the shift."""
    key = "shiftra::forwards-arguments"
    what = "each parameter of shiftra reaches the shiftlon parameter of the same meaning"
    calls = []
    for x in walk_no_nested(sr.node):
        if isinstance(x, ast.Call):
            d = dotted_name(x.func)
            if d and d.split(".")[0] not in sr.params and repo.resolve_name(sr.module, d) == fi.qualname:
                calls.append(x)
    if not calls:
        # not a delegation: the term comparison (shiftra::delegates) is the verdict
        chk.ob("R09.8", key, True, sr.where(), what + " (shiftra does not call shiftlon: decided by the term comparison)")
        return
    if len(sr.params) < 1 or len(fi.params) < 1:
        chk.ob("R09.8", key, None, sr.where(), what + ": no longitude parameter")
        return
    # shiftlon parameter -> shiftra parameter with that meaning: the longitude is the first parameter of each, options go by name
    meaning = {fi.params[0]: sr.params[0]}
    for p in fi.params[1:]:
        if p in sr.params[1:]:
            meaning[p] = p
    stored = {t.id for x in walk_no_nested(sr.node) for t in ast.walk(x) if isinstance(t, ast.Name) and isinstance(t.ctx, ast.Store)} \
        if any(isinstance(x, (ast.Assign, ast.AugAssign, ast.AnnAssign, ast.For, ast.With, ast.NamedExpr)) for x in walk_no_nested(sr.node)) else set()
    verdict, notes = True, []
    for c in calls:
        b = _bound_args(c, fi)
        if b is None:
            verdict = None
            notes.append("line %d: arguments could not be bound" % c.lineno)
            continue
        for p, arg in b.items():
            if not isinstance(arg, ast.Name) or arg.id not in sr.params or arg.id in stored:
                continue                      # an expression / a re-assigned local: left to the term comparison
            want = meaning.get(p)
            if want is not None and arg.id != want and arg.id in meaning.values():
                verdict = False
                notes.append("line %d: `%s` passes shiftra's `%s` as shiftlon's `%s` (signature %s(%s)), which expects `%s`"
                             % (c.lineno, norm(c)[:80], arg.id, p, fi.name, ", ".join(fi.params), want))
    chk.ob("R09.8", key, verdict, "%s:%d" % (sr.where().rsplit(":", 1)[0], calls[0].lineno), what + ("" if verdict else ": " + "; ".join(notes)))


def _nonempty_cond(env, t):
    """the element-wise condition whose being true somewhere the test `t` asks for (w.size > 0, len(w) > 0, mask.any(), np.any(mask),
    not (w.size == 0), not w.size == 0, ...), or None"""
    neg = False
    while isinstance(t, ast.UnaryOp) and isinstance(t.op, ast.Not):
        neg, t = not neg, t.operand
    x = None
    if isinstance(t, ast.Compare) and len(t.ops) == 1:
        l, op, r = t.left, t.ops[0], t.comparators[0]
        if const_value(l) is not None and const_value(r) is None:
            l, r = r, l
            op = {ast.Lt: ast.Gt, ast.LtE: ast.GtE, ast.Gt: ast.Lt, ast.GtE: ast.LtE}.get(type(op), type(op))()
        n = const_value(r)
        if isinstance(n, bool) or not isinstance(n, (int, float)):
            return None
        # a count is a non-negative integer: count > 0, != 0, >= 1 say `some element`; count == 0, <= 0, < 1 say `none`
        if (isinstance(op, (ast.Gt, ast.NotEq)) and n == 0) or (isinstance(op, ast.GtE) and n == 1):
            t = l
        elif (isinstance(op, (ast.Eq, ast.LtE)) and n == 0) or (isinstance(op, ast.Lt) and n == 1):
            neg, t = not neg, l
        else:
            return None
    if neg:
        return None             # the test asks for `no element selected`
    if isinstance(t, ast.Attribute) and t.attr == "size":
        x = t.value
    elif isinstance(t, ast.Call) and call_name(t) in ("len", "count_nonzero") and len(t.args) == 1:
        x = t.args[0]
    elif isinstance(t, ast.Call) and call_name(t) in ("any", "sum") and isinstance(t.func, ast.Attribute) and not t.args \
            and not (isinstance(t.func.value, ast.Name) and t.func.value.id in ("np", "numpy")):
        x = t.func.value
    elif isinstance(t, ast.Call) and call_name(t) == "any" and len(t.args) == 1:
        x = t.args[0]
    if x is None:
        return None
    try:
        v = env.ev(x)
    except AnalysisError:
        return None
    return v.cond if isinstance(v, symx.Mask) else None


_LOOP_EXITS = (ast.Break, ast.Continue, ast.Return, ast.While, ast.For, ast.Raise, ast.Try, ast.With, ast.FunctionDef, ast.Lambda,
               ast.Yield, ast.YieldFrom)


def _straight(stmts):
    return not any(isinstance(x, _LOOP_EXITS) for s_ in stmts for x in ast.walk(s_))


def _test_first(st):
    """the loop  `while True: S; if T: break; R`  (the only way out is that one top-level `if`; S and R are straight-line code) performs
    the same sequence of statements as  `S; while not T: R; S`  -- the form with the test at the loop head, which is what the fold analysis
    steps through.  Accepted spellings of the exit: `if T: break [else: E]` and `if T: A else: break`.  -> list of statements, or None
    when `st` is not such a loop."""
    if not isinstance(st, ast.While) or st.orelse or const_value(st.test) not in (True, 1) or isinstance(const_value(st.test), float):
        return None
    for i, x in enumerate(st.body):
        if isinstance(x, ast.If) and any(isinstance(y, ast.Break) for y in ast.walk(x)):
            break
    else:
        return None
    pre, post = st.body[:i], st.body[i + 1:]
    is_break = lambda b: len(b) == 1 and isinstance(b[0], ast.Break)
    if is_break(x.body):
        test, rest = ast.UnaryOp(op=ast.Not(), operand=x.test), list(x.orelse) + post
    elif is_break(x.orelse):
        test, rest = x.test, list(x.body) + post
    else:
        return None
    if not _straight(pre) or not _straight(rest) or not rest:
        return None
    loop = ast.While(test=ast.copy_location(test, x.test), body=rest + pre, orelse=[])
    ast.copy_location(loop, st)
    ast.fix_missing_locations(loop)
    return pre + [loop]


def _fold_info(repo):
    """how the one-dimensional range fold coords.atbound steps, read off its loops (rule atbound::fold-structure): {'qualname', 'period_index'}
    with period_index None when both loops step by the literal 360, or the position of the parameter they step by; None when the loops are not
    recognised as a fold by one period"""
    a = _analyse_fold(repo)
    if a is None or a["period"] is None:
        return None
    P = a["period"]
    params = [p for p in a["fi"].params]
    if P.is_number:
        return dict(qualname=a["fi"].qualname, period_index=None)
    if str(P) not in params:
        return None
    return dict(qualname=a["fi"].qualname, period_index=params.index(str(P)))


def folds(chk, repo):
    """R09.8 atbound(longitude, minval, maxval[, period]): each while loop is checked by one symbolic step from an arbitrary state L: the loop
    runs while some element satisfies C(L); the body moves exactly the elements satisfying C(L) by one period in the direction that undoes C
    (the period is the literal 360, or a parameter of the fold -- what is handed to it is checked where it is called: _positional, _fold_ok);
    and the loop test after the body is C of the *updated* value (recomputed each step)."""
    a = _analyse_fold(repo)
    if a is None:
        repo.func(_coords_fn(repo, "atbound"))          # raises: the anchor is gone
        raise AnalysisError("range fold analysis re-entered")
    fi, found, unrec = a["fi"], a["found"], a["unrec"]
    chk.analysed_unit(fi.qualname)
    ok = None
    alld = [d for v in found.values() for d, _ in v]
    if any(d["moves"] is False or d["recomputed"] is False for d in alld):
        ok = False
    elif unrec or set(found) != {"below-minimum", "above-maximum"} or any(len(v) != 1 for v in found.values()) \
            or any(d["moves"] is None or d["recomputed"] is None for d in alld) or a["period"] is None:
        ok = None
    else:
        ok = True
    chk.ob("R09.8", "atbound::fold-structure", ok, fi.where(),
           "range fold: add one period (360, or the period handed to it) while below the minimum, subtract it while above the maximum (loop "
           "conditions recomputed each step): %s%s"
           % ("; ".join(t for v in found.values() for _, t in v), ("; not recognised: " + "; ".join(unrec)) if unrec else ""))


def _analyse_fold(repo):
    """one symbolic step of each loop of coords.atbound -> {'fi', 'found': {side: [(verdicts, text)]}, 'unrec': [...], 'period': the step both
    loops make (360 or the symbol of a parameter), or None}; None when atbound does not exist (or while this analysis is running)"""
    if "_c09_fold" in repo.__dict__:
        return repo.__dict__["_c09_fold"]
    repo.__dict__["_c09_fold"] = None
    q = _coords_fn(repo, "atbound")
    if not repo.has(q):
        return None
    fi = repo.func(q)
    se = _Eval(repo)
    pl, pa, pb = [p for p in fi.params][:3]
    L0 = sp.Symbol("L", real=True)
    a, b = sp.Symbol("minval", real=True), sp.Symbol("maxval", real=True)
    extras = {p.lstrip("*"): sp.Symbol(p.lstrip("*"), positive=True) for p in fi.params[3:]}
    v0 = {pl: L0, pa: a, pb: b}
    v0.update(extras)
    env = _Env(se, fi, fi.module, v0, {})
    periods = []
    found = {}
    unrec = []
    nloop = 0
    body = []
    for st in fi.node.body:
        body.extend(_test_first(st) or [st])
    for st in body:
        if not isinstance(st, ast.While):
            if any(isinstance(x, ast.While) for x in ast.walk(st)):
                unrec.append("nested loop at line %s" % st.lineno)
                continue
            if isinstance(st, ast.Return):
                break
            env.exec_stmt(st, sp.true)
            continue
        nloop += 1
        L = sp.Symbol("L%d" % nloop, real=True)
        # an arbitrary state at the loop head: the masks computed before the loop are re-expressed over it
        cur = env.vars.get(pl)
        if not isinstance(cur, sp.Basic):
            unrec.append("loop %d: the folded array is not a term" % nloop)
            continue
        if cur != L0 and not isinstance(cur, sp.Symbol):
            unrec.append("loop %d: state before the loop not recognised" % nloop)
            continue
        for k, v in list(env.vars.items()):
            if isinstance(v, symx.Mask):
                env.vars[k] = symx.Mask(v.cond.xreplace({cur: L}))
        env.vars[pl] = L
        c0 = _nonempty_cond(env, st.test)
        if c0 is None or st.orelse:
            unrec.append("loop %d: test `%s` is not a some-element-selected test" % (nloop, norm(st.test)))
            continue
        if isinstance(c0, (sp.Lt, sp.Le)) and sp.simplify(c0.lhs - L) == 0 and c0.rhs == a:
            side, step, strict = "below-minimum", 360, isinstance(c0, sp.Lt)
        elif isinstance(c0, (sp.Gt, sp.Ge)) and sp.simplify(c0.lhs - L) == 0 and c0.rhs == b:
            side, step, strict = "above-maximum", -360, isinstance(c0, sp.Gt)
        elif isinstance(c0, (sp.Gt, sp.Ge)) and sp.simplify(c0.rhs - L) == 0 and c0.lhs == a:
            side, step, strict = "below-minimum", 360, isinstance(c0, sp.Gt)
        elif isinstance(c0, (sp.Lt, sp.Le)) and sp.simplify(c0.rhs - L) == 0 and c0.lhs == b:
            side, step, strict = "above-maximum", -360, isinstance(c0, sp.Lt)
        else:
            unrec.append("loop %d: condition %s is not a comparison of the array with minval / maxval" % (nloop, c0))
            continue
        try:
            rets = env.exec_body(st.body, sp.true)
        except AnalysisError as e:
            unrec.append("loop %d: %s" % (nloop, e))
            continue
        L1 = env.vars.get(pl)
        c1 = _nonempty_cond(env, st.test)
        desc = {"moves": None, "recomputed": None}
        if isinstance(L1, sp.Basic) and not rets:
            sgn = 1 if step > 0 else -1
            hit = [P for P in [sp.Integer(360)] + list(extras.values()) if symx.equal(L1, sp.Piecewise((L + sgn * P, c0), (L, True)))[0]]
            if hit:
                desc["moves"] = True
                periods.append(hit[0])
                step = sgn * hit[0]
            elif isinstance(L1, sp.Piecewise) and len(L1.args) == 2 and L1.args[1] == (L, sp.true) and (
                    (L1.args[0][0] - L).is_number or any(sp.simplify(L1.args[0][0] - L + sgn * P) == 0 for P in extras.values())):
                # the selected elements are moved, but not by one turn against the violated bound (another amount, or a period the wrong way),
                # or not the elements tested
                desc["moves"] = False
            elif L1 == L:
                desc["moves"] = False
        if c1 is not None and isinstance(L1, sp.Basic):
            if c1 == c0.xreplace({L: L1}):
                desc["recomputed"] = True
            elif c1 == c0:
                desc["recomputed"] = False
        if not strict and desc["moves"]:
            desc["moves"] = None        # `<=` / `>=` against the bound: not the fold this rule knows
        found.setdefault(side, []).append((desc, "while some %s: selected += %s -> %s; next test on %s" % (c0, step, L1, c1)))
        env.vars[pl] = sp.Symbol("L%dx" % nloop, real=True)
        for k, v in list(env.vars.items()):
            if isinstance(v, symx.Mask):
                env.vars.pop(k)
    period = periods[0] if len(periods) == 2 and periods[0] == periods[1] and set(found) == {"below-minimum", "above-maximum"} and not unrec else None
    repo.__dict__["_c09_fold"] = dict(fi=fi, found=found, unrec=unrec, period=period)
    return repo.__dict__["_c09_fold"]


# ---------------------------------------------------------------------------
# the fold of a (latitude, longitude) pair: a pair that is already in range is a fixed point, except for the longitude at the poles
def _is_fold(e):
    return isinstance(e, sp.Function) and type(e).__name__ == "atbound" and len(e.args) == 3


def _iv_abs(iv):
    if iv.lo >= 0:
        return iv
    if iv.hi <= 0:
        return iv.scale(-1)
    a, b = -iv.lo, iv.hi
    if a > b or (a == b and iv.lc):
        return _Iv(0, True, a, iv.lc)
    return _Iv(0, True, b, iv.hc)


def _range2(e, dom):
    """interval of a linear combination of: symbols with a known range, |x|, and the opaque range fold atbound(x, lo, hi) (x itself when x is
    within [lo, hi]: the fold moves only elements outside the bounds; [lo, hi] when the bounds are a full turn apart); None when not known"""
    e = sp.expand(e)
    out = _Iv(0, True, 0, True)
    for atom, co in e.as_coefficients_dict().items():
        if not (co.is_number and co.is_real):
            return None
        if atom == 1:
            iv = _Iv(co, True, co, True)
        else:
            if atom in dom:
                base = dom[atom]
            elif isinstance(atom, sp.Abs):
                inner = _range2(atom.args[0], dom)
                if inner is None:
                    return None
                base = _iv_abs(inner)
            elif _is_fold(atom) and atom.args[1].is_number and atom.args[2].is_number:
                inner = _range2(atom.args[0], dom)
                box = _Iv(atom.args[1], True, atom.args[2], True)
                if inner is not None and inner.within(box):
                    base = inner
                elif atom.args[2] - atom.args[1] >= 360:
                    base = box
                else:
                    return None
            else:
                return None
            iv = base.scale(co)
        out = out.add(iv)
    return out


def _decide(c, dom):
    """truth of a comparison for every value in the domain: True / False / None (depends on the value, or not known)"""
    if c is sp.true or c is sp.false:
        return bool(c)
    if isinstance(c, sp.Not):
        r = _decide(c.args[0], dom)
        return None if r is None else (not r)
    if not isinstance(c, (sp.Eq, sp.Ne, sp.Lt, sp.Le, sp.Gt, sp.Ge)):
        return None
    iv = _range2(c.lhs - c.rhs, dom)
    if iv is None:
        return None
    zero = _Iv(0, True, 0, True)
    has0 = not iv.meet(zero).empty()
    only0 = iv.lo == 0 and iv.hi == 0
    if isinstance(c, (sp.Eq, sp.Ne)):
        r = True if only0 else (False if not has0 else None)
        return r if (r is None or isinstance(c, sp.Eq)) else (not r)
    pos = iv.lo > 0 or (iv.lo == 0 and not iv.lc)          # every value > 0
    nonneg = iv.lo >= 0
    neg = iv.hi < 0 or (iv.hi == 0 and not iv.hc)
    nonpos = iv.hi <= 0
    if isinstance(c, sp.Gt):
        return True if pos else (False if nonpos else None)
    if isinstance(c, sp.Ge):
        return True if nonneg else (False if neg else None)
    if isinstance(c, sp.Lt):
        return True if neg else (False if nonneg else None)
    return True if nonpos else (False if pos else None)


def _unfold_in_range(e, dom):
    """e with every range fold of a value that is within the fold's bounds taken off (there the fold does nothing)"""
    def fix(x):
        inner = _range2(x.args[0], dom)
        if inner is not None and x.args[1].is_number and x.args[2].is_number and inner.within(_Iv(x.args[1], True, x.args[2], True)):
            return x.args[0]
        return x
    for _ in range(6):
        new = e.replace(_is_fold, fix)
        if new == e:
            break
        e = new
    return e


def _strip_folds(e):
    """e with every range fold taken off: the fold moves by whole turns only (rule atbound::fold-structure)"""
    for _ in range(6):
        new = e.replace(_is_fold, lambda x: x.args[0])
        if new == e:
            break
        e = new
    return e


def _resolve(c, dom):
    """the guard with every comparison that holds / fails for the whole domain replaced by true / false (and, or, not, if-then-else folded)"""
    c = sp.sympify(c)
    if isinstance(c, sp.ITE):
        a = _resolve(c.args[0], dom)
        if a is sp.true:
            return _resolve(c.args[1], dom)
        if a is sp.false:
            return _resolve(c.args[2], dom)
        return sp.Or(sp.And(a, _resolve(c.args[1], dom)), sp.And(sp.Not(a), _resolve(c.args[2], dom)))
    if isinstance(c, (sp.And, sp.Or)):
        return type(c)(*[_resolve(a, dom) for a in c.args])
    if isinstance(c, sp.Not):
        return sp.Not(_resolve(c.args[0], dom))
    r = _decide(c, dom)
    return c if r is None else (sp.true if r else sp.false)


def _literals(conds, dom):
    """the guards as a list of conjuncts, resolved over the domain; None when they cannot hold"""
    out = []
    for c in conds:
        c = _resolve(c, dom)
        if c is sp.false:
            return None
        if c is sp.true:
            continue
        out += list(c.args) if isinstance(c, sp.And) else [c]
    return out


def _pair_cases(T, P, dom):
    """[(undecided guards, T, P)]: the feasible guarded cases of the pair under the domain, with folds of in-range values taken off and guards
    that hold / fail for the whole domain resolved"""
    def settle(e):
        # folds of in-range values taken off, then the guards of every case split resolved over the domain (if-then-else guards spelled out)
        for _ in range(4):
            e = _unfold_in_range(e, dom)
            new = e.replace(lambda x: isinstance(x, sp.Piecewise), lambda x: sp.Piecewise(*[(v, _resolve(c, dom)) for v, c in x.args]))
            if new == e:
                break
            e = new
        return e
    pair = sp.Tuple(settle(T), settle(P))
    out = []
    for conds, v in _guarded_cases(pair):
        keep = _literals([_unfold_in_range(sp.sympify(c), dom) for c in conds], dom)
        if keep is None:
            continue
        v = sp.Tuple(*[_unfold_in_range(x, dom) for x in v])
        if any(isinstance(x, sp.Piecewise) for t in v for x in sp.preorder_traversal(t)):
            # a guard taken off a fold opened a new case split: go round again
            sub = _pair_cases(v[0], v[1], dom)
            out += [(keep + k2, t2, p2) for k2, t2, p2 in sub]
            continue
        out.append((keep, v[0], v[1]))
    return out


def _solution_set(conds, x, lo, hi):
    """the set of x in [lo, hi] satisfying every guard (each a comparison in x alone), or None"""
    S = sp.Interval(lo, hi)
    for c in conds:
        c = sp.nsimplify(c, rational=True) if c.atoms(sp.Float) else c
        if c.free_symbols != {x}:
            return None
        try:
            if isinstance(c, sp.Or):
                part = sp.Union(*[sp.solveset(a, x, sp.Interval(lo, hi)) for a in c.args])
            else:
                part = sp.solveset(c, x, sp.Interval(lo, hi))
        except Exception:
            return None
        if isinstance(part, sp.ConditionSet) or part.has(sp.ConditionSet) or part.has(sp.ImageSet):
            return None
        S = S.intersect(part)
    return S


def _min_abs(S):
    """inf of |x| over the set (a union of intervals and points), or None"""
    if S is sp.S.EmptySet:
        return None
    try:
        if S.contains(0) == sp.true:
            return sp.Integer(0)
        parts = S.args if isinstance(S, sp.Union) else [S]
        best = None
        for p_ in parts:
            ends = list(p_) if isinstance(p_, sp.FiniteSet) else [p_.inf, p_.sup]
            if isinstance(p_, sp.Interval) and p_.inf < 0 < p_.sup:
                ends.append(sp.Integer(0))
            for e in ends:
                if best is None or abs(e) < best:
                    best = abs(e)
        return best
    except Exception:
        return None


def fold2(chk, repo):
    """R09.8 atbound2(latitude, longitude), the fold sdss2eq hands its result to.  sdss2eq is the inverse of eq2sdss to 1e-9 degree only if the
    fold does not move the point: for a latitude already within [-90, 90] (sdss2eq's is an arcsine) the latitude comes back as it is and the
    longitude changes by whole turns only -- except where the longitude means nothing, at |latitude| = 90 exactly.  The function is evaluated
    to terms (the one-dimensional fold opaque: it moves by whole turns and leaves in-range values alone), specialised to latitude in [-90, 90]
    by interval reasoning, and every remaining guarded case is inspected: if the longitude is replaced, the guards must confine the latitude to
    the poles (to within the 1e-9 degree the property allows on the sky: the set of latitudes the guards admit is computed, not sampled)."""
    if not repo.has(_coords_fn(repo, "atbound2")):
        return
    fi = repo.func(_coords_fn(repo, "atbound2"))
    chk.analysed_unit(fi.qualname)
    key = "atbound2::in-range-pair-is-kept-except-at-the-poles"
    what = "for a latitude within [-90,90] the pair fold returns the latitude unchanged and the longitude up to whole turns, except at |latitude| = 90 exactly"
    params = [p for p in fi.params if not p.startswith("*")]
    if len(params) != 2:
        chk.ob("R09.8", key, None, fi.where(), what + ": the fold does not take a (latitude, longitude) pair")
        return
    T0, P0 = sp.Symbol("lat", real=True), sp.Symbol("lon", real=True)
    dom = {T0: _Iv(-90, True, 90, True)}
    se = _Eval(repo, opaque={_coords_fn(repo, "atbound")})
    try:
        se.run(fi, {params[0]: T0, params[1]: P0}, {})
        Tf, Pf = se.last_env.vars.get(params[0]), se.last_env.vars.get(params[1])
    except AnalysisError as e:
        chk.ob("R09.8", key, None, fi.where(), what + ": the fold could not be evaluated (%s)" % str(e)[:200])
        return
    if not (isinstance(Tf, sp.Basic) and isinstance(Pf, sp.Basic)):
        chk.ob("R09.8", key, None, fi.where(), what + ": the folded pair is not a pair of terms")
        return
    try:
        cases = _pair_cases(Tf, Pf, dom)
    except Exception as e:
        chk.ob("R09.8", key, None, fi.where(), what + ": case split failed (%s)" % str(e)[:120])
        return
    tol = sp.Rational(1, 10 ** 9)
    verdict, shown = True, []
    for conds, T, P in cases:
        S = _solution_set(conds, T0, -90, 90)
        if S is sp.S.EmptySet:
            continue
        lat_kept = sp.simplify(T - T0) == 0
        lon_kept = _multiple_of_turn(sp.expand(_strip_folds(P) - P0))
        desc = "where %s: (lat, lon) -> (%s, %s)" % (" and ".join(str(c) for c in conds) or "always", T, P)
        if lat_kept and lon_kept:
            shown.append(desc + " kept")
            continue
        if S is None:
            verdict = None if verdict is not False else False
            shown.append(desc + ": NOT RECOGNISED (the guards are not comparisons of the latitude with numbers)")
            continue
        m = _min_abs(S)
        if m is None:
            verdict = None if verdict is not False else False
            shown.append(desc + ": NOT RECOGNISED (latitudes admitted: %s)" % S)
            continue
        if not lat_kept:
            # the latitude itself is changed for in-range latitudes S
            off = sp.simplify(T - T0)
            if off.is_number and S != sp.S.EmptySet:
                verdict = False
                shown.append(desc + ": MOVES THE LATITUDE by %s for latitudes %s" % (off, S))
            else:
                verdict = None if verdict is not False else False
                shown.append(desc + ": NOT RECOGNISED (latitude changed)")
            continue
        # the longitude is replaced: by up to 2 (90 - |lat|) degrees on the sky
        if 2 * (90 - m) > tol:
            verdict = False
            shown.append(desc + ": REPLACES THE LONGITUDE for latitudes %s, i.e. up to %s degree away from the pole (moves the point by up to %s degree on the sky; "
                         "only |lat| = 90 exactly has no longitude)" % (S, sp.N(90 - m, 6), sp.N(2 * (90 - m), 6)))
        else:
            shown.append(desc + " at the poles only (%s)" % S)
    if not cases:
        verdict = None
    chk.ob("R09.8", key, verdict, fi.where(), what + ": " + "; ".join(shown)[:1400])
