"""C03 -- appends accumulate; append to a missing file creates it; incompatible
append is rejected before any byte is written; row count updated in place.

Decided structurally (DESIGN 5/C03): R03.1 mode selection, R03.2 compatibility
check dominance and flag->raise, R03.3 first-write vs append state, R03.4
in-place SIZE update, R03.5 append position, R03.6 overwrite.
"""
import ast
import copy
import itertools
import os
import re
import string

from vcheck import cfront
from vcheck.cfg import eval_test
from vcheck.core import PyRepo, AnalysisError, call_name, dotted_name, kwarg, norm, const_value
from vcheck import rules
from vcheck.rules import cfg_of
from vcheck.cstr import eval_c_string_cond, printf_directives

MANIFEST = dict(
    text="Structural rule checking (not a behavioural proof): decides, for every input and history at once, that (1) the "
         "append-mode fallback for a missing file is live, reaches the record-file constructor and names a mode the C++ "
         "constructor accepts without a dtype; (2) a dtype-compatibility check that raises dominates every byte-writing call "
         "of SFile.write and every mismatch flag on both the binary and the text arm ends in a raise; (3) header text is "
         "written only on the first write and the three row-count copies (file SIZE line, handle, header dict) are updated "
         "together; (4) the Python SIZE format and the C++ in-place updater agree in prefix, width (>=20) and conversion; "
         "(5) seek-to-end dominates every output call reachable from Records::Write; (6) append=False selects mode 'w'.",
    note="Not decided: byte-level equality of the concatenation, libc/file-system semantics, numpy dtype comparison "
         "semantics. Trusted: CPython ast, clang 14 AST, networkx dominators, SWIG naming convention, LP64.",
    technique="static analysis: CFG dominance / def-use / flag-specialised reachability over Python ast and clang AST, printf-format agreement",
)

BYTE_WRITERS = ("write_header_and_update_offset", "update_row_count", "Write")


# rules that keep their verdict however the code is laid out (decided by term equality, effect analysis or dominance over
# resolved calls); every other rule of this check is a template rule (vcheck.core.Check.obt)
SEMANTIC = ('R03.1a', 'R03.1b', 'R03.1c', 'R03.2b', 'R03.2c', 'R03.2d', 'R03.3d', 'R03.4c', 'R03.5')


def run(chk):
    repo = PyRepo()
    chk.set_templates(repo, semantic=SEMANTIC)
    chk.explanation = (
        "C03 is decided by structural rules over the parsed Python (ast+CFG) and C++ (clang AST+CFG) sources: "
        "def-use of the append-mode fallback, dominance of the dtype-compatibility check over every byte-writing "
        "call, flag-to-raise reachability on both the binary and text arms, first-write/append state discipline, "
        "SIZE-line format agreement between the Python writer and the C++ in-place updater, seek-to-end dominance "
        "in Records::Write.  Byte-level concatenation and file-system semantics are not decided.")
    chk.trusted = ["CPython ast", "clang 14 AST", "networkx dominators", "SWIG naming convention (Records.m -> Records::m)"]
    chk.floor = 16
    sf_write = repo.func("esutil.sfile.write")
    SFile_open = repo.func("esutil.sfile.SFile.open")
    SFile_write = repo.func("esutil.sfile.SFile.write")
    Rec_open = repo.func("esutil.recfile.Util.Recfile.open")
    Rec_write = repo.func("esutil.recfile.Util.Recfile.write")
    for f in (sf_write, SFile_open, SFile_write, Rec_open, Rec_write):
        chk.analysed_unit(f.qualname)

    decls = cfront.load_tu("records")
    cfun = cfront.functions(decls)
    for nm in ("Records::Records", "Records::Write", "Records::update_row_count",
               "Records::write_header_and_update_offset"):
        if nm not in cfun:
            raise AnalysisError("C++ anchor %s not found" % nm)
        chk.analysed_unit(nm)

    r03_1(chk, repo, sf_write, SFile_open, Rec_open, cfun)
    r03_2(chk, repo, SFile_write)
    r03_3(chk, repo)
    r03_4(chk, repo, cfun)
    r03_5(chk, cfun)
    r03_6(chk, sf_write, cfun)
    r03_7(chk, repo, Rec_write)


# ---------------------------------------------------------------------------
# A small path-sensitive symbolic executor for Python functions (used by R03.1a, R03.2c-e, R03.3, R03.4a, R03.6, R03.7).
#
# Every path of a function (each loop body taken zero times or once) is walked with forward substitution: the value of a
# local / `self.x` / `self.x['k']` is an expression over the symbols the ROOT function sees on entry (its parameters and the
# attributes of self as they were on entry).  Calls to methods of the same class and to functions of the same module are
# followed (parameters bound to the argument expressions, stores to `self.x` kept), so extracting or inlining a helper,
# introducing or removing a temporary, early return vs if/else, flag-and-break vs return-the-message all give the same
# paths.  A path carries: the branch outcomes taken (`facts`), the calls made in order with their argument expressions
# (`events`), the final attribute values (`heap`) and how it ends (return value / raise).  Rules are then stated over paths.
# ---------------------------------------------------------------------------
class _TooBig(Exception):
    """path enumeration exceeded its budget: the rule that asked has no verdict"""


_NN = "__notnone__"
_COMPS = (ast.ListComp, ast.SetComp, ast.DictComp, ast.GeneratorExp)


def _walk_expr(e):
    """breadth-first walk that does not enter lambdas / comprehensions (their calls run in another scope)"""
    todo = [e]
    i = 0
    while i < len(todo):
        x = todo[i]
        i += 1
        yield x
        for c in ast.iter_child_nodes(x):
            if not isinstance(c, (ast.Lambda,) + _COMPS + (ast.FunctionDef, ast.AsyncFunctionDef, ast.ClassDef)):
                todo.append(c)


def _hkey(n):
    """key of an lvalue rooted at self (self.a, self.a.b, self.a['k']) or None"""
    x = n
    while True:
        if isinstance(x, ast.Attribute):
            x = x.value
        elif isinstance(x, ast.Subscript) and isinstance(x.slice, ast.Constant):
            x = x.value
        else:
            break
    if isinstance(x, ast.Name) and x.id == "self" and x is not n:
        return norm(n)
    return None


class _Sub(ast.NodeTransformer):
    def __init__(self, loc, heap):
        self.loc, self.heap = loc, heap

    def visit_Name(self, n):
        v = self.loc.get(n.id) if isinstance(n.ctx, ast.Load) else None
        return copy.deepcopy(v) if v is not None else n

    def _h(self, n):
        if isinstance(n.ctx, ast.Load):
            k = _hkey(n)
            if k is not None and k in self.heap:
                return copy.deepcopy(self.heap[k])
        return self.generic_visit(n)

    visit_Attribute = visit_Subscript = _h

    def visit_Lambda(self, n):
        return n

    def _comp(self, n):
        bound = {x.id for g in n.generators for x in ast.walk(g.target) if isinstance(x, ast.Name)}
        return _Sub({k: v for k, v in self.loc.items() if k not in bound}, self.heap).generic_visit(n)

    visit_ListComp = visit_SetComp = visit_GeneratorExp = visit_DictComp = _comp


def _is_none(v):
    return isinstance(v, ast.Constant) and v.value is None


def _nonempty_str(v):
    """an expression that certainly yields a non-empty string"""
    if isinstance(v, ast.Constant):
        return isinstance(v.value, str) and v.value != ""
    if isinstance(v, ast.BinOp) and isinstance(v.op, (ast.Mod, ast.Add)):
        return _nonempty_str(v.left) or (isinstance(v.op, ast.Add) and _nonempty_str(v.right))
    if isinstance(v, ast.JoinedStr):
        return any(_nonempty_str(x) for x in v.values)
    if isinstance(v, ast.Call) and isinstance(v.func, ast.Attribute) and v.func.attr == "format":
        return _nonempty_str(v.func.value)
    return False


def _is_notnone(v):
    if isinstance(v, ast.Constant):
        return v.value is not None
    if isinstance(v, (ast.JoinedStr, ast.Tuple, ast.List, ast.Dict, ast.Set, ast.Compare, ast.BinOp) + _COMPS):
        return True
    if isinstance(v, ast.Name) and v.id == _NN:
        return True
    return _nonempty_str(v)


_CMP = {ast.Eq: lambda a, b: a == b, ast.NotEq: lambda a, b: a != b, ast.Lt: lambda a, b: a < b, ast.LtE: lambda a, b: a <= b,
        ast.Gt: lambda a, b: a > b, ast.GtE: lambda a, b: a >= b, ast.In: lambda a, b: a in b, ast.NotIn: lambda a, b: a not in b}


def _atom(e):
    """(canonical key, polarity) of an atomic test: `a != b` is the atom eq(a,b) with polarity False, `a >= b` is lt(a,b) False ..."""
    if isinstance(e, ast.UnaryOp) and isinstance(e.op, ast.Not):
        k, p = _atom(e.operand)
        return k, not p
    if isinstance(e, ast.Compare) and len(e.ops) == 1:
        l, r, op = e.left, e.comparators[0], e.ops[0]
        tl, tr = norm(l), norm(r)
        if isinstance(op, (ast.Is, ast.IsNot)) or (isinstance(op, (ast.Eq, ast.NotEq)) and (_is_none(l) or _is_none(r))):
            return ("is",) + tuple(sorted((tl, tr))), isinstance(op, (ast.Is, ast.Eq))
        if isinstance(op, (ast.Eq, ast.NotEq)):
            return ("eq",) + tuple(sorted((tl, tr))), isinstance(op, ast.Eq)
        if isinstance(op, (ast.Lt, ast.GtE)):
            return ("lt", tl, tr), isinstance(op, ast.Lt)
        if isinstance(op, (ast.Gt, ast.LtE)):
            return ("lt", tr, tl), isinstance(op, ast.Gt)
        if isinstance(op, (ast.In, ast.NotIn)):
            return ("in", tl, tr), isinstance(op, ast.In)
    return ("truth", norm(e)), True


def _implied(e, outcome, where):
    """atomic facts that follow from test e having the given outcome"""
    if isinstance(e, ast.UnaryOp) and isinstance(e.op, ast.Not):
        return _implied(e.operand, not outcome, where)
    if isinstance(e, ast.BoolOp) and (isinstance(e.op, ast.And) == bool(outcome)):
        out = []
        for v in e.values:
            out.extend(_implied(v, outcome, where))
        return out
    k, p = _atom(e)
    return [(k, outcome if p else (not outcome), e, where)]


class _Fold(ast.NodeTransformer):
    """replace expressions known (from an equality fact) to equal a constant, fold constant subscripts"""

    def __init__(self, eqs):
        self.eqs = eqs

    def generic_visit(self, n):
        if isinstance(n, (ast.Name, ast.Attribute, ast.Subscript)) and isinstance(getattr(n, "ctx", None), ast.Load):
            t = norm(n)
            if t in self.eqs:
                return copy.deepcopy(self.eqs[t])
        n = super().generic_visit(n)
        if isinstance(n, ast.Subscript) and isinstance(n.value, ast.Constant) and isinstance(n.slice, ast.Constant) \
                and isinstance(n.value.value, (str, tuple)) and isinstance(n.slice.value, int):
            try:
                return ast.Constant(value=n.value.value[n.slice.value])
            except IndexError:
                return n
        return n


def _with_eqs(e, facts):
    eqs = {}
    for k, v, x, _ in facts:
        if k[0] == "eq" and v and isinstance(x, ast.Compare):
            l, r = x.left, x.comparators[0]
            if isinstance(r, ast.Constant) and not isinstance(l, ast.Constant):
                eqs[norm(l)] = r
            elif isinstance(l, ast.Constant) and not isinstance(r, ast.Constant):
                eqs[norm(r)] = l
    return _Fold(eqs).visit(copy.deepcopy(e))


def _decide(e, facts):
    """three-valued truth of an (already substituted) test under the facts of the path"""
    if isinstance(e, ast.Constant):
        return bool(e.value)
    if isinstance(e, ast.UnaryOp) and isinstance(e.op, ast.Not):
        v = _decide(e.operand, facts)
        return None if v is None else (not v)
    if isinstance(e, ast.BoolOp):
        vals = [_decide(v, facts) for v in e.values]
        if isinstance(e.op, ast.And):
            if any(v is False for v in vals):
                return False
            if all(v is True for v in vals):
                return True
        else:
            if any(v is True for v in vals):
                return True
            if all(v is False for v in vals):
                return False
    elif isinstance(e, ast.Compare) and len(e.ops) == 1:
        l, r, op = e.left, e.comparators[0], e.ops[0]
        if isinstance(op, (ast.Is, ast.IsNot, ast.Eq, ast.NotEq)) and (_is_none(l) or _is_none(r)):
            o = r if _is_none(l) else l
            res = True if _is_none(o) else (False if _is_notnone(o) else None)
            if res is not None:
                return res if isinstance(op, (ast.Is, ast.Eq)) else (not res)
        elif isinstance(l, ast.Constant) and isinstance(r, ast.Constant) and type(op) in _CMP:
            try:
                return bool(_CMP[type(op)](l.value, r.value))
            except TypeError:
                return None
    elif _nonempty_str(e) or isinstance(e, ast.JoinedStr):
        return True if _nonempty_str(e) else None
    key, pol = _atom(e)
    for k, v, _, _ in reversed(facts):
        if k == key:
            return v if pol else (not v)
    return None


class _St:
    """state of one path: heap (self.x -> expr), facts (branch outcomes), events (calls / stores in order)"""
    __slots__ = ("heap", "facts", "events")

    def __init__(self, heap=None, facts=(), events=()):
        self.heap = heap if heap is not None else {}
        self.facts = facts
        self.events = events

    def evolve(self, heap=None, facts=None, events=None):
        return _St(self.heap if heap is None else heap, self.facts if facts is None else facts,
                   self.events if events is None else events)


class _PX:
    def __init__(self, repo, stop=(), want=None, maxdepth=4, budget=120000):
        self.repo = repo
        self.stop = set(stop)       # callee names that are not followed (the rule speaks about the call itself)
        self.want = want            # optional predicate(FuncInfo): follow only these callees
        self.maxdepth = maxdepth
        self.budget = budget
        self._n = itertools.count()

    # -- callee resolution ------------------------------------------------
    def resolve(self, fi, call):
        d = dotted_name(call.func)
        if not d:
            return None
        if d.startswith("self.") and d.count(".") == 1 and fi.cls:
            return self.repo.funcs.get("%s.%s.%s" % (fi.module.name, fi.cls, d.split(".")[1]))
        if "." not in d:
            f = self.repo.funcs.get("%s.%s" % (fi.module.name, d))
            return f if f is not None and f.cls is None else None
        return None

    def inlinable(self, fi, call, stack):
        callee = self.resolve(fi, call)
        if callee is None or callee.name in self.stop or callee.qualname in stack or len(stack) > self.maxdepth:
            return None
        if self.want is not None and not self.want(callee):
            return None
        if rules.is_generator(callee.node) or any(isinstance(a, ast.Starred) for a in call.args) \
                or any(k.arg is None for k in call.keywords):
            return None
        return callee

    def fresh(self):
        return ast.Name(id="__unk%d__" % next(self._n), ctx=ast.Load())

    def subst(self, e, loc, heap):
        return _Sub(loc, heap).visit(copy.deepcopy(e))

    def bind(self, callee, call, loc, heap):
        ps = [p for p in callee.params if not p.startswith("*")]
        if callee.cls and ps and isinstance(call.func, ast.Attribute):
            ps = ps[1:]
        cl = {}
        for p, a in zip(ps, call.args):
            cl[p] = self.subst(a, loc, heap)
        for k in call.keywords:
            if k.arg in ps:
                cl[k.arg] = self.subst(k.value, loc, heap)
        for p in ps:
            if p not in cl:
                cl[p] = copy.deepcopy(callee.defaults[p]) if p in callee.defaults else self.fresh()
        return cl

    # -- expressions ------------------------------------------------------
    def note(self, e, fi, loc, st):
        evs = []
        for c in _walk_expr(e):
            if isinstance(c, ast.Call):
                f = c.func
                evs.append(dict(kind="call", name=call_name(c), dotted=dotted_name(f),
                                recv=self.subst(f.value, loc, st.heap) if isinstance(f, ast.Attribute) else None,
                                args=[self.subst(a, loc, st.heap) for a in c.args],
                                kw={k.arg: self.subst(k.value, loc, st.heap) for k in c.keywords if k.arg},
                                fn=fi, line=getattr(c, "lineno", 0), nfacts=len(st.facts), nev=len(st.events)))
        if not evs:
            return st
        evs.reverse()       # inner calls are evaluated before the call that takes them as argument
        return st.evolve(events=st.events + tuple(evs))

    def ev(self, e, fi, loc, st, stack):
        """[(value | None, state, raised)]: value of e on each way through the helpers it calls"""
        st = self.note(e, fi, loc, st)
        out = []
        work = [(copy.deepcopy(e), loc, st)]
        while work:
            e1, loc1, st1 = work.pop()
            calls = [x for x in _walk_expr(e1) if isinstance(x, ast.Call)]
            pick = None
            for i in range(len(calls) - 1, -1, -1):
                callee = self.inlinable(fi, calls[i], stack)
                if callee is not None:
                    pick = (i, callee)
                    break
            if pick is None:
                out.append((self.subst(e1, loc1, st1.heap), st1, False))
                continue
            i, callee = pick
            cloc = self.bind(callee, calls[i], loc1, st1.heap)
            for kind, val, st2 in self.run(callee, cloc, st1, stack + (callee.qualname,)):
                if kind == "raise":
                    out.append((None, st2, True))
                    continue
                ph = "__ret%d__" % next(self._n)
                e2 = copy.deepcopy(e1)
                tgt = [x for x in _walk_expr(e2) if isinstance(x, ast.Call)][i]
                if e2 is tgt:
                    e2 = ast.Name(id=ph, ctx=ast.Load())
                else:
                    for p in ast.walk(e2):
                        for fld, v in ast.iter_fields(p):
                            if v is tgt:
                                setattr(p, fld, ast.Name(id=ph, ctx=ast.Load()))
                            elif isinstance(v, list):
                                for j, x in enumerate(v):
                                    if x is tgt:
                                        v[j] = ast.Name(id=ph, ctx=ast.Load())
                loc2 = dict(loc1)
                loc2[ph] = val
                work.append((e2, loc2, st2))
        return out

    # -- stores -------------------------------------------------------------
    def assign(self, t, val, fi, loc, st, line):
        if isinstance(t, ast.Name):
            loc = dict(loc)
            loc[t.id] = val
            return loc, st
        if isinstance(t, (ast.Tuple, ast.List)):
            if isinstance(val, (ast.Tuple, ast.List)) and len(val.elts) == len(t.elts) \
                    and not any(isinstance(x, ast.Starred) for x in list(val.elts) + list(t.elts)):
                parts = list(val.elts)
            else:
                parts = [ast.Subscript(value=copy.deepcopy(val), slice=ast.Constant(value=i), ctx=ast.Load())
                         for i in range(len(t.elts))]
            for tt, p in zip(t.elts, parts):
                loc, st = self.assign(tt.value if isinstance(tt, ast.Starred) else tt, p, fi, loc, st, line)
            return loc, st
        k = _hkey(t)
        if k is not None:
            heap = {h: v for h, v in st.heap.items() if not (h.startswith(k + ".") or h.startswith(k + "["))}
            heap[k] = val
            ev_ = dict(kind="store", name=k, value=val, fn=fi, line=line, nfacts=len(st.facts), nev=len(st.events))
            return loc, st.evolve(heap=heap, events=st.events + (ev_,))
        return loc, st

    # -- statements -----------------------------------------------------------
    def stmt(self, fi, n, loc, st, stack):
        """[(loc, state, raised)] after the simple statement of CFG node n"""
        a = n.ast
        line = getattr(a, "lineno", 0)
        if isinstance(a, (ast.Assign, ast.AnnAssign)):
            if a.value is None:
                return [(loc, st, False)]
            out = []
            for val, st2, raised in self.ev(a.value, fi, loc, st, stack):
                if raised:
                    out.append((loc, st2, True))
                    continue
                loc2 = loc
                for t in (a.targets if isinstance(a, ast.Assign) else [a.target]):
                    loc2, st2 = self.assign(t, val, fi, loc2, st2, line)
                out.append((loc2, st2, False))
            return out
        if isinstance(a, ast.AugAssign):
            out = []
            for val, st2, raised in self.ev(a.value, fi, loc, st, stack):
                if raised:
                    out.append((loc, st2, True))
                    continue
                cur = copy.deepcopy(a.target)
                for x in ast.walk(cur):
                    if hasattr(x, "ctx"):
                        x.ctx = ast.Load()
                cur = self.subst(cur, loc, st2.heap)
                new = ast.BinOp(left=cur, op=copy.deepcopy(a.op), right=val)
                loc2, st3 = self.assign(a.target, new, fi, loc, st2, line)
                out.append((loc2, st3, False))
            return out
        if isinstance(a, ast.Expr):
            return [(loc, st2, raised) for _, st2, raised in self.ev(a.value, fi, loc, st, stack)]
        if isinstance(a, ast.Delete):
            heap = dict(st.heap)
            loc2 = dict(loc)
            for t in a.targets:
                k = _hkey(t)
                if k is not None:
                    heap[k] = self.fresh()
                elif isinstance(t, ast.Name):
                    loc2[t.id] = self.fresh()
            return [(loc2, st.evolve(heap=heap), False)]
        return [(loc, st, False)]

    # -- paths ----------------------------------------------------------------
    def branch(self, val, st, where):
        """[(label, state)] for the outcomes of a test that are consistent with the path so far"""
        val = _with_eqs(val, st.facts)
        d = _decide(val, st.facts)
        out = []
        for lab in ("T", "F"):
            want = lab == "T"
            if d is None:
                out.append((lab, st.evolve(facts=st.facts + tuple(_implied(val, want, where)))))
            elif d == want:
                out.append((lab, st))
        return out

    def run(self, fi, loc, st=None, stack=None):
        """[(kind, value, state)] with kind 'return' | 'raise' for every path through fi"""
        st = st or _St()
        stack = stack or (fi.qualname,)
        cfg = cfg_of(fi)
        out = []
        work = [(cfg.entry, loc, st, ())]
        while work:
            n, loc, st, vis = work.pop()
            self.budget -= 1
            if self.budget < 0:
                raise _TooBig()
            if n is cfg.exit:
                out.append(("return", ast.Constant(value=None), st))
                continue
            if n is cfg.raise_exit:
                out.append(("raise", None, st))
                continue
            succ = cfg.succ(n)
            normal = [(m, labs) for m, labs in succ if labs - {"exc"}]
            handlers = [m for m, labs in succ if "exc" in labs]
            where = (fi, n.lineno)

            def raised(st_):
                if handlers:
                    for h in handlers:
                        work.append((h, loc, st_, vis))
                else:
                    out.append(("raise", None, st_))

            k = n.kind
            if k == "return":
                if n.ast.value is None:
                    out.append(("return", ast.Constant(value=None), st))
                else:
                    for val, st2, r in self.ev(n.ast.value, fi, loc, st, stack):
                        if r:
                            raised(st2)
                        else:
                            out.append(("return", val, st2))
            elif k == "raise":
                st2 = self.note(n.ast, fi, loc, st) if n.ast.exc is not None else st
                raised(st2)
            elif k == "branch" or (k == "loop" and isinstance(n.ast, ast.While)):
                again = k == "loop" and vis.count(n.id) >= 1
                vis2 = vis + (n.id,) if k == "loop" else vis
                for val, st2, r in self.ev(n.ast.test, fi, loc, st, stack):
                    if r:
                        raised(st2)
                        continue
                    for lab, st3 in ([("F", st2)] if again else self.branch(val, st2, where)):
                        for m, labs in normal:
                            if lab in labs:
                                work.append((m, loc, st3, vis2))
            elif k == "loop":
                a = n.ast
                again = vis.count(n.id) >= 1
                for itv, st2, r in self.ev(a.iter, fi, loc, st, stack):
                    if r:
                        raised(st2)
                        continue
                    for m, labs in normal:
                        if "F" in labs:
                            work.append((m, loc, st2, vis + (n.id,)))
                        if "T" in labs and not again:
                            work.append((m, self.bind_for(a, itv, loc, n.id), st2, vis + (n.id,)))
            elif k == "with":
                loc2, st2 = loc, st
                dead = False
                for it in n.ast.items:
                    res = self.ev(it.context_expr, fi, loc2, st2, stack)
                    val, st2, r = res[0]        # context managers are not forked on
                    if r:
                        raised(st2)
                        dead = True
                        break
                    if it.optional_vars is not None:
                        loc2, st2 = self.assign(it.optional_vars, val, fi, loc2, st2, n.lineno)
                if not dead:
                    for m, labs in normal:
                        work.append((m, loc2, st2, vis))
            elif k == "stmt":
                for loc2, st2, r in self.stmt(fi, n, loc, st, stack):
                    if r:
                        raised(st2)
                    else:
                        for m, labs in normal:
                            work.append((m, loc2, st2, vis))
            else:       # entry, try, handler, def
                loc2 = loc
                if k == "handler" and n.ast.name:
                    loc2 = dict(loc)
                    loc2[n.ast.name] = self.fresh()
                for m, labs in normal:
                    work.append((m, loc2, st, vis))
        return out

    def bind_for(self, a, itv, loc, nid):
        idx = ast.Name(id="__i%d__" % nid, ctx=ast.Load())

        def elem(x):
            return ast.Subscript(value=copy.deepcopy(x), slice=copy.deepcopy(idx), ctx=ast.Load())

        t = a.target
        loc = dict(loc)
        fn = call_name(itv) if isinstance(itv, ast.Call) and isinstance(itv.func, ast.Name) else None
        if fn == "zip" and isinstance(t, (ast.Tuple, ast.List)) and len(t.elts) == len(itv.args) \
                and all(isinstance(x, ast.Name) for x in t.elts):
            for x, src in zip(t.elts, itv.args):
                loc[x.id] = elem(src)
        elif fn == "enumerate" and isinstance(t, (ast.Tuple, ast.List)) and len(t.elts) == 2 and len(itv.args) == 1 \
                and all(isinstance(x, ast.Name) for x in t.elts):
            loc[t.elts[0].id] = idx
            loc[t.elts[1].id] = elem(itv.args[0])
        elif fn == "range" and isinstance(t, ast.Name) and len(itv.args) == 1:
            loc[t.id] = idx
        elif isinstance(t, ast.Name):
            loc[t.id] = elem(itv)
        else:
            for x in ast.walk(t):
                if isinstance(x, ast.Name):
                    loc[x.id] = self.fresh()
        return loc


def _fact(st, pred, upto=None):
    """value of the last fact (before position `upto`) whose key satisfies pred, or None"""
    for k, v, _, _ in reversed(st.facts[:upto] if upto is not None else st.facts):
        if pred(k):
            return v
    return None


def _is_none_of(text):
    """predicate for the atom `<text> is None`"""
    return lambda k: k[0] == "is" and set(k[1:]) == {"None", text}


def _calls(st, name):
    return [e for e in st.events if e["kind"] == "call" and e["name"] == name]


def _sum_terms(e):
    """sorted texts of the terms of a sum (a + b + c), so that a+b and b+a compare equal"""
    if isinstance(e, ast.BinOp) and isinstance(e.op, ast.Add):
        return sorted(_sum_terms(e.left) + _sum_terms(e.right))
    return [norm(e)]


# ---------------------------------------------------------------------------
def r03_1(chk, repo, sf_write, SFile_open, Rec_open, cfun):
    """mode selection for append"""
    cfg = cfg_of(SFile_open)
    view = cfg.view()
    # (a) every re-assignment of a parameter that is forwarded to the record
    # file constructor (mode, delim, ...) must be live: a fallback that is
    # computed and then dropped changes nothing
    fwd = set()
    for n, c in rules.call_nodes(cfg, lambda c: call_name(c) == "Recfile"):
        for k in c.keywords:
            if k.arg:
                fwd.add(k.arg)
    params = set(SFile_open.params)
    dead = rules.dead_param_stores(cfg, view, names=params & fwd)
    stores = [n for n in cfg.nodes if n.kind == "stmt" and isinstance(n.ast, ast.Assign)
              and any(isinstance(t, ast.Name) and t.id in (params & fwd) for t in n.ast.targets)]
    for n in stores:
        v = n.ast.targets[0].id
        isdead = any(d is n for d, _ in dead)
        chk.ob("R03.1a", "esutil.sfile.SFile.open::fallback-store::%s" % v, not isdead, SFile_open.where(n.ast),
               "re-assignment `%s` of forwarded parameter must reach a use (the append-to-missing-file fallback); "
               "it is %s" % (norm(n.ast), "a dead store: the mode actually used was saved before it" if isdead else "live"))
    if not stores:
        # the fallback may be written differently: require *some* existence test that changes the mode
        has_exists = any(call_name(c) in ("exists", "isfile") for n in cfg.nodes for c in rules.stmts_calls(n))
        chk.ob("R03.1a", "esutil.sfile.SFile.open::fallback-present", has_exists, SFile_open.where(),
               "append to a missing file must fall back to creation: no existence test found in SFile.open"
               if not has_exists else "existence test present")

    # (b) the mode strings that originate inside the package and can reach the
    # Records constructor *without* a dtype must not be ones for which the C++
    # constructor demands a dtype
    origin = set()
    for fi in (sf_write, SFile_open):
        for x in ast.walk(fi.node):
            if isinstance(x, ast.Assign) and len(x.targets) == 1 and isinstance(x.targets[0], ast.Name) \
                    and x.targets[0].id == "mode" and isinstance(x.value, ast.Constant) and isinstance(x.value.value, str):
                origin.add((x.value.value, fi.where(x)))
    ctor = cfun["Records::Records"]
    ccfg = cfront.CCFG(ctor)
    cview = ccfg.view()
    demand = None
    for n in ccfg.nodes:
        if n.kind == "raise":
            ctl = cview.controlling_branches(n)
            txt = [cfront.render(b.c) for b, lab in ctl]
            if any("dtype" in t for t in txt):
                # outermost controlling branch mentioning mMode
                for b, lab in ctl:
                    if "mMode" in cfront.render(b.c) and lab == "T":
                        demand = b.c
    chk.ob("R03.1b", "Records::Records::dtype-demand-condition", demand is not None, "esutil/recfile/records.cpp",
           "located the constructor condition under which a dtype is demanded: %s"
           % (cfront.render(demand) if demand is not None else "NOT FOUND"))
    if demand is not None:
        # which Recfile.open arm passes dtype?  the arm guarded by mode[0]=='r'
        for m, where in sorted(origin):
            reads = m[:1] == "r"
            needs = eval_c_string_cond(demand, "mMode", m)
            ok = reads or (needs is False)
            chk.ob("R03.1b", "mode-literal::%s" % m, ok, where,
                   "package-originated mode %r: %s" % (m, "takes the read arm (dtype from header)" if reads else
                                                     ("C++ constructor demands a dtype for it but the write arm passes none"
                                                      if needs else "write arm, no dtype demanded")))
    # (c) the read/create dispatch and the mode given to Recfile must use the
    # post-fallback mode: any `self._mode`-like attribute that is tested or
    # forwarded must be stored after the last fallback store on every path
    attr_stores = [n for n in cfg.nodes if n.kind == "stmt" and isinstance(n.ast, ast.Assign)
                   and isinstance(n.ast.targets[0], ast.Attribute) and isinstance(n.ast.value, ast.Name)
                   and n.ast.value.id == "mode"]
    attr_names = {norm(s.ast.targets[0]) for s in attr_stores}
    for f in [f for f in stores if f.ast.targets[0].id == "mode"]:
        for u in cfg.nodes:
            if u.ast is None or u in attr_stores:
                continue
            roots = [u.ast.test] if u.kind in ("branch",) else ([u.ast] if u.kind in ("stmt", "return") else [])
            used = set()
            for r in roots:
                for x in ast.walk(r):
                    if isinstance(x, ast.Attribute) and isinstance(x.ctx, ast.Load) and norm(x) in attr_names:
                        used.add(norm(x))
            if not used:
                continue
            stale = view.reaches(f, u, avoiding=attr_stores)
            chk.ob("R03.1c", "esutil.sfile.SFile.open::post-fallback-mode::%s" % (norm(u.ast.test) if u.kind == "branch" else call_name(u.ast.value) if isinstance(u.ast, ast.Assign) and isinstance(u.ast.value, ast.Call) else norm(u.ast)[:40]),
                   not stale, SFile_open.where(u.ast),
                   "use of %s after the fallback `%s` %s" % (sorted(used), norm(f.ast),
                                                            "sees the pre-fallback mode (no re-store in between)" if stale else "sees the re-stored mode"))
    # (d) Recfile.open refuses r+ on a missing file (so the fallback above is the only way)
    rcfg = cfg_of(Rec_open)
    guard = False
    for n in rules.raise_nodes(rcfg):
        for t, lab in rules.controlling_tests(rcfg.view(), n):
            if "exists" in t and "r+" in t and lab == "T":
                guard = True
    chk.ob("R03.1d", "esutil.recfile.Util.Recfile.open::r+-missing-file", guard, Rec_open.where(),
           "opening 'r+' on a missing file raises (instead of silently creating with a stale header)")


# ---------------------------------------------------------------------------
def _callee_attr_funcs(repo, fi, call):
    """resolve self.m(...) to a method of the same class"""
    d = dotted_name(call.func)
    if d and d.startswith("self.") and d.count(".") == 1 and fi.cls:
        q = "%s.%s.%s" % (fi.module.name, fi.cls, d.split(".")[1])
        if repo.has(q):
            return repo.func(q)
    return None


def _reaches_byte_writer(repo, fi, call, depth=0):
    nm = call_name(call)
    if nm in BYTE_WRITERS:
        return True
    d = dotted_name(call.func) or ""
    if d.endswith("_robj.write") or d.endswith("robj.Write"):
        return True
    if depth > 3:
        return False
    callee = _callee_attr_funcs(repo, fi, call)
    if callee is not None:
        for x in ast.walk(callee.node):
            if isinstance(x, ast.Call) and _reaches_byte_writer(repo, callee, x, depth + 1):
                return True
    return False


def r03_2(chk, repo, SFile_write):
    cfg = cfg_of(SFile_write)
    view = cfg.view()
    writers = [(n, c) for n in cfg.nodes for c in rules.stmts_calls(n) if _reaches_byte_writer(repo, SFile_write, c)]
    # the compatibility checker: a callee (or inline code) that compares the
    # file's dtype state with data.dtype and raises
    checkers = []
    for n in cfg.nodes:
        for c in rules.stmts_calls(n):
            callee = _callee_attr_funcs(repo, SFile_write, c)
            if callee is not None and _is_compat_checker(callee):
                checkers.append((n, c, callee))
    chk.ob("R03.2a", "esutil.sfile.SFile.write::compat-check-present", bool(checkers), SFile_write.where(),
           "SFile.write calls a dtype-compatibility checker (a method comparing the stored dtype with data.dtype "
           "that can raise): %s" % ([c[2].qualname for c in checkers] or "NONE FOUND"))
    chk.ob("R03.2a", "esutil.sfile.SFile.write::byte-writers-found", len(writers) >= 2, SFile_write.where(),
           "byte-writing calls reachable from SFile.write: %s" % [norm(c) for _, c in writers])
    for wn, wc in writers:
        dom = any(view.dominates(cn, wn) and cn is not wn for cn, _, _ in checkers)
        chk.ob("R03.2b", "esutil.sfile.SFile.write::check-dominates::%s" % norm(wc.func), dom, SFile_write.where(wn.ast),
               "the compatibility check must dominate byte-writing call `%s`" % norm(wc))
    # inside the checker(s): every assignment of a mismatch flag reaches a raise
    for _, _, callee in checkers:
        chk.analysed_unit(callee.qualname)
        ccfg = cfg_of(callee)
        cview = ccfg.view()
        flags = rules.flag_sets(ccfg, True)
        nflag = 0
        for var, nodes in flags.items():
            if not rules.uses_name_in_tests(ccfg, var):
                continue
            for n in nodes:
                nflag += 1
                arm = _arm_of(cview, n)
                escapes = rules.can_return_normally_from(ccfg, n, {var: True})
                chk.ob("R03.2c", "%s::flag-reaches-raise::%s::%s" % (callee.qualname, arm, _cond_key(cview, n)),
                       not escapes, callee.where(n.ast),
                       "mismatch flag `%s = True` set on the %s arm %s" % (
                           var, arm, "can reach the normal return without any raise: the mismatch is accepted"
                           if escapes else "always ends in a raise"))
        # the binary arm must contain an exact dtype comparison that leads to rejection
        bin_cmp = []
        for n in ccfg.nodes:
            if n.kind == "branch":
                t = n.ast.test
                texts = rules.attr_texts(t)
                if any(x.endswith("_dtype") for x in texts) and any(x.endswith("data.dtype") or x == "data.dtype" for x in texts):
                    bin_cmp.append(n)
        chk.ob("R03.2d", "%s::binary-exact-dtype-comparison" % callee.qualname, bool(bin_cmp), callee.where(),
               "binary appends demand an exact dtype match: comparison of the stored dtype with data.dtype %s"
               % ("found: " + norm(bin_cmp[0].ast.test) if bin_cmp else "NOT FOUND"))
        for n in bin_cmp:
            # mismatch outcome of that comparison must not reach the normal exit
            op = n.ast.test.ops[0] if isinstance(n.ast.test, ast.Compare) else None
            mism_label = "T" if isinstance(op, ast.NotEq) else ("F" if isinstance(op, ast.Eq) else None)
            if mism_label is None:
                chk.observe("R03.2d", callee.where(n.ast), "comparison form not recognised: %s" % norm(n.ast.test))
                continue
            ok = _mismatch_edge_raises(ccfg, n, mism_label)
            chk.ob("R03.2d", "%s::binary-mismatch-raises" % callee.qualname, ok, callee.where(n.ast),
                   "the mismatch outcome of `%s` %s" % (norm(n.ast.test), "always raises" if ok else
                                                       "can reach the normal return: incompatible binary append accepted"))
        # text arm: name, type (byte-order-free), dims compared
        text_cmps = [norm(n.ast.test) for n in ccfg.nodes if n.kind == "branch"]
        want = {"field count": lambda t: "nnames" in t or "len(" in t and "names" in t,
                "field name": lambda t: "[0]" in t and "!=" in t,
                "field type sans byte order": lambda t: "[1][1:]" in t and "!=" in t,
                "field shape": lambda t: "[2]" in t and "!=" in t}
        for label, p in want.items():
            hit = [t for t in text_cmps if p(t)]
            chk.ob("R03.2e", "%s::text-arm-compares::%s" % (callee.qualname, label), bool(hit), callee.where(),
                   "text appends compare %s: %s" % (label, hit[0] if hit else "NO SUCH COMPARISON"))


def _is_compat_checker(fi):
    has_raise = any(isinstance(x, ast.Raise) for x in ast.walk(fi.node))
    texts = set()
    for x in ast.walk(fi.node):
        if isinstance(x, ast.Attribute):
            texts.add(norm(x))
    return has_raise and "data.dtype" in texts and any(t.endswith("._dtype") for t in texts)


def _arm_of(view, n):
    for t, lab in rules.controlling_tests(view, n):
        if "_delim is None" in t:
            return "binary" if lab == "T" else "text"
        if "_delim is not None" in t:
            return "text" if lab == "T" else "binary"
    return "common"


def _cond_key(view, n):
    ts = rules.controlling_tests(view, n)
    return ts[-1][0] if ts else "top"


def _mismatch_edge_raises(cfg, bnode, label):
    """follow the edge `label` of branch bnode; with flags set along the way
    (x = True assignments) decide whether the normal exit is reachable"""
    import networkx as nx
    # collect flag assignments directly under that edge
    succs = [j for j in cfg.g.successors(bnode.id) if label in cfg.g[bnode.id][j]["labels"]]
    for j in succs:
        n = cfg.node(j)
        flags = {}
        cur = n
        # walk straight-line code collecting constant flag sets
        seen = set()
        while cur is not None and cur.id not in seen:
            seen.add(cur.id)
            a = cur.ast
            if cur.kind == "raise":
                break
            if cur.kind == "stmt" and isinstance(a, ast.Assign) and isinstance(a.targets[0], ast.Name) \
                    and isinstance(a.value, ast.Constant):
                flags[a.targets[0].id] = a.value.value
            nxt = list(cfg.g.successors(cur.id))
            if cur.kind != "stmt" or len(nxt) != 1:
                break
            cur = cfg.node(nxt[0])
        if n.kind == "raise":
            continue
        v = cfg.specialise(flags=flags)
        if cfg.exit.id in nx.descendants(v.g, n.id) or n.id == cfg.exit.id:
            return False
    return True


# ---------------------------------------------------------------------------
def r03_3(chk, repo):
    wh = repo.func("esutil.sfile.SFile._write_header")
    chk.analysed_unit(wh.qualname)
    cfg = cfg_of(wh)
    view = cfg.view()
    hdr_writes = rules.calls_named(cfg, "write_header_and_update_offset")
    chk.ob("R03.3a", "esutil.sfile.SFile._write_header::header-writer-present", len(hdr_writes) == 1, wh.where(),
           "exactly one call writes header text (found %d)" % len(hdr_writes))
    for n, c in hdr_writes:
        ts = rules.controlling_tests(view, n)
        ok = any((t in ("self._hdr is not None",) and lab == "F") or (t in ("self._hdr is None",) and lab == "T") for t, lab in ts)
        chk.ob("R03.3a", "esutil.sfile.SFile._write_header::header-only-on-first-write", ok, wh.where(n.ast),
               "header text is written only when no header exists yet (controlling tests: %s)" % ts)
    # append arm: row-count update is called with the size of the new chunk
    upd = [(n, c) for n in cfg.nodes for c in rules.stmts_calls(n) if call_name(c) == "_update_size"]
    ok = False
    for n, c in upd:
        ts = rules.controlling_tests(view, n)
        on_append = any((t == "self._hdr is not None" and lab == "T") or (t == "self._hdr is None" and lab == "F") for t, lab in ts)
        arg_ok = c.args and norm(c.args[0]) in ("data.size", "len(data)", "data.shape[0]")
        ok = ok or (on_append and arg_ok)
    chk.ob("R03.3b", "esutil.sfile.SFile._write_header::append-updates-count", ok, wh.where(),
           "on the append arm the stored row count is increased by the chunk size (data.size)")
    # first-write arm: size string and _size come from data.size; header retained from the user's dict
    first = {"self._size": None, "size_string": None}
    for n in cfg.nodes:
        a = n.ast
        if n.kind == "stmt" and isinstance(a, ast.Assign):
            t = norm(a.targets[0])
            if t == "self._size":
                first["self._size"] = norm(a.value)
            if isinstance(a.value, ast.Call) and call_name(a.value) == "_get_size_string":
                first["size_string"] = norm(a.value.args[0]) if a.value.args else None
    chk.ob("R03.3c", "esutil.sfile.SFile._write_header::first-size", first["self._size"] in ("data.size", "len(data)"),
           wh.where(), "first write records _size = data.size (found %s)" % first["self._size"])
    chk.ob("R03.3c", "esutil.sfile.SFile._write_header::first-size-string", first["size_string"] in ("data.size", "len(data)", "self._size"),
           wh.where(), "SIZE line of a new file is formatted from data.size (found %s)" % first["size_string"])

    us = repo.func("esutil.sfile.SFile._update_size")
    chk.analysed_unit(us.qualname)
    ucfg = cfg_of(us)
    # pairing: file SIZE line, self._size and self._hdr['_SIZE'] all get the same new value = old + add
    newval = None
    stores = {}
    call_arg = None
    for n in ucfg.nodes:
        a = n.ast
        if n.kind == "stmt" and isinstance(a, ast.Assign):
            stores[norm(a.targets[0])] = a.value
        for c in rules.stmts_calls(n):
            if call_name(c) == "update_row_count":
                call_arg = c.args[0] if c.args else None

    def resolve(e, depth=0):
        while isinstance(e, ast.Name) and e.id in stores and depth < 5:
            e = stores[e.id]
            depth += 1
        return e

    def is_sum(e):
        e = resolve(e)
        if isinstance(e, ast.BinOp) and isinstance(e.op, ast.Add):
            l, r = resolve(e.left), resolve(e.right)
            ts = {norm(l), norm(r)}
            return "self._size" in ts and (ts - {"self._size"}) <= {us.params[1] if len(us.params) > 1 else "size_add"}
        return False

    chk.ob("R03.3d", "esutil.sfile.SFile._update_size::file-count", call_arg is not None and is_sum(call_arg), us.where(),
           "the in-file SIZE line is rewritten with old size + added rows (arg: %s)" % (norm(call_arg) if call_arg is not None else None))
    for tgt in ("self._size", "self._hdr['_SIZE']"):
        v = stores.get(tgt)
        chk.ob("R03.3d", "esutil.sfile.SFile._update_size::%s" % tgt, v is not None and is_sum(v), us.where(),
               "%s is updated to old size + added rows together with the file (found %s)" % (tgt, norm(v) if v is not None else None))
    # header retention: user header is only consulted when building a *new* header
    mh = [(n, c) for n in cfg.nodes for c in rules.stmts_calls(n) if call_name(c) == "_make_header"]
    ok = bool(mh)
    for n, c in mh:
        ts = rules.controlling_tests(view, n)
        ok = ok and any((t == "self._hdr is not None" and lab == "F") or (t == "self._hdr is None" and lab == "T") for t, lab in ts)
    chk.ob("R03.3e", "esutil.sfile.SFile._write_header::header-built-once", ok, wh.where(),
           "the header dict is (re)built from the user's header only on the first write; appends keep the stored one")


# ---------------------------------------------------------------------------
def r03_4(chk, repo, cfun):
    """SIZE line: python writer vs C++ in-place updater; rewind -> fprintf -> fseek(END)"""
    gs = repo.func("esutil.sfile.SFile._get_size_string")
    pyfmt = None
    for x in ast.walk(gs.node):
        if isinstance(x, ast.BinOp) and isinstance(x.op, ast.Mod) and isinstance(x.left, ast.Constant) and isinstance(x.left.value, str):
            pyfmt = x.left.value
    urc = cfun["Records::update_row_count"]
    cfmt = None
    seq = []
    ccfg = cfront.CCFG(urc)
    for n in ccfg.nodes:
        for c in cfront.node_calls(n):
            nm = cfront.callee_name(c)
            if nm in ("rewind", "fprintf", "fseek", "fseeko", "myfseeko"):
                seq.append((nm, n, c))
            if nm == "fprintf":
                for a in cfront.call_args(c):
                    sa = cfront.strip(a)
                    if sa.get("kind") == "StringLiteral":
                        cfmt = _cstr(sa.get("value"))
    chk.ob("R03.4a", "size-line::formats-found", pyfmt is not None and cfmt is not None, gs.where(),
           "python SIZE format %r, C++ SIZE format %r" % (pyfmt, cfmt))
    if pyfmt is not None and cfmt is not None:
        pd = printf_directives(pyfmt)
        cd = printf_directives(cfmt)
        same_prefix = pd["literal_prefix"] == cd["literal_prefix"]
        chk.ob("R03.4b", "size-line::same-literal-prefix", same_prefix, gs.where(),
               "literal text before the number agrees (%r vs %r): the in-place update must overwrite exactly the original line"
               % (pd["literal_prefix"], cd["literal_prefix"]))
        wp = pd["directives"][0]["width"] if pd["directives"] else None
        wc = cd["directives"][0]["width"] if cd["directives"] else None
        chk.ob("R03.4b", "size-line::same-field-width", wp is not None and wp == wc, gs.where(),
               "field widths agree (python %s, C++ %s)" % (wp, wc))
        chk.ob("R03.4b", "size-line::width-holds-int64", (wp or 0) >= 20 and (wc or 0) >= 20, gs.where(),
               "width >= 20 holds any 64-bit count without growing the line")
        okconv = bool(pd["directives"]) and bool(cd["directives"]) and pd["directives"][0]["conv"] in "di" and cd["directives"][0]["conv"] in "di" \
            and cd["directives"][0]["length"] in ("l", "ll")
        chk.ob("R03.4b", "size-line::decimal-long", okconv, "esutil/recfile/records.cpp",
               "both use a decimal conversion and the C++ length modifier matches the `long` argument")
        chk.ob("R03.4b", "size-line::one-line", cfmt.endswith("\n") and cfmt.count("\n") == 1 and "\n" not in pyfmt, "esutil/recfile/records.cpp",
               "C++ format ends the line (python joins lines with a newline)")
    names = [s[0] for s in seq]
    ok = names[:1] == ["rewind"] and "fprintf" in names and names[-1] in ("fseek", "fseeko", "myfseeko") \
        and names.index("fprintf") > names.index("rewind")
    if ok:
        last = seq[-1][2]
        ok = "2" in [cfront.render(a) for a in cfront.call_args(last)][-1:]  # SEEK_END == 2
    chk.ob("R03.4c", "Records::update_row_count::rewind-print-seekend", ok, "esutil/recfile/records.cpp",
           "update_row_count: rewind, rewrite the SIZE line, then seek back to the end (found %s)" % names)
    # write_header_and_update_offset: ftell after fprintf
    who = cfun["Records::write_header_and_update_offset"]
    order = []
    for n in cfront.CCFG(who).nodes:
        if n.c is None:
            continue
        for x in cfront.walk(n.c):
            if x.get("kind") in ("CallExpr", "CXXMemberCallExpr"):
                nm = cfront.callee_name(x)
                if nm in ("fprintf", "ftell", "fputs", "fwrite"):
                    order.append(nm)
    ok = "ftell" in order and any(w in order for w in ("fprintf", "fputs", "fwrite")) and \
        order.index("ftell") > min(order.index(w) for w in ("fprintf", "fputs", "fwrite") if w in order)
    chk.ob("R03.4d", "Records::write_header_and_update_offset::offset-after-header", ok, "esutil/recfile/records.cpp",
           "the data offset is taken (ftell) after the header text has been written (call order %s)" % order)


def _cstr(v):
    """clang renders string literal values with quotes and escapes"""
    if v is None:
        return None
    if len(v) >= 2 and v[0] == '"' and v[-1] == '"':
        v = v[1:-1]
    return v.encode("utf-8").decode("unicode_escape")


# ---------------------------------------------------------------------------
OUTPUT_PRIMS = ("fwrite", "fprintf", "fputc", "fputs", "putc")


def r03_5(chk, cfun):
    cg = cfront.call_graph(cfun)
    writers = cfront.reaching_functions(cg, OUTPUT_PRIMS)
    w = cfun["Records::Write"]
    ccfg = cfront.CCFG(w)
    view = ccfg.view()
    seeks = []
    outs = []
    for n in ccfg.nodes:
        for c in cfront.node_calls(n):
            nm = cfront.callee_name(c)
            args = [cfront.render(a) for a in cfront.call_args(c)]
            if nm in ("fseek", "fseeko", "myfseeko") and args[-1:] == ["2"] and args[1:2] == ["0"]:
                seeks.append(n)
            elif nm in writers and nm not in ("debugout",):
                outs.append((n, nm))
    chk.ob("R03.5", "Records::Write::seek-end-present", bool(seeks), "esutil/recfile/records.cpp",
           "Records::Write seeks to the end of the file (fseek(fp,0,SEEK_END)) %s" % ("" if seeks else "-- NOT FOUND"))
    chk.ob("R03.5", "Records::Write::output-calls-found", len(outs) >= 2, "esutil/recfile/records.cpp",
           "calls in Write that reach an output primitive: %s" % [o[1] for o in outs])
    for n, nm in outs:
        dom = any(view.dominates(s, n) and s is not n for s in seeks)
        chk.ob("R03.5", "Records::Write::seek-end-dominates::%s" % nm, dom, "esutil/recfile/records.cpp:%s" % n.lineno,
               "seek-to-end must dominate the output call %s()" % nm)
    # nothing between the seek and the output moves the file position
    movers = ("rewind", "fseek", "fseeko", "myfseeko", "goto_offset", "do_seek", "skip_rows")
    for n in ccfg.nodes:
        for c in cfront.node_calls(n):
            nm = cfront.callee_name(c)
            if nm in movers and n not in seeks:
                bad = any(view.reaches(s, n) for s in seeks) and any(view.reaches(n, o) for o, _ in outs)
                chk.ob("R03.5", "Records::Write::no-reposition-after-seek::%s" % nm, not bad,
                       "esutil/recfile/records.cpp:%s" % n.lineno, "no file repositioning between the seek-to-end and the output")
    # who-may-call: output primitives are only reachable from the three writer entry points
    entries = {"Write", "update_row_count", "write_header_and_update_offset"}
    public_writers = set()
    for f in writers:
        if f in cfun and f in ("Write", "update_row_count", "write_header_and_update_offset", "read_columns",
                               "read_binary_slice", "read_sfile_header", "Records", "close"):
            public_writers.add(f)
    chk.ob("R03.5w", "Records::who-may-write", public_writers <= entries, "esutil/recfile/records.cpp",
           "SWIG-exposed methods that can reach an output primitive: %s (allowed: %s)" % (sorted(public_writers), sorted(entries)))


def r03_6(chk, sf_write, cfun):
    """overwrite: append false => literal mode 'w' reaches SFile(...); fopen gets the mode unmodified"""
    cfg = cfg_of(sf_write)
    for flagval, want in ((False, "w"), (True, "r+")):
        v = cfg.specialise(flags={"append": flagval})
        IN, _ = v.reaching_defs()
        got = set()
        for n in v.nodes():
            for c in rules.stmts_calls(n):
                if call_name(c) == "SFile":
                    m = kwarg(c, "mode")
                    if isinstance(m, ast.Name):
                        for d in IN[n.id].get(m.id, ()):
                            dn = cfg.node(d)
                            if isinstance(dn.ast, ast.Assign) and isinstance(dn.ast.value, ast.Constant):
                                got.add(dn.ast.value.value)
                            else:
                                got.add("<non-literal>")
                    elif isinstance(m, ast.Constant):
                        got.add(m.value)
                    elif m is not None:
                        got.add("<expr>")
        chk.ob("R03.6", "esutil.sfile.write::append=%s::mode" % flagval, got == {want}, sf_write.where(),
               "append=%s selects mode %r for the SFile constructor (found %s)" % (flagval, want, sorted(got)))
    # the data argument reaches sf.write unmodified together with header
    ok = False
    for n in cfg.nodes:
        for c in rules.stmts_calls(n):
            if dotted_name(c.func) == "sf.write" and c.args and norm(c.args[0]) == "data":
                h = kwarg(c, "header")
                ok = h is not None and norm(h) == "header"
    chk.ob("R03.6", "esutil.sfile.write::forwards-data-and-header", ok, sf_write.where(),
           "sfile.write forwards data and header= to SFile.write")
    sp = cfun.get("Records::set_fptr") or cfun.get("set_fptr")
    ok = False
    if sp is not None:
        for c in cfront.calls_in(sp):
            if cfront.callee_name(c) == "fopen":
                args = [cfront.render(a) for a in cfront.call_args(c)]
                ok = args[-1] == "mode"
    chk.ob("R03.6", "Records::set_fptr::mode-unmodified", ok, "esutil/recfile/records.cpp",
           "fopen receives the caller's mode string unmodified")


def r03_7(chk, repo, Rec_write):
    """Recfile.write: the handle's row count follows every write (several writes on one handle)"""
    cfg = cfg_of(Rec_write)
    ok = False
    for n in cfg.nodes:
        a = n.ast
        if n.kind == "stmt" and isinstance(a, ast.AugAssign) and norm(a.target) == "self.nrows" and isinstance(a.op, ast.Add):
            ok = norm(a.value) in ("dataview.size", "data.size", "len(data)")
    chk.ob("R03.7", "esutil.recfile.Util.Recfile.write::nrows-accumulates", ok, Rec_write.where(),
           "Recfile.write adds the chunk size to the handle's row count after writing")
    wcall = [(n, c) for n in cfg.nodes for c in rules.stmts_calls(n) if call_name(c) == "Write"]
    chk.ob("R03.7", "esutil.recfile.Util.Recfile.write::single-C++-write", len(wcall) == 1, Rec_write.where(),
           "exactly one Records::Write call per Recfile.write")
