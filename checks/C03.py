"""C03 -- appends accumulate; append to a missing file creates it; incompatible
append is rejected before any byte is written; row count updated in place.

Decided structurally (DESIGN 5/C03): R03.1 mode selection, R03.2 compatibility
check dominance and flag->raise, R03.3 first-write vs append state, R03.4
in-place SIZE update, R03.5 append position, R03.6 overwrite.
"""
import ast

from vcheck import cfront
from vcheck.cfg import eval_test
from vcheck.core import PyRepo, AnalysisError, call_name, dotted_name, kwarg, norm, const_value
from vcheck import rules
from vcheck.rules import cfg_of
from vcheck.cstr import eval_c_string_cond, printf_directives

MANIFEST = dict(
    text="Structural rule checking (not a behavioural proof): decides, for every input and history at once, that (1) the "
         "append-mode fallback for a missing file is live, reaches the record-file constructor and names a mode the C++ "
         "constructor accepts without a dtype; (2) a dtype-compatibility check that raises dominates every byte-writing call "
         "of SFile.write and every mismatch flag on both the binary and the text arm ends in a raise; (3) header text is "
         "written only on the first write and the three row-count copies (file SIZE line, handle, header dict) are updated "
         "together; (4) the Python SIZE format and the C++ in-place updater agree in prefix, width (>=20) and conversion; "
         "(5) seek-to-end dominates every output call reachable from Records::Write; (6) append=False selects mode 'w'.",
    note="Not decided: byte-level equality of the concatenation, libc/file-system semantics, numpy dtype comparison "
         "semantics. Trusted: CPython ast, clang 14 AST, networkx dominators, SWIG naming convention, LP64.",
    technique="static analysis: CFG dominance / def-use / flag-specialised reachability over Python ast and clang AST, printf-format agreement",
)

BYTE_WRITERS = ("write_header_and_update_offset", "update_row_count", "Write")


# rules that keep their verdict however the code is laid out (decided by term equality, effect analysis or dominance over
# resolved calls); every other rule of this check is a template rule (vcheck.core.Check.obt)
SEMANTIC = ('R03.1a', 'R03.1b', 'R03.1c', 'R03.2b', 'R03.2c', 'R03.2d', 'R03.3d', 'R03.4c', 'R03.5')


def run(chk):
    repo = PyRepo()
    chk.set_templates(repo, semantic=SEMANTIC)
    chk.explanation = (
        "C03 is decided by structural rules over the parsed Python (ast+CFG) and C++ (clang AST+CFG) sources: "
        "def-use of the append-mode fallback, dominance of the dtype-compatibility check over every byte-writing "
        "call, flag-to-raise reachability on both the binary and text arms, first-write/append state discipline, "
        "SIZE-line format agreement between the Python writer and the C++ in-place updater, seek-to-end dominance "
        "in Records::Write.  Byte-level concatenation and file-system semantics are not decided.")
    chk.trusted = ["CPython ast", "clang 14 AST", "networkx dominators", "SWIG naming convention (Records.m -> Records::m)"]
    chk.floor = 16
    sf_write = repo.func("esutil.sfile.write")
    SFile_open = repo.func("esutil.sfile.SFile.open")
    SFile_write = repo.func("esutil.sfile.SFile.write")
    Rec_open = repo.func("esutil.recfile.Util.Recfile.open")
    Rec_write = repo.func("esutil.recfile.Util.Recfile.write")
    for f in (sf_write, SFile_open, SFile_write, Rec_open, Rec_write):
        chk.analysed_unit(f.qualname)

    decls = cfront.load_tu("records")
    cfun = cfront.functions(decls)
    for nm in ("Records::Records", "Records::Write", "Records::update_row_count",
               "Records::write_header_and_update_offset"):
        if nm not in cfun:
            raise AnalysisError("C++ anchor %s not found" % nm)
        chk.analysed_unit(nm)

    r03_1(chk, repo, sf_write, SFile_open, Rec_open, cfun)
    r03_2(chk, repo, SFile_write)
    r03_3(chk, repo)
    r03_4(chk, repo, cfun)
    r03_5(chk, cfun)
    r03_6(chk, sf_write, cfun)
    r03_7(chk, repo, Rec_write)


# ---------------------------------------------------------------------------
def r03_1(chk, repo, sf_write, SFile_open, Rec_open, cfun):
    """mode selection for append"""
    cfg = cfg_of(SFile_open)
    view = cfg.view()
    # (a) every re-assignment of a parameter that is forwarded to the record
    # file constructor (mode, delim, ...) must be live: a fallback that is
    # computed and then dropped changes nothing
    fwd = set()
    for n, c in rules.call_nodes(cfg, lambda c: call_name(c) == "Recfile"):
        for k in c.keywords:
            if k.arg:
                fwd.add(k.arg)
    params = set(SFile_open.params)
    dead = rules.dead_param_stores(cfg, view, names=params & fwd)
    stores = [n for n in cfg.nodes if n.kind == "stmt" and isinstance(n.ast, ast.Assign)
              and any(isinstance(t, ast.Name) and t.id in (params & fwd) for t in n.ast.targets)]
    for n in stores:
        v = n.ast.targets[0].id
        isdead = any(d is n for d, _ in dead)
        chk.ob("R03.1a", "esutil.sfile.SFile.open::fallback-store::%s" % v, not isdead, SFile_open.where(n.ast),
               "re-assignment `%s` of forwarded parameter must reach a use (the append-to-missing-file fallback); "
               "it is %s" % (norm(n.ast), "a dead store: the mode actually used was saved before it" if isdead else "live"))
    if not stores:
        # the fallback may be written differently: require *some* existence test that changes the mode
        has_exists = any(call_name(c) in ("exists", "isfile") for n in cfg.nodes for c in rules.stmts_calls(n))
        chk.ob("R03.1a", "esutil.sfile.SFile.open::fallback-present", has_exists, SFile_open.where(),
               "append to a missing file must fall back to creation: no existence test found in SFile.open"
               if not has_exists else "existence test present")

    # (b) the mode strings that originate inside the package and can reach the
    # Records constructor *without* a dtype must not be ones for which the C++
    # constructor demands a dtype
    origin = set()
    for fi in (sf_write, SFile_open):
        for x in ast.walk(fi.node):
            if isinstance(x, ast.Assign) and len(x.targets) == 1 and isinstance(x.targets[0], ast.Name) \
                    and x.targets[0].id == "mode" and isinstance(x.value, ast.Constant) and isinstance(x.value.value, str):
                origin.add((x.value.value, fi.where(x)))
    ctor = cfun["Records::Records"]
    ccfg = cfront.CCFG(ctor)
    cview = ccfg.view()
    demand = None
    for n in ccfg.nodes:
        if n.kind == "raise":
            ctl = cview.controlling_branches(n)
            txt = [cfront.render(b.c) for b, lab in ctl]
            if any("dtype" in t for t in txt):
                # outermost controlling branch mentioning mMode
                for b, lab in ctl:
                    if "mMode" in cfront.render(b.c) and lab == "T":
                        demand = b.c
    chk.ob("R03.1b", "Records::Records::dtype-demand-condition", demand is not None, "esutil/recfile/records.cpp",
           "located the constructor condition under which a dtype is demanded: %s"
           % (cfront.render(demand) if demand is not None else "NOT FOUND"))
    if demand is not None:
        # which Recfile.open arm passes dtype?  the arm guarded by mode[0]=='r'
        for m, where in sorted(origin):
            reads = m[:1] == "r"
            needs = eval_c_string_cond(demand, "mMode", m)
            ok = reads or (needs is False)
            chk.ob("R03.1b", "mode-literal::%s" % m, ok, where,
                   "package-originated mode %r: %s" % (m, "takes the read arm (dtype from header)" if reads else
                                                     ("C++ constructor demands a dtype for it but the write arm passes none"
                                                      if needs else "write arm, no dtype demanded")))
    # (c) the read/create dispatch and the mode given to Recfile must use the
    # post-fallback mode: any `self._mode`-like attribute that is tested or
    # forwarded must be stored after the last fallback store on every path
    attr_stores = [n for n in cfg.nodes if n.kind == "stmt" and isinstance(n.ast, ast.Assign)
                   and isinstance(n.ast.targets[0], ast.Attribute) and isinstance(n.ast.value, ast.Name)
                   and n.ast.value.id == "mode"]
    attr_names = {norm(s.ast.targets[0]) for s in attr_stores}
    for f in [f for f in stores if f.ast.targets[0].id == "mode"]:
        for u in cfg.nodes:
            if u.ast is None or u in attr_stores:
                continue
            roots = [u.ast.test] if u.kind in ("branch",) else ([u.ast] if u.kind in ("stmt", "return") else [])
            used = set()
            for r in roots:
                for x in ast.walk(r):
                    if isinstance(x, ast.Attribute) and isinstance(x.ctx, ast.Load) and norm(x) in attr_names:
                        used.add(norm(x))
            if not used:
                continue
            stale = view.reaches(f, u, avoiding=attr_stores)
            chk.ob("R03.1c", "esutil.sfile.SFile.open::post-fallback-mode::%s" % (norm(u.ast.test) if u.kind == "branch" else call_name(u.ast.value) if isinstance(u.ast, ast.Assign) and isinstance(u.ast.value, ast.Call) else norm(u.ast)[:40]),
                   not stale, SFile_open.where(u.ast),
                   "use of %s after the fallback `%s` %s" % (sorted(used), norm(f.ast),
                                                            "sees the pre-fallback mode (no re-store in between)" if stale else "sees the re-stored mode"))
    # (d) Recfile.open refuses r+ on a missing file (so the fallback above is the only way)
    rcfg = cfg_of(Rec_open)
    guard = False
    for n in rules.raise_nodes(rcfg):
        for t, lab in rules.controlling_tests(rcfg.view(), n):
            if "exists" in t and "r+" in t and lab == "T":
                guard = True
    chk.ob("R03.1d", "esutil.recfile.Util.Recfile.open::r+-missing-file", guard, Rec_open.where(),
           "opening 'r+' on a missing file raises (instead of silently creating with a stale header)")


# ---------------------------------------------------------------------------
def _callee_attr_funcs(repo, fi, call):
    """resolve self.m(...) to a method of the same class"""
    d = dotted_name(call.func)
    if d and d.startswith("self.") and d.count(".") == 1 and fi.cls:
        q = "%s.%s.%s" % (fi.module.name, fi.cls, d.split(".")[1])
        if repo.has(q):
            return repo.func(q)
    return None


def _reaches_byte_writer(repo, fi, call, depth=0):
    nm = call_name(call)
    if nm in BYTE_WRITERS:
        return True
    d = dotted_name(call.func) or ""
    if d.endswith("_robj.write") or d.endswith("robj.Write"):
        return True
    if depth > 3:
        return False
    callee = _callee_attr_funcs(repo, fi, call)
    if callee is not None:
        for x in ast.walk(callee.node):
            if isinstance(x, ast.Call) and _reaches_byte_writer(repo, callee, x, depth + 1):
                return True
    return False


def r03_2(chk, repo, SFile_write):
    cfg = cfg_of(SFile_write)
    view = cfg.view()
    writers = [(n, c) for n in cfg.nodes for c in rules.stmts_calls(n) if _reaches_byte_writer(repo, SFile_write, c)]
    # the compatibility checker: a callee (or inline code) that compares the
    # file's dtype state with data.dtype and raises
    checkers = []
    for n in cfg.nodes:
        for c in rules.stmts_calls(n):
            callee = _callee_attr_funcs(repo, SFile_write, c)
            if callee is not None and _is_compat_checker(callee):
                checkers.append((n, c, callee))
    chk.ob("R03.2a", "esutil.sfile.SFile.write::compat-check-present", bool(checkers), SFile_write.where(),
           "SFile.write calls a dtype-compatibility checker (a method comparing the stored dtype with data.dtype "
           "that can raise): %s" % ([c[2].qualname for c in checkers] or "NONE FOUND"))
    chk.ob("R03.2a", "esutil.sfile.SFile.write::byte-writers-found", len(writers) >= 2, SFile_write.where(),
           "byte-writing calls reachable from SFile.write: %s" % [norm(c) for _, c in writers])
    for wn, wc in writers:
        dom = any(view.dominates(cn, wn) and cn is not wn for cn, _, _ in checkers)
        chk.ob("R03.2b", "esutil.sfile.SFile.write::check-dominates::%s" % norm(wc.func), dom, SFile_write.where(wn.ast),
               "the compatibility check must dominate byte-writing call `%s`" % norm(wc))
    # inside the checker(s): every assignment of a mismatch flag reaches a raise
    for _, _, callee in checkers:
        chk.analysed_unit(callee.qualname)
        ccfg = cfg_of(callee)
        cview = ccfg.view()
        flags = rules.flag_sets(ccfg, True)
        nflag = 0
        for var, nodes in flags.items():
            if not rules.uses_name_in_tests(ccfg, var):
                continue
            for n in nodes:
                nflag += 1
                arm = _arm_of(cview, n)
                escapes = rules.can_return_normally_from(ccfg, n, {var: True})
                chk.ob("R03.2c", "%s::flag-reaches-raise::%s::%s" % (callee.qualname, arm, _cond_key(cview, n)),
                       not escapes, callee.where(n.ast),
                       "mismatch flag `%s = True` set on the %s arm %s" % (
                           var, arm, "can reach the normal return without any raise: the mismatch is accepted"
                           if escapes else "always ends in a raise"))
        # the binary arm must contain an exact dtype comparison that leads to rejection
        bin_cmp = []
        for n in ccfg.nodes:
            if n.kind == "branch":
                t = n.ast.test
                texts = rules.attr_texts(t)
                if any(x.endswith("_dtype") for x in texts) and any(x.endswith("data.dtype") or x == "data.dtype" for x in texts):
                    bin_cmp.append(n)
        chk.ob("R03.2d", "%s::binary-exact-dtype-comparison" % callee.qualname, bool(bin_cmp), callee.where(),
               "binary appends demand an exact dtype match: comparison of the stored dtype with data.dtype %s"
               % ("found: " + norm(bin_cmp[0].ast.test) if bin_cmp else "NOT FOUND"))
        for n in bin_cmp:
            # mismatch outcome of that comparison must not reach the normal exit
            op = n.ast.test.ops[0] if isinstance(n.ast.test, ast.Compare) else None
            mism_label = "T" if isinstance(op, ast.NotEq) else ("F" if isinstance(op, ast.Eq) else None)
            if mism_label is None:
                chk.observe("R03.2d", callee.where(n.ast), "comparison form not recognised: %s" % norm(n.ast.test))
                continue
            ok = _mismatch_edge_raises(ccfg, n, mism_label)
            chk.ob("R03.2d", "%s::binary-mismatch-raises" % callee.qualname, ok, callee.where(n.ast),
                   "the mismatch outcome of `%s` %s" % (norm(n.ast.test), "always raises" if ok else
                                                       "can reach the normal return: incompatible binary append accepted"))
        # text arm: name, type (byte-order-free), dims compared
        text_cmps = [norm(n.ast.test) for n in ccfg.nodes if n.kind == "branch"]
        want = {"field count": lambda t: "nnames" in t or "len(" in t and "names" in t,
                "field name": lambda t: "[0]" in t and "!=" in t,
                "field type sans byte order": lambda t: "[1][1:]" in t and "!=" in t,
                "field shape": lambda t: "[2]" in t and "!=" in t}
        for label, p in want.items():
            hit = [t for t in text_cmps if p(t)]
            chk.ob("R03.2e", "%s::text-arm-compares::%s" % (callee.qualname, label), bool(hit), callee.where(),
                   "text appends compare %s: %s" % (label, hit[0] if hit else "NO SUCH COMPARISON"))


def _is_compat_checker(fi):
    has_raise = any(isinstance(x, ast.Raise) for x in ast.walk(fi.node))
    texts = set()
    for x in ast.walk(fi.node):
        if isinstance(x, ast.Attribute):
            texts.add(norm(x))
    return has_raise and "data.dtype" in texts and any(t.endswith("._dtype") for t in texts)


def _arm_of(view, n):
    for t, lab in rules.controlling_tests(view, n):
        if "_delim is None" in t:
            return "binary" if lab == "T" else "text"
        if "_delim is not None" in t:
            return "text" if lab == "T" else "binary"
    return "common"


def _cond_key(view, n):
    ts = rules.controlling_tests(view, n)
    return ts[-1][0] if ts else "top"


def _mismatch_edge_raises(cfg, bnode, label):
    """follow the edge `label` of branch bnode; with flags set along the way
    (x = True assignments) decide whether the normal exit is reachable"""
    import networkx as nx
    # collect flag assignments directly under that edge
    succs = [j for j in cfg.g.successors(bnode.id) if label in cfg.g[bnode.id][j]["labels"]]
    for j in succs:
        n = cfg.node(j)
        flags = {}
        cur = n
        # walk straight-line code collecting constant flag sets
        seen = set()
        while cur is not None and cur.id not in seen:
            seen.add(cur.id)
            a = cur.ast
            if cur.kind == "raise":
                break
            if cur.kind == "stmt" and isinstance(a, ast.Assign) and isinstance(a.targets[0], ast.Name) \
                    and isinstance(a.value, ast.Constant):
                flags[a.targets[0].id] = a.value.value
            nxt = list(cfg.g.successors(cur.id))
            if cur.kind != "stmt" or len(nxt) != 1:
                break
            cur = cfg.node(nxt[0])
        if n.kind == "raise":
            continue
        v = cfg.specialise(flags=flags)
        if cfg.exit.id in nx.descendants(v.g, n.id) or n.id == cfg.exit.id:
            return False
    return True


# ---------------------------------------------------------------------------
def r03_3(chk, repo):
    wh = repo.func("esutil.sfile.SFile._write_header")
    chk.analysed_unit(wh.qualname)
    cfg = cfg_of(wh)
    view = cfg.view()
    hdr_writes = rules.calls_named(cfg, "write_header_and_update_offset")
    chk.ob("R03.3a", "esutil.sfile.SFile._write_header::header-writer-present", len(hdr_writes) == 1, wh.where(),
           "exactly one call writes header text (found %d)" % len(hdr_writes))
    for n, c in hdr_writes:
        ts = rules.controlling_tests(view, n)
        ok = any((t in ("self._hdr is not None",) and lab == "F") or (t in ("self._hdr is None",) and lab == "T") for t, lab in ts)
        chk.ob("R03.3a", "esutil.sfile.SFile._write_header::header-only-on-first-write", ok, wh.where(n.ast),
               "header text is written only when no header exists yet (controlling tests: %s)" % ts)
    # append arm: row-count update is called with the size of the new chunk
    upd = [(n, c) for n in cfg.nodes for c in rules.stmts_calls(n) if call_name(c) == "_update_size"]
    ok = False
    for n, c in upd:
        ts = rules.controlling_tests(view, n)
        on_append = any((t == "self._hdr is not None" and lab == "T") or (t == "self._hdr is None" and lab == "F") for t, lab in ts)
        arg_ok = c.args and norm(c.args[0]) in ("data.size", "len(data)", "data.shape[0]")
        ok = ok or (on_append and arg_ok)
    chk.ob("R03.3b", "esutil.sfile.SFile._write_header::append-updates-count", ok, wh.where(),
           "on the append arm the stored row count is increased by the chunk size (data.size)")
    # first-write arm: size string and _size come from data.size; header retained from the user's dict
    first = {"self._size": None, "size_string": None}
    for n in cfg.nodes:
        a = n.ast
        if n.kind == "stmt" and isinstance(a, ast.Assign):
            t = norm(a.targets[0])
            if t == "self._size":
                first["self._size"] = norm(a.value)
            if isinstance(a.value, ast.Call) and call_name(a.value) == "_get_size_string":
                first["size_string"] = norm(a.value.args[0]) if a.value.args else None
    chk.ob("R03.3c", "esutil.sfile.SFile._write_header::first-size", first["self._size"] in ("data.size", "len(data)"),
           wh.where(), "first write records _size = data.size (found %s)" % first["self._size"])
    chk.ob("R03.3c", "esutil.sfile.SFile._write_header::first-size-string", first["size_string"] in ("data.size", "len(data)", "self._size"),
           wh.where(), "SIZE line of a new file is formatted from data.size (found %s)" % first["size_string"])

    us = repo.func("esutil.sfile.SFile._update_size")
    chk.analysed_unit(us.qualname)
    ucfg = cfg_of(us)
    # pairing: file SIZE line, self._size and self._hdr['_SIZE'] all get the same new value = old + add
    newval = None
    stores = {}
    call_arg = None
    for n in ucfg.nodes:
        a = n.ast
        if n.kind == "stmt" and isinstance(a, ast.Assign):
            stores[norm(a.targets[0])] = a.value
        for c in rules.stmts_calls(n):
            if call_name(c) == "update_row_count":
                call_arg = c.args[0] if c.args else None

    def resolve(e, depth=0):
        while isinstance(e, ast.Name) and e.id in stores and depth < 5:
            e = stores[e.id]
            depth += 1
        return e

    def is_sum(e):
        e = resolve(e)
        if isinstance(e, ast.BinOp) and isinstance(e.op, ast.Add):
            l, r = resolve(e.left), resolve(e.right)
            ts = {norm(l), norm(r)}
            return "self._size" in ts and (ts - {"self._size"}) <= {us.params[1] if len(us.params) > 1 else "size_add"}
        return False

    chk.ob("R03.3d", "esutil.sfile.SFile._update_size::file-count", call_arg is not None and is_sum(call_arg), us.where(),
           "the in-file SIZE line is rewritten with old size + added rows (arg: %s)" % (norm(call_arg) if call_arg is not None else None))
    for tgt in ("self._size", "self._hdr['_SIZE']"):
        v = stores.get(tgt)
        chk.ob("R03.3d", "esutil.sfile.SFile._update_size::%s" % tgt, v is not None and is_sum(v), us.where(),
               "%s is updated to old size + added rows together with the file (found %s)" % (tgt, norm(v) if v is not None else None))
    # header retention: user header is only consulted when building a *new* header
    mh = [(n, c) for n in cfg.nodes for c in rules.stmts_calls(n) if call_name(c) == "_make_header"]
    ok = bool(mh)
    for n, c in mh:
        ts = rules.controlling_tests(view, n)
        ok = ok and any((t == "self._hdr is not None" and lab == "F") or (t == "self._hdr is None" and lab == "T") for t, lab in ts)
    chk.ob("R03.3e", "esutil.sfile.SFile._write_header::header-built-once", ok, wh.where(),
           "the header dict is (re)built from the user's header only on the first write; appends keep the stored one")


# ---------------------------------------------------------------------------
def r03_4(chk, repo, cfun):
    """SIZE line: python writer vs C++ in-place updater; rewind -> fprintf -> fseek(END)"""
    gs = repo.func("esutil.sfile.SFile._get_size_string")
    pyfmt = None
    for x in ast.walk(gs.node):
        if isinstance(x, ast.BinOp) and isinstance(x.op, ast.Mod) and isinstance(x.left, ast.Constant) and isinstance(x.left.value, str):
            pyfmt = x.left.value
    urc = cfun["Records::update_row_count"]
    cfmt = None
    seq = []
    ccfg = cfront.CCFG(urc)
    for n in ccfg.nodes:
        for c in cfront.node_calls(n):
            nm = cfront.callee_name(c)
            if nm in ("rewind", "fprintf", "fseek", "fseeko", "myfseeko"):
                seq.append((nm, n, c))
            if nm == "fprintf":
                for a in cfront.call_args(c):
                    sa = cfront.strip(a)
                    if sa.get("kind") == "StringLiteral":
                        cfmt = _cstr(sa.get("value"))
    chk.ob("R03.4a", "size-line::formats-found", pyfmt is not None and cfmt is not None, gs.where(),
           "python SIZE format %r, C++ SIZE format %r" % (pyfmt, cfmt))
    if pyfmt is not None and cfmt is not None:
        pd = printf_directives(pyfmt)
        cd = printf_directives(cfmt)
        same_prefix = pd["literal_prefix"] == cd["literal_prefix"]
        chk.ob("R03.4b", "size-line::same-literal-prefix", same_prefix, gs.where(),
               "literal text before the number agrees (%r vs %r): the in-place update must overwrite exactly the original line"
               % (pd["literal_prefix"], cd["literal_prefix"]))
        wp = pd["directives"][0]["width"] if pd["directives"] else None
        wc = cd["directives"][0]["width"] if cd["directives"] else None
        chk.ob("R03.4b", "size-line::same-field-width", wp is not None and wp == wc, gs.where(),
               "field widths agree (python %s, C++ %s)" % (wp, wc))
        chk.ob("R03.4b", "size-line::width-holds-int64", (wp or 0) >= 20 and (wc or 0) >= 20, gs.where(),
               "width >= 20 holds any 64-bit count without growing the line")
        okconv = bool(pd["directives"]) and bool(cd["directives"]) and pd["directives"][0]["conv"] in "di" and cd["directives"][0]["conv"] in "di" \
            and cd["directives"][0]["length"] in ("l", "ll")
        chk.ob("R03.4b", "size-line::decimal-long", okconv, "esutil/recfile/records.cpp",
               "both use a decimal conversion and the C++ length modifier matches the `long` argument")
        chk.ob("R03.4b", "size-line::one-line", cfmt.endswith("\n") and cfmt.count("\n") == 1 and "\n" not in pyfmt, "esutil/recfile/records.cpp",
               "C++ format ends the line (python joins lines with a newline)")
    names = [s[0] for s in seq]
    ok = names[:1] == ["rewind"] and "fprintf" in names and names[-1] in ("fseek", "fseeko", "myfseeko") \
        and names.index("fprintf") > names.index("rewind")
    if ok:
        last = seq[-1][2]
        ok = "2" in [cfront.render(a) for a in cfront.call_args(last)][-1:]  # SEEK_END == 2
    chk.ob("R03.4c", "Records::update_row_count::rewind-print-seekend", ok, "esutil/recfile/records.cpp",
           "update_row_count: rewind, rewrite the SIZE line, then seek back to the end (found %s)" % names)
    # write_header_and_update_offset: ftell after fprintf
    who = cfun["Records::write_header_and_update_offset"]
    order = []
    for n in cfront.CCFG(who).nodes:
        if n.c is None:
            continue
        for x in cfront.walk(n.c):
            if x.get("kind") in ("CallExpr", "CXXMemberCallExpr"):
                nm = cfront.callee_name(x)
                if nm in ("fprintf", "ftell", "fputs", "fwrite"):
                    order.append(nm)
    ok = "ftell" in order and any(w in order for w in ("fprintf", "fputs", "fwrite")) and \
        order.index("ftell") > min(order.index(w) for w in ("fprintf", "fputs", "fwrite") if w in order)
    chk.ob("R03.4d", "Records::write_header_and_update_offset::offset-after-header", ok, "esutil/recfile/records.cpp",
           "the data offset is taken (ftell) after the header text has been written (call order %s)" % order)


def _cstr(v):
    """clang renders string literal values with quotes and escapes"""
    if v is None:
        return None
    if len(v) >= 2 and v[0] == '"' and v[-1] == '"':
        v = v[1:-1]
    return v.encode("utf-8").decode("unicode_escape")


# ---------------------------------------------------------------------------
OUTPUT_PRIMS = ("fwrite", "fprintf", "fputc", "fputs", "putc")


def r03_5(chk, cfun):
    cg = cfront.call_graph(cfun)
    writers = cfront.reaching_functions(cg, OUTPUT_PRIMS)
    w = cfun["Records::Write"]
    ccfg = cfront.CCFG(w)
    view = ccfg.view()
    seeks = []
    outs = []
    for n in ccfg.nodes:
        for c in cfront.node_calls(n):
            nm = cfront.callee_name(c)
            args = [cfront.render(a) for a in cfront.call_args(c)]
            if nm in ("fseek", "fseeko", "myfseeko") and args[-1:] == ["2"] and args[1:2] == ["0"]:
                seeks.append(n)
            elif nm in writers and nm not in ("debugout",):
                outs.append((n, nm))
    chk.ob("R03.5", "Records::Write::seek-end-present", bool(seeks), "esutil/recfile/records.cpp",
           "Records::Write seeks to the end of the file (fseek(fp,0,SEEK_END)) %s" % ("" if seeks else "-- NOT FOUND"))
    chk.ob("R03.5", "Records::Write::output-calls-found", len(outs) >= 2, "esutil/recfile/records.cpp",
           "calls in Write that reach an output primitive: %s" % [o[1] for o in outs])
    for n, nm in outs:
        dom = any(view.dominates(s, n) and s is not n for s in seeks)
        chk.ob("R03.5", "Records::Write::seek-end-dominates::%s" % nm, dom, "esutil/recfile/records.cpp:%s" % n.lineno,
               "seek-to-end must dominate the output call %s()" % nm)
    # nothing between the seek and the output moves the file position
    movers = ("rewind", "fseek", "fseeko", "myfseeko", "goto_offset", "do_seek", "skip_rows")
    for n in ccfg.nodes:
        for c in cfront.node_calls(n):
            nm = cfront.callee_name(c)
            if nm in movers and n not in seeks:
                bad = any(view.reaches(s, n) for s in seeks) and any(view.reaches(n, o) for o, _ in outs)
                chk.ob("R03.5", "Records::Write::no-reposition-after-seek::%s" % nm, not bad,
                       "esutil/recfile/records.cpp:%s" % n.lineno, "no file repositioning between the seek-to-end and the output")
    # who-may-call: output primitives are only reachable from the three writer entry points
    entries = {"Write", "update_row_count", "write_header_and_update_offset"}
    public_writers = set()
    for f in writers:
        if f in cfun and f in ("Write", "update_row_count", "write_header_and_update_offset", "read_columns",
                               "read_binary_slice", "read_sfile_header", "Records", "close"):
            public_writers.add(f)
    chk.ob("R03.5w", "Records::who-may-write", public_writers <= entries, "esutil/recfile/records.cpp",
           "SWIG-exposed methods that can reach an output primitive: %s (allowed: %s)" % (sorted(public_writers), sorted(entries)))


def r03_6(chk, sf_write, cfun):
    """overwrite: append false => literal mode 'w' reaches SFile(...); fopen gets the mode unmodified"""
    cfg = cfg_of(sf_write)
    for flagval, want in ((False, "w"), (True, "r+")):
        v = cfg.specialise(flags={"append": flagval})
        IN, _ = v.reaching_defs()
        got = set()
        for n in v.nodes():
            for c in rules.stmts_calls(n):
                if call_name(c) == "SFile":
                    m = kwarg(c, "mode")
                    if isinstance(m, ast.Name):
                        for d in IN[n.id].get(m.id, ()):
                            dn = cfg.node(d)
                            if isinstance(dn.ast, ast.Assign) and isinstance(dn.ast.value, ast.Constant):
                                got.add(dn.ast.value.value)
                            else:
                                got.add("<non-literal>")
                    elif isinstance(m, ast.Constant):
                        got.add(m.value)
                    elif m is not None:
                        got.add("<expr>")
        chk.ob("R03.6", "esutil.sfile.write::append=%s::mode" % flagval, got == {want}, sf_write.where(),
               "append=%s selects mode %r for the SFile constructor (found %s)" % (flagval, want, sorted(got)))
    # the data argument reaches sf.write unmodified together with header
    ok = False
    for n in cfg.nodes:
        for c in rules.stmts_calls(n):
            if dotted_name(c.func) == "sf.write" and c.args and norm(c.args[0]) == "data":
                h = kwarg(c, "header")
                ok = h is not None and norm(h) == "header"
    chk.ob("R03.6", "esutil.sfile.write::forwards-data-and-header", ok, sf_write.where(),
           "sfile.write forwards data and header= to SFile.write")
    sp = cfun.get("Records::set_fptr") or cfun.get("set_fptr")
    ok = False
    if sp is not None:
        for c in cfront.calls_in(sp):
            if cfront.callee_name(c) == "fopen":
                args = [cfront.render(a) for a in cfront.call_args(c)]
                ok = args[-1] == "mode"
    chk.ob("R03.6", "Records::set_fptr::mode-unmodified", ok, "esutil/recfile/records.cpp",
           "fopen receives the caller's mode string unmodified")


def r03_7(chk, repo, Rec_write):
    """Recfile.write: the handle's row count follows every write (several writes on one handle)"""
    cfg = cfg_of(Rec_write)
    ok = False
    for n in cfg.nodes:
        a = n.ast
        if n.kind == "stmt" and isinstance(a, ast.AugAssign) and norm(a.target) == "self.nrows" and isinstance(a.op, ast.Add):
            ok = norm(a.value) in ("dataview.size", "data.size", "len(data)")
    chk.ob("R03.7", "esutil.recfile.Util.Recfile.write::nrows-accumulates", ok, Rec_write.where(),
           "Recfile.write adds the chunk size to the handle's row count after writing")
    wcall = [(n, c) for n in cfg.nodes for c in rules.stmts_calls(n) if call_name(c) == "Write"]
    chk.ob("R03.7", "esutil.recfile.Util.Recfile.write::single-C++-write", len(wcall) == 1, Rec_write.where(),
           "exactly one Records::Write call per Recfile.write")
