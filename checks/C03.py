"""C03 -- appends accumulate; append to a missing file creates it; incompatible
append is rejected before any byte is written; row count updated in place.

Decided structurally (DESIGN 5/C03): R03.1 mode selection, R03.2 compatibility
check dominance and mismatch->raise, R03.3 first-write vs append state, R03.4
in-place SIZE update, R03.5 append position, R03.6 overwrite; R03.1e the existence
test of the append fallback looks at the path that is opened, R03.2f a text append is
accepted only after kind and item size of every field compared equal, R03.8 the
records Records::Write emits and the rows Python counts are the same measure of the chunk;
R03.6 header-option-reaches-SFile.write: the user header reaches SFile.write on every path (append or not); R03.7
text-chunk-native: a text handle in any state left by Recfile.open (created or reopened) converts the chunk to native
byte order before Records::Write.

R03.3f reserved-entry-selected-by-name-equality: on reopening a file the handle's row count / dtype / delimiter come from the
header entries whose names EQUAL the reserved names (never a substring / prefix / suffix relation that a user entry can satisfy);
R03.6 append-option-reaches-every-writing-path: every normal return of sfile.write opens the SFile itself or re-dispatches with
the caller's append option passed on.

R03.3g reopened-form-from-stored-header: on the paths of SFile.open that read the stored header, the delimiter / dtype / row
count kept on the handle and handed to the Recfile constructor do not depend (as data, or through the branch that selects them) on
any option of the caller: an append with delim=',' to a binary file writes binary rows.
R03.3h written-header-entry-is-the-writers: in the function that builds the header dict of a new file, an entry of the user's
header spelled like a reserved entry this module stores itself ('_DELIM', '_DTYPE': what a header read from another record file
contains) is removed or overwritten on every path (abstract interpretation over {user, clean, unknown} per dict variable, loops
over literal tables unrolled, constant folding of the key tests), so a binary file never inherits a text file's _DELIM.

R03.1b decides "the C++ constructor demands a dtype for mode m" by constant propagation through Records::Records and the
helpers it calls (mode = the literal, dtype = NULL, everything else unknown: flat constant lattice joined at merges), so the
condition may be spelled over the mode string, over action bits derived from it by a helper, with early returns ...; R03.2
reads an attribute that is a cache of the stored dtype (always stored together with self._dtype as a function of it, class
invariant checked on the paths of every method that stores either) as that function of self._dtype; R03.3c takes the number in
the SIZE line of a new file from the first line of the text handed to the header writer.

The rules are stated over *paths* (python: a small symbolic executor that follows
calls into helpers of the same class / module and substitutes temporaries; C++:
the ordered stream events -- seek to start / end / elsewhere, output -- of a
function with the helpers it calls summarised), not over the statements as they
are laid out today; see DESIGN section 14.
"""
import ast
import copy
import itertools
import os
import re
import string

from vcheck import cfront
from vcheck.core import PyRepo, AnalysisError, call_name, dotted_name, norm, const_value
from vcheck import rules
from vcheck.rules import cfg_of
from vcheck.cstr import eval_c_string_cond, printf_directives

MANIFEST = dict(
    text="Structural rule checking (not a behavioural proof): decides, for every input and history at once, that (1) the "
         "append-mode fallback for a missing file is live, reaches the record-file constructor and names a mode the C++ "
         "constructor accepts without a dtype; (2) a dtype-compatibility check that raises dominates every byte-writing call "
         "of SFile.write and every mismatch outcome of a dtype comparison on both the binary and the text arm ends in a raise; (3) header text is "
         "written only on the first write and the three row-count copies (file SIZE line, handle, header dict) are updated "
         "together; (4) the Python SIZE format and the C++ in-place updater agree in prefix, width (>=20) and conversion; "
         "(5) seek-to-end dominates every output call reachable from Records::Write; (6) append=False selects mode 'w'; "
         "(7) on every path of sfile.write the header handed to SFile.write is the caller's header= option; (8) for every state a "
         "text handle can be in after Recfile.open, every path of Recfile.write converts the chunk to native byte order before "
         "Records::Write (nothing below Records::Write swaps bytes); (9) on reopening a file, the row count an append adds to, the dtype "
         "a chunk is compared with and the delimiter are taken from the header entries selected by equality with the reserved "
         "names, for every user header; (10) no normal return of sfile.write loses the caller's append option; (11) the form "
         "(delimiter, dtype, row count) of a reopened file is a function of its stored header, never of an option of the call; "
         "(12) the header dict written to a new file inherits no reserved entry (_DELIM, _DTYPE) from the user's header on any path.",
    note="Not decided: byte-level equality of the concatenation, libc/file-system semantics, numpy dtype comparison "
         "semantics. Trusted: CPython ast, clang 14 AST, networkx dominators, SWIG naming convention, LP64.",
    technique="static analysis: CFG dominance / def-use, path-sensitive symbolic execution with helper inlining over Python ast, "
              "stream-event summaries and constant propagation (flat lattice) over the clang AST / CFG, printf-format agreement",
)

BYTE_WRITERS = ("write_header_and_update_offset", "update_row_count", "Write")


# rules that keep their verdict however the code is laid out (decided by term equality, effect analysis or dominance over
# resolved calls); every other rule of this check is a template rule (vcheck.core.Check.obt)
SEMANTIC = ('R03.1a', 'R03.1b', 'R03.1c', 'R03.1e', 'R03.2b', 'R03.2c', 'R03.2d', 'R03.2f', 'R03.3d', 'R03.4c', 'R03.4e', 'R03.5', 'R03.8',
            'R03.6::esutil.sfile.write::append=', 'R03.6::esutil.sfile.write::header-option-reaches-SFile.write',
            'R03.6::esutil.sfile.write::append-option-reaches-every-writing-path', 'R03.3f', 'R03.3g', 'R03.3h',
            'R03.7::esutil.recfile.Util.Recfile.write::text-chunk-native',
            'R03.7::esutil.recfile.Util.Recfile.write::chunk-in-element-order')


def run(chk):
    repo = PyRepo()
    chk.set_templates(repo, semantic=SEMANTIC)
    chk.explanation = (
        "C03 is decided by structural rules over the parsed Python (ast+CFG) and C++ (clang AST+CFG) sources: "
        "def-use of the append-mode fallback, dominance of the dtype-compatibility check over every byte-writing "
        "call, flag-to-raise reachability on both the binary and text arms, first-write/append state discipline, "
        "SIZE-line format agreement between the Python writer and the C++ in-place updater, seek-to-end dominance "
        "in Records::Write.  Byte-level concatenation and file-system semantics are not decided.")
    chk.trusted = ["CPython ast", "clang 14 AST", "networkx dominators", "SWIG naming convention (Records.m -> Records::m)"]
    chk.floor = 16
    sf_write = repo.func("esutil.sfile.write")
    SFile_open = repo.func("esutil.sfile.SFile.open")
    SFile_write = repo.func("esutil.sfile.SFile.write")
    Rec_open = repo.func("esutil.recfile.Util.Recfile.open")
    Rec_write = repo.func("esutil.recfile.Util.Recfile.write")
    for f in (sf_write, SFile_open, SFile_write, Rec_open, Rec_write):
        chk.analysed_unit(f.qualname)

    _note_lib_names(sf_write.module, Rec_write.module)
    decls = cfront.load_tu("records")
    cfun = cfront.functions(decls)
    for nm in ("Records::Records", "Records::Write", "Records::update_row_count",
               "Records::write_header_and_update_offset"):
        if nm not in cfun:
            raise AnalysisError("C++ anchor %s not found" % nm)
        chk.analysed_unit(nm)

    ceff = _CEff(cfun)
    ceff.decls = decls
    r03_1(chk, repo, sf_write, SFile_open, Rec_open, cfun, decls, ceff.lookup)
    r03_2(chk, repo, SFile_write)
    measures = []       # (who, expression, chunk parameter, where): what the Python side adds to / records as the row count
    first_fmts = set()  # printf-style formats that _write_header applies itself to produce the SIZE line of a new file
    r03_3(chk, repo, measures, first_fmts)
    r03_3f(chk, repo, SFile_open)
    r03_3g(chk, repo, SFile_open)
    r03_3h(chk, repo, SFile_write, SFile_open)
    r03_4(chk, repo, cfun, ceff, first_fmts)
    r03_5(chk, cfun, ceff)
    r03_6(chk, repo, sf_write, cfun)
    r03_7(chk, repo, Rec_write, measures, ceff)
    r03_8(chk, cfun, ceff, measures)


# ---------------------------------------------------------------------------
# A small path-sensitive symbolic executor for Python functions (used by R03.1a, R03.2c-e, R03.3, R03.4a, R03.6, R03.7).
#
# Every path of a function (each loop body taken zero times or once) is walked with forward substitution: the value of a
# local / `self.x` / `self.x['k']` is an expression over the symbols the ROOT function sees on entry (its parameters and the
# attributes of self as they were on entry).  Calls to methods of the same class and to functions of the same module are
# followed (parameters bound to the argument expressions, stores to `self.x` kept), so extracting or inlining a helper,
# introducing or removing a temporary, early return vs if/else, flag-and-break vs return-the-message all give the same
# paths.  A path carries: the branch outcomes taken (`facts`), the calls made in order with their argument expressions
# (`events`), the final attribute values (`heap`) and how it ends (return value / raise).  Rules are then stated over paths.
# ---------------------------------------------------------------------------
class _TooBig(Exception):
    """path enumeration exceeded its budget: the rule that asked has no verdict"""


_NN = "__notnone__"
_COMPS = (ast.ListComp, ast.SetComp, ast.DictComp, ast.GeneratorExp)


def _walk_expr(e):
    """breadth-first walk that does not enter lambdas / comprehensions (their calls run in another scope)"""
    todo = [e]
    i = 0
    while i < len(todo):
        x = todo[i]
        i += 1
        yield x
        for c in ast.iter_child_nodes(x):
            if not isinstance(c, (ast.Lambda,) + _COMPS + (ast.FunctionDef, ast.AsyncFunctionDef, ast.ClassDef)):
                todo.append(c)


def _hkey(n):
    """key of an lvalue rooted at self (self.a, self.a.b, self.a['k']) or None"""
    x = n
    while True:
        if isinstance(x, ast.Attribute):
            x = x.value
        elif isinstance(x, ast.Subscript) and isinstance(x.slice, ast.Constant):
            x = x.value
        else:
            break
    if isinstance(x, ast.Name) and x.id == "self" and x is not n:
        return norm(n)
    return None


class _Sub(ast.NodeTransformer):
    def __init__(self, loc, heap):
        self.loc, self.heap = loc, heap

    def visit_Name(self, n):
        v = self.loc.get(n.id) if isinstance(n.ctx, ast.Load) else None
        return copy.deepcopy(v) if v is not None else n

    def _h(self, n):
        if isinstance(n.ctx, ast.Load):
            k = _hkey(n)
            if k is not None and k in self.heap:
                return copy.deepcopy(self.heap[k])
        return self.generic_visit(n)

    visit_Attribute = visit_Subscript = _h

    def visit_Lambda(self, n):
        return n

    def _comp(self, n):
        bound = {x.id for g in n.generators for x in ast.walk(g.target) if isinstance(x, ast.Name)}
        return _Sub({k: v for k, v in self.loc.items() if k not in bound}, self.heap).generic_visit(n)

    visit_ListComp = visit_SetComp = visit_GeneratorExp = visit_DictComp = _comp


def _is_none(v):
    return isinstance(v, ast.Constant) and v.value is None


def _nonempty_str(v):
    """an expression that certainly yields a non-empty string"""
    if isinstance(v, ast.Constant):
        return isinstance(v.value, str) and v.value != ""
    if isinstance(v, ast.BinOp) and isinstance(v.op, (ast.Mod, ast.Add)):
        return _nonempty_str(v.left) or (isinstance(v.op, ast.Add) and _nonempty_str(v.right))
    if isinstance(v, ast.JoinedStr):
        return any(_nonempty_str(x) for x in v.values)
    if isinstance(v, ast.Call) and isinstance(v.func, ast.Attribute) and v.func.attr == "format":
        return _nonempty_str(v.func.value)
    return False


def _is_notnone(v):
    if isinstance(v, ast.Constant):
        return v.value is not None
    if isinstance(v, (ast.JoinedStr, ast.Tuple, ast.List, ast.Dict, ast.Set, ast.Compare, ast.BinOp) + _COMPS):
        return True
    if isinstance(v, ast.Name) and v.id == _NN:
        return True
    return _nonempty_str(v)


def _as_dict_literal(v):
    """an ast.Dict with constant keys for `{...}` / `dict(k=v, ...)` whose keys are all known, else None"""
    if isinstance(v, ast.Dict) and all(isinstance(k, ast.Constant) for k in v.keys):
        return v
    if isinstance(v, ast.Call) and isinstance(v.func, ast.Name) and v.func.id == "dict" and not v.args \
            and all(k.arg is not None for k in v.keywords):
        return ast.Dict(keys=[ast.Constant(value=k.arg) for k in v.keywords], values=[k.value for k in v.keywords])
    return None


def _dict_with(d, key, val):
    """copy of dict literal d with d[key] = val"""
    keys, vals = list(d.keys), list(d.values)
    for i, k in enumerate(keys):
        if type(k.value) is type(key.value) and k.value == key.value:
            vals[i] = val
            break
    else:
        keys.append(key)
        vals.append(val)
    return ast.Dict(keys=keys, values=vals)


def _dict_lookup(d, key):
    """value of `d[key]` for a dict literal with constant keys and a constant key (last entry wins); None if absent"""
    hit = None
    for k, v in zip(d.keys, d.values):
        try:
            if k.value == key.value and hash(k.value) == hash(key.value):
                hit = v
        except TypeError:
            return None
    return hit


_IMMUTABLE_LIT = (ast.Constant,)
_READ_ONLY_METHODS = ("get", "keys", "values", "items", "index", "count", "copy")
_modconst_memo = {}


def _is_literal(v):
    if isinstance(v, ast.Constant):
        return True
    if isinstance(v, (ast.Tuple, ast.List, ast.Set)):
        return all(_is_literal(x) for x in v.elts)
    if isinstance(v, ast.Dict):
        return all(k is not None and isinstance(k, ast.Constant) for k in v.keys) and all(_is_literal(x) for x in v.values)
    return False


def _module_const(mod, name):
    """the literal a module-level name is bound to for the whole life of the module: bound exactly once (at module level, to a
    literal built from constants), never rebound, declared global, deleted, aliased, passed on or mutated through a method /
    subscript store (so a dispatch table `_MODES = {False: 'w', True: 'r+'}` reads as its entries); else None"""
    key = (id(mod), name)
    if key in _modconst_memo:
        return _modconst_memo[key]
    _modconst_memo[key] = None
    v = mod.consts.get(name)
    if v is None or not _is_literal(v):
        return None
    binds = 0
    for x in ast.walk(mod.tree):
        if isinstance(x, ast.Name) and x.id == name and not isinstance(x.ctx, ast.Load):
            binds += 1
        elif isinstance(x, (ast.Global, ast.Nonlocal)) and name in x.names:
            return None
        elif isinstance(x, (ast.FunctionDef, ast.AsyncFunctionDef, ast.ClassDef)) and x.name == name:
            return None
        elif isinstance(x, ast.arg) and x.arg == name:
            binds += 1          # shadowed somewhere: keep it simple
        elif isinstance(x, ast.alias) and (x.asname or x.name.split(".")[0]) == name:
            return None
        elif isinstance(x, ast.ExceptHandler) and x.name == name:
            return None
    if binds != 1:
        return None
    def immutable(e):
        return isinstance(e, ast.Constant) or (isinstance(e, ast.Tuple) and all(immutable(y) for y in e.elts))

    if not immutable(v):
        # a mutable literal: every read must be a plain lookup
        for p in ast.walk(mod.tree):
            for c in ast.iter_child_nodes(p):
                if isinstance(c, ast.Name) and c.id == name and isinstance(c.ctx, ast.Load):
                    ok = (isinstance(p, ast.Subscript) and p.value is c and isinstance(p.ctx, ast.Load)) \
                        or (isinstance(p, ast.Compare) and c in p.comparators) \
                        or (isinstance(p, ast.Call) and isinstance(p.func, ast.Name) and p.func.id in ("len", "sorted", "tuple", "frozenset"))
                    if isinstance(p, ast.Attribute) and p.value is c and p.attr in _READ_ONLY_METHODS:
                        ok = True
                    if not ok:
                        return None
    _modconst_memo[key] = v
    return v


def _free_consts(fi):
    """{name: literal} for the module-level constants (see _module_const) a function reads as free variables"""
    local = set(p.lstrip("*") for p in fi.params)
    loads = set()
    for x in ast.walk(fi.node):
        if isinstance(x, ast.Name):
            (loads if isinstance(x.ctx, ast.Load) else local).add(x.id)
        elif isinstance(x, ast.arg):
            local.add(x.arg)
        elif isinstance(x, (ast.Global, ast.Nonlocal)):
            local.update(x.names)
        elif isinstance(x, ast.ExceptHandler) and x.name:
            local.add(x.name)
        elif isinstance(x, ast.alias):
            local.add(x.asname or x.name.split(".")[0])
    out = {}
    for nm in loads - local:
        if nm in fi.module.consts:
            v = _module_const(fi.module, nm)
            if v is not None:
                out[nm] = v
    return out


_CMP = {ast.Eq: lambda a, b: a == b, ast.NotEq: lambda a, b: a != b, ast.Lt: lambda a, b: a < b, ast.LtE: lambda a, b: a <= b,
        ast.Gt: lambda a, b: a > b, ast.GtE: lambda a, b: a >= b, ast.In: lambda a, b: a in b, ast.NotIn: lambda a, b: a not in b}


def _atom(e):
    """(canonical key, polarity) of an atomic test: `a != b` is the atom eq(a,b) with polarity False, `a >= b` is lt(a,b) False ..."""
    if isinstance(e, ast.UnaryOp) and isinstance(e.op, ast.Not):
        k, p = _atom(e.operand)
        return k, not p
    if isinstance(e, ast.Compare) and len(e.ops) == 1:
        l, r, op = e.left, e.comparators[0], e.ops[0]
        tl, tr = norm(l), norm(r)
        if isinstance(op, (ast.Is, ast.IsNot)) or (isinstance(op, (ast.Eq, ast.NotEq)) and (_is_none(l) or _is_none(r))):
            return ("is",) + tuple(sorted((tl, tr))), isinstance(op, (ast.Is, ast.Eq))
        if isinstance(op, (ast.Eq, ast.NotEq)):
            return ("eq",) + tuple(sorted((tl, tr))), isinstance(op, ast.Eq)
        if isinstance(op, (ast.Lt, ast.GtE)):
            return ("lt", tl, tr), isinstance(op, ast.Lt)
        if isinstance(op, (ast.Gt, ast.LtE)):
            return ("lt", tr, tl), isinstance(op, ast.Gt)
        if isinstance(op, (ast.In, ast.NotIn)):
            return ("in", tl, tr), isinstance(op, ast.In)
    return ("truth", norm(e)), True


def _implied(e, outcome, where):
    """atomic facts that follow from test e having the given outcome"""
    if isinstance(e, ast.UnaryOp) and isinstance(e.op, ast.Not):
        return _implied(e.operand, not outcome, where)
    if isinstance(e, ast.BoolOp) and (isinstance(e.op, ast.And) == bool(outcome)):
        out = []
        for v in e.values:
            out.extend(_implied(v, outcome, where))
        return out
    k, p = _atom(e)
    return [(k, outcome if p else (not outcome), e, where)]


class _Fold(ast.NodeTransformer):
    """replace expressions known (from an equality fact) to equal a constant, fold constant subscripts"""

    def __init__(self, eqs):
        self.eqs = eqs

    def generic_visit(self, n):
        if isinstance(n, (ast.Name, ast.Attribute, ast.Subscript)) and isinstance(getattr(n, "ctx", None), ast.Load):
            t = norm(n)
            if t in self.eqs:
                return copy.deepcopy(self.eqs[t])
        n = super().generic_visit(n)
        if isinstance(n, ast.Subscript) and isinstance(n.value, ast.Constant) and isinstance(n.slice, ast.Constant) \
                and isinstance(n.value.value, (str, tuple)) and isinstance(n.slice.value, int):
            try:
                return ast.Constant(value=n.value.value[n.slice.value])
            except IndexError:
                return n
        if isinstance(n, ast.Subscript) and isinstance(n.slice, ast.Constant) and _as_dict_literal(n.value) is not None \
                and not any(isinstance(x, ast.Call) for x in ast.walk(n.value)):
            hit = _dict_lookup(_as_dict_literal(n.value), n.slice)
            if hit is not None:
                return copy.deepcopy(hit)
        if isinstance(n, ast.Subscript) and isinstance(n.value, (ast.Tuple, ast.List)) and isinstance(n.slice, ast.Constant) \
                and isinstance(n.slice.value, int) and not isinstance(n.slice.value, bool) \
                and not any(isinstance(x, (ast.Starred, ast.Call)) for x in ast.walk(n.value)):
            try:
                return copy.deepcopy(n.value.elts[n.slice.value])
            except IndexError:
                return n
        return n


def _with_eqs(e, facts):
    eqs = {}
    for k, v, x, _ in facts:
        if k[0] == "eq" and v and isinstance(x, ast.Compare):
            l, r = x.left, x.comparators[0]
            if isinstance(r, ast.Constant) and not isinstance(l, ast.Constant):
                eqs[norm(l)] = r
            elif isinstance(l, ast.Constant) and not isinstance(r, ast.Constant):
                eqs[norm(r)] = l
    return _Fold(eqs).visit(copy.deepcopy(e))


def _decide(e, facts):
    """three-valued truth of an (already substituted) test under the facts of the path"""
    if isinstance(e, ast.Constant):
        return bool(e.value)
    if isinstance(e, ast.UnaryOp) and isinstance(e.op, ast.Not):
        v = _decide(e.operand, facts)
        return None if v is None else (not v)
    if isinstance(e, ast.BoolOp):
        vals = [_decide(v, facts) for v in e.values]
        if isinstance(e.op, ast.And):
            if any(v is False for v in vals):
                return False
            if all(v is True for v in vals):
                return True
        else:
            if any(v is True for v in vals):
                return True
            if all(v is False for v in vals):
                return False
    elif isinstance(e, ast.Compare) and len(e.ops) == 1:
        l, r, op = e.left, e.comparators[0], e.ops[0]
        if isinstance(op, (ast.Is, ast.IsNot, ast.Eq, ast.NotEq)) and (_is_none(l) or _is_none(r)):
            o = r if _is_none(l) else l
            res = True if _is_none(o) else (False if _is_notnone(o) else None)
            if res is not None:
                return res if isinstance(op, (ast.Is, ast.Eq)) else (not res)
        elif isinstance(l, ast.Constant) and isinstance(r, ast.Constant) and type(op) in _CMP:
            try:
                return bool(_CMP[type(op)](l.value, r.value))
            except TypeError:
                return None
    elif _nonempty_str(e) or isinstance(e, ast.JoinedStr):
        return True if _nonempty_str(e) else None
    key, pol = _atom(e)
    for k, v, _, _ in reversed(facts):
        if k == key:
            return v if pol else (not v)
    return None


def _targets(normal, lab):
    """successors for outcome lab of a branch / loop head; the CFG labels an outcome that falls off the end of an enclosing
    loop body 'back' instead of T/F"""
    t = [m for m, labs in normal if lab in labs]
    return t or [m for m, labs in normal if "back" in labs]


class _St:
    """state of one path: heap (self.x -> expr), facts (branch outcomes), events (calls / stores in order)"""
    __slots__ = ("heap", "facts", "events")

    def __init__(self, heap=None, facts=(), events=()):
        self.heap = heap if heap is not None else {}
        self.facts = facts
        self.events = events

    def evolve(self, heap=None, facts=None, events=None):
        return _St(self.heap if heap is None else heap, self.facts if facts is None else facts,
                   self.events if events is None else events)


class _PX:
    def __init__(self, repo, stop=(), want=None, maxdepth=4, budget=120000):
        self.repo = repo
        self.stop = set(stop)       # callee names that are not followed (the rule speaks about the call itself)
        self.want = want            # optional predicate(FuncInfo): follow only these callees
        self.maxdepth = maxdepth
        self.budget = budget
        self._n = itertools.count()

    # -- callee resolution ------------------------------------------------
    def resolve(self, fi, call):
        d = dotted_name(call.func)
        if not d:
            return None
        if d.startswith("self.") and d.count(".") == 1 and fi.cls:
            return self.repo.funcs.get("%s.%s.%s" % (fi.module.name, fi.cls, d.split(".")[1]))
        if "." not in d:
            f = self.repo.funcs.get("%s.%s" % (fi.module.name, d))
            return f if f is not None and f.cls is None else None
        return None

    def inlinable(self, fi, call, stack):
        callee = self.resolve(fi, call)
        if callee is None or callee.name in self.stop or callee.qualname in stack or len(stack) > self.maxdepth:
            return None
        if self.want is not None and not self.want(callee):
            return None
        if rules.is_generator(callee.node) or any(isinstance(a, ast.Starred) for a in call.args) \
                or any(k.arg is None for k in call.keywords):
            return None
        return callee

    def fresh(self):
        return ast.Name(id="__unk%d__" % next(self._n), ctx=ast.Load())

    def subst(self, e, loc, heap):
        return _Sub(loc, heap).visit(copy.deepcopy(e))

    def bind(self, callee, call, loc, heap):
        ps = [p for p in callee.params if not p.startswith("*")]
        if callee.cls and ps and isinstance(call.func, ast.Attribute):
            ps = ps[1:]
        cl = {}
        for p, a in zip(ps, call.args):
            cl[p] = self.subst(a, loc, heap)
        for k in call.keywords:
            if k.arg in ps:
                cl[k.arg] = self.subst(k.value, loc, heap)
        for p in ps:
            if p not in cl:
                cl[p] = copy.deepcopy(callee.defaults[p]) if p in callee.defaults else self.fresh()
        return cl

    # -- expressions ------------------------------------------------------
    def keywords(self, c, loc, heap):
        """{keyword: value} of a call; `**d` with d a dict built in the function from literal keys (`{...}`, `dict(k=v)`,
        later `d['k'] = v` / `d.update(k=v)`) contributes its entries, any other `**d` is kept under the key '**' (the
        keywords of the call are then not all known)"""
        kw = {}
        for k in c.keywords:
            v = self.subst(k.value, loc, heap)
            if k.arg:
                kw[k.arg] = v
                continue
            d = _as_dict_literal(v)
            if d is not None and all(isinstance(x.value, str) for x in d.keys):
                for x, y in zip(d.keys, d.values):
                    kw[x.value] = y
            else:
                kw["**"] = v
        return kw

    def note(self, e, fi, loc, st):
        evs = []
        for c in _walk_expr(e):
            if isinstance(c, ast.Call):
                f = c.func
                evs.append(dict(kind="call", name=call_name(c), dotted=dotted_name(f),
                                recv=self.subst(f.value, loc, st.heap) if isinstance(f, ast.Attribute) else None,
                                args=[self.subst(a, loc, st.heap) for a in c.args],
                                kw=self.keywords(c, loc, st.heap),
                                fn=fi, line=getattr(c, "lineno", 0), nfacts=len(st.facts), nev=len(st.events)))
        if not evs:
            return st
        evs.reverse()       # inner calls are evaluated before the call that takes them as argument
        return st.evolve(events=st.events + tuple(evs))

    def ev(self, e, fi, loc, st, stack):
        """[(value | None, state, raised)]: value of e on each way through the helpers it calls"""
        st = self.note(e, fi, loc, st)
        out = []
        work = [(copy.deepcopy(e), loc, st)]
        while work:
            e1, loc1, st1 = work.pop()
            calls = [x for x in _walk_expr(e1) if isinstance(x, ast.Call)]
            pick = None
            for i in range(len(calls) - 1, -1, -1):
                callee = self.inlinable(fi, calls[i], stack)
                if callee is not None:
                    pick = (i, callee)
                    break
            if pick is None:
                out.append((self.subst(e1, loc1, st1.heap), st1, False))
                continue
            i, callee = pick
            cloc = self.bind(callee, calls[i], loc1, st1.heap)
            for kind, val, st2 in self.run(callee, cloc, st1, stack + (callee.qualname,)):
                if kind == "raise":
                    out.append((None, st2, True))
                    continue
                ph = "__ret%d__" % next(self._n)
                e2 = copy.deepcopy(e1)
                tgt = [x for x in _walk_expr(e2) if isinstance(x, ast.Call)][i]
                if e2 is tgt:
                    e2 = ast.Name(id=ph, ctx=ast.Load())
                else:
                    for p in ast.walk(e2):
                        for fld, v in ast.iter_fields(p):
                            if v is tgt:
                                setattr(p, fld, ast.Name(id=ph, ctx=ast.Load()))
                            elif isinstance(v, list):
                                for j, x in enumerate(v):
                                    if x is tgt:
                                        v[j] = ast.Name(id=ph, ctx=ast.Load())
                loc2 = dict(loc1)
                loc2[ph] = val
                work.append((e2, loc2, st2))
        return out

    # -- stores -------------------------------------------------------------
    def assign(self, t, val, fi, loc, st, line):
        if isinstance(t, ast.Name):
            loc = dict(loc)
            loc[t.id] = val
            return loc, st
        if isinstance(t, (ast.Tuple, ast.List)):
            if isinstance(val, (ast.Tuple, ast.List)) and len(val.elts) == len(t.elts) \
                    and not any(isinstance(x, ast.Starred) for x in list(val.elts) + list(t.elts)):
                parts = list(val.elts)
            else:
                parts = [ast.Subscript(value=copy.deepcopy(val), slice=ast.Constant(value=i), ctx=ast.Load())
                         for i in range(len(t.elts))]
            for tt, p in zip(t.elts, parts):
                loc, st = self.assign(tt.value if isinstance(tt, ast.Starred) else tt, p, fi, loc, st, line)
            return loc, st
        if isinstance(t, ast.Subscript) and isinstance(t.value, ast.Name) and _as_dict_literal(loc.get(t.value.id)) is not None:
            # d['k'] = v on a dict the function built from literal keys
            key = self.subst(t.slice, loc, st.heap)
            loc = dict(loc)
            loc[t.value.id] = _dict_with(_as_dict_literal(loc[t.value.id]), key, val) if isinstance(key, ast.Constant) else self.fresh()
            return loc, st
        k = _hkey(t)
        if k is not None:
            heap = {h: v for h, v in st.heap.items() if not (h.startswith(k + ".") or h.startswith(k + "["))}
            heap[k] = val
            ev_ = dict(kind="store", name=k, value=val, fn=fi, line=line, nfacts=len(st.facts), nev=len(st.events))
            return loc, st.evolve(heap=heap, events=st.events + (ev_,))
        return loc, st

    # -- statements -----------------------------------------------------------
    def mutated(self, e, loc, st):
        """locals after the expression statement `d.update(...)` / `d.setdefault(...)` / `d.pop(...)` ... on a dict the
        function built from literal keys: update with literal keys is followed, anything else makes the dict unknown"""
        if not (isinstance(e, ast.Call) and isinstance(e.func, ast.Attribute) and isinstance(e.func.value, ast.Name)):
            return loc
        nm, meth = e.func.value.id, e.func.attr
        d = _as_dict_literal(loc.get(nm))
        if d is None or meth in _READ_ONLY_METHODS:
            return loc
        loc = dict(loc)
        new = None
        if meth == "update" and len(e.args) <= 1 and all(k.arg for k in e.keywords):
            src = _as_dict_literal(self.subst(e.args[0], loc, st.heap)) if e.args else ast.Dict(keys=[], values=[])
            if src is not None:
                new = d
                for k, v in zip(src.keys, src.values):
                    new = _dict_with(new, k, v)
                for k in e.keywords:
                    new = _dict_with(new, ast.Constant(value=k.arg), self.subst(k.value, loc, st.heap))
        loc[nm] = new if new is not None else self.fresh()
        return loc

    def stmt(self, fi, n, loc, st, stack):
        """[(loc, state, raised)] after the simple statement of CFG node n"""
        a = n.ast
        line = getattr(a, "lineno", 0)
        if isinstance(a, (ast.Assign, ast.AnnAssign)):
            if a.value is None:
                return [(loc, st, False)]
            out = []
            for val, st2, raised in self.ev(a.value, fi, loc, st, stack):
                if raised:
                    out.append((loc, st2, True))
                    continue
                loc2 = loc
                for t in (a.targets if isinstance(a, ast.Assign) else [a.target]):
                    loc2, st2 = self.assign(t, val, fi, loc2, st2, line)
                out.append((loc2, st2, False))
            return out
        if isinstance(a, ast.AugAssign):
            out = []
            for val, st2, raised in self.ev(a.value, fi, loc, st, stack):
                if raised:
                    out.append((loc, st2, True))
                    continue
                cur = copy.deepcopy(a.target)
                for x in ast.walk(cur):
                    if hasattr(x, "ctx"):
                        x.ctx = ast.Load()
                cur = self.subst(cur, loc, st2.heap)
                new = ast.BinOp(left=cur, op=copy.deepcopy(a.op), right=val)
                loc2, st3 = self.assign(a.target, new, fi, loc, st2, line)
                out.append((loc2, st3, False))
            return out
        if isinstance(a, ast.Expr):
            loc2 = self.mutated(a.value, loc, st)
            return [(loc if raised else loc2, st2, raised) for _, st2, raised in self.ev(a.value, fi, loc, st, stack)]
        if isinstance(a, ast.Delete):
            heap = dict(st.heap)
            loc2 = dict(loc)
            for t in a.targets:
                k = _hkey(t)
                if k is not None:
                    heap[k] = self.fresh()
                elif isinstance(t, ast.Name):
                    loc2[t.id] = self.fresh()
            return [(loc2, st.evolve(heap=heap), False)]
        return [(loc, st, False)]

    # -- paths ----------------------------------------------------------------
    def branch(self, val, st, where):
        """[(label, state)] for the outcomes of a test that are consistent with the path so far"""
        val = _with_eqs(val, st.facts)
        d = _decide(val, st.facts)
        out = []
        for lab in ("T", "F"):
            want = lab == "T"
            if d is None:
                out.append((lab, st.evolve(facts=st.facts + tuple(_implied(val, want, where)))))
            elif d == want:
                out.append((lab, st))
        return out

    def run(self, fi, loc, st=None, stack=None):
        """[(kind, value, state)] with kind 'return' | 'raise' for every path through fi"""
        st = st or _St()
        stack = stack or (fi.qualname,)
        consts = _free_consts(fi)
        if consts:
            loc = dict(consts, **loc)       # module-level constants read as free variables stand for their literal
        cfg = cfg_of(fi)
        out = []
        work = [(cfg.entry, loc, st, ())]
        while work:
            n, loc, st, vis = work.pop()
            self.budget -= 1
            if self.budget < 0:
                raise _TooBig()
            if n is cfg.exit:
                out.append(("return", ast.Constant(value=None), st))
                continue
            if n is cfg.raise_exit:
                out.append(("raise", None, st))
                continue
            succ = cfg.succ(n)
            normal = [(m, labs) for m, labs in succ if labs - {"exc"}]
            handlers = [m for m, labs in succ if "exc" in labs]
            where = (fi, n.lineno)

            def raised(st_):
                if handlers:
                    for h in handlers:
                        work.append((h, loc, st_, vis))
                else:
                    out.append(("raise", None, st_))

            k = n.kind
            if k == "return":
                if n.ast.value is None:
                    out.append(("return", ast.Constant(value=None), st))
                else:
                    for val, st2, r in self.ev(n.ast.value, fi, loc, st, stack):
                        if r:
                            raised(st2)
                        else:
                            out.append(("return", val, st2))
            elif k == "raise":
                st2 = self.note(n.ast, fi, loc, st) if n.ast.exc is not None else st
                raised(st2)
            elif k == "branch" or (k == "loop" and isinstance(n.ast, ast.While)):
                again = k == "loop" and vis.count(n.id) >= 1
                vis2 = vis + (n.id,) if k == "loop" else vis
                for val, st2, r in self.ev(n.ast.test, fi, loc, st, stack):
                    if r:
                        raised(st2)
                        continue
                    for lab, st3 in ([("F", st2)] if again else self.branch(val, st2, where)):
                        for m in _targets(normal, lab):
                            work.append((m, loc, st3, vis2))
            elif k == "loop":
                a = n.ast
                again = vis.count(n.id) >= 1
                for itv, st2, r in self.ev(a.iter, fi, loc, st, stack):
                    if r:
                        raised(st2)
                        continue
                    for m in _targets(normal, "F"):
                        work.append((m, loc, st2, vis + (n.id,)))
                    if not again:
                        for m in _targets(normal, "T"):
                            work.append((m, self.bind_for(a, itv, loc, n.id), st2, vis + (n.id,)))
            elif k == "with":
                loc2, st2 = loc, st
                dead = False
                for it in n.ast.items:
                    res = self.ev(it.context_expr, fi, loc2, st2, stack)
                    val, st2, r = res[0]        # context managers are not forked on
                    if r:
                        raised(st2)
                        dead = True
                        break
                    if it.optional_vars is not None:
                        loc2, st2 = self.assign(it.optional_vars, val, fi, loc2, st2, n.lineno)
                if not dead:
                    for m, labs in normal:
                        work.append((m, loc2, st2, vis))
            elif k == "stmt":
                for loc2, st2, r in self.stmt(fi, n, loc, st, stack):
                    if r:
                        raised(st2)
                    else:
                        for m, labs in normal:
                            work.append((m, loc2, st2, vis))
            else:       # entry, try, handler, def
                loc2 = loc
                if k == "handler" and n.ast.name:
                    loc2 = dict(loc)
                    loc2[n.ast.name] = self.fresh()
                for m, labs in normal:
                    work.append((m, loc2, st, vis))
        return out

    def bind_for(self, a, itv, loc, nid):
        idx = ast.Name(id="__i%d__" % nid, ctx=ast.Load())

        def elem(x):
            return ast.Subscript(value=copy.deepcopy(x), slice=copy.deepcopy(idx), ctx=ast.Load())

        t = a.target
        loc = dict(loc)
        fn = call_name(itv) if isinstance(itv, ast.Call) and isinstance(itv.func, ast.Name) else None
        if fn == "zip" and isinstance(t, (ast.Tuple, ast.List)) and len(t.elts) == len(itv.args) \
                and all(isinstance(x, ast.Name) for x in t.elts):
            for x, src in zip(t.elts, itv.args):
                loc[x.id] = elem(src)
        elif fn == "enumerate" and isinstance(t, (ast.Tuple, ast.List)) and len(t.elts) == 2 and len(itv.args) == 1 \
                and all(isinstance(x, ast.Name) for x in t.elts):
            loc[t.elts[0].id] = idx
            loc[t.elts[1].id] = elem(itv.args[0])
        elif fn == "range" and isinstance(t, ast.Name) and len(itv.args) == 1:
            loc[t.id] = idx
        elif isinstance(itv, ast.Call) and isinstance(itv.func, ast.Attribute) and itv.func.attr == "items" and not itv.args \
                and not itv.keywords and isinstance(t, (ast.Tuple, ast.List)) and len(t.elts) == 2 \
                and all(isinstance(x, ast.Name) for x in t.elts):
            # for k, v in d.items(): k is what `for k in d` gives, v is d[k]
            loc[t.elts[0].id] = elem(itv.func.value)
            loc[t.elts[1].id] = ast.Subscript(value=copy.deepcopy(itv.func.value), slice=elem(itv.func.value), ctx=ast.Load())
        elif isinstance(t, ast.Name):
            loc[t.id] = elem(itv)
        else:
            for x in ast.walk(t):
                if isinstance(x, ast.Name):
                    loc[x.id] = self.fresh()
        return loc


def _fact(st, pred, upto=None):
    """value of the last fact (before position `upto`) whose key satisfies pred, or None"""
    for k, v, _, _ in reversed(st.facts[:upto] if upto is not None else st.facts):
        if pred(k):
            return v
    return None


def _is_none_of(text):
    """predicate for the atom `<text> is None`"""
    return lambda k: k[0] == "is" and set(k[1:]) == {"None", text}


def _calls(st, name):
    return [e for e in st.events if e["kind"] == "call" and e["name"] == name]


def _sum_terms(e):
    """sorted texts of the terms of a sum (a + b + c), so that a+b and b+a compare equal"""
    if isinstance(e, ast.BinOp) and isinstance(e.op, ast.Add):
        return sorted(_sum_terms(e.left) + _sum_terms(e.right))
    return [norm(e)]


_EXIST_TESTS = ("exists", "isfile", "lexists", "is_file")
_PATH_SAME_FILE = ("abspath", "realpath", "normpath", "normcase", "fspath", "str", "Path", "PurePath", "resolve", "absolute")
_PATH_EXPAND = ("expanduser", "expandvars")


def _path_sig(e):
    """(root term, expansions applied) of a path expression: wrappers that designate the same file are dropped, `~` and
    `$VAR` expansion (which designate another file when the name contains them) are kept as a set"""
    ex = set()
    while isinstance(e, ast.Call) and not e.keywords:
        nm = call_name(e)
        if len(e.args) == 1 and nm in _PATH_SAME_FILE + _PATH_EXPAND:
            nxt = e.args[0]
        elif not e.args and isinstance(e.func, ast.Attribute) and nm in _PATH_SAME_FILE + _PATH_EXPAND:
            nxt = e.func.value      # pathlib: Path(p).expanduser()
        else:
            break
        if nm in _PATH_EXPAND:
            ex.add(nm)
        e = nxt
    return norm(e), frozenset(ex)


def _same_path(a, b):
    """True: the two expressions designate the same file for every file name; False: same root name but different
    `~` / `$VAR` expansion; None: not recognised"""
    if norm(a) == norm(b):
        return True
    (ra, xa), (rb, xb) = _path_sig(a), _path_sig(b)
    if ra != rb:
        return None
    return xa == xb


def _path_words(e):
    r, ex = _path_sig(e)
    return "`%s` %s" % (r, ("after " + "+".join(sorted(ex))) if ex else "as given (no ~ / $VAR expansion)")


def _mode_alternatives(v, fi, depth=0):
    """the expressions a mode expression can evaluate to: both arms of a conditional expression, every entry of a dispatch
    table (a dict / tuple literal, or a module-level constant bound to one) that is indexed or .get()-ed"""
    if depth > 3:
        return [v]
    if isinstance(v, ast.IfExp):
        return _mode_alternatives(v.body, fi, depth + 1) + _mode_alternatives(v.orelse, fi, depth + 1)
    if isinstance(v, ast.Name) and v.id in _free_consts(fi):
        return _mode_alternatives(_free_consts(fi)[v.id], fi, depth + 1)
    tab, extra = None, []
    if isinstance(v, ast.Subscript):
        tab = v.value
    elif isinstance(v, ast.Call) and isinstance(v.func, ast.Attribute) and v.func.attr == "get" and v.args:
        tab, extra = v.func.value, list(v.args[1:2])
    if tab is not None:
        if isinstance(tab, ast.Name) and tab.id in _free_consts(fi):
            tab = _free_consts(fi)[tab.id]
        d = _as_dict_literal(tab)
        entries = list(d.values) if d is not None else (list(tab.elts) if isinstance(tab, (ast.Tuple, ast.List)) else None)
        if entries is not None:
            return [y for e in entries + extra for y in _mode_alternatives(e, fi, depth + 1)]
    return [v]


# ---------------------------------------------------------------------------
# Constant propagation over the C++ CFG (used by R03.1b): which nodes of a function can be reached when some of its
# parameters are known constants (a mode string that originates in the package, a NULL dtype) and everything else is unknown.
#
# Abstract values: a python int (integers, characters, booleans, NULL = 0), a python str (std::string / const char *) or
# unknown (absent from the environment) -- the flat constant lattice, joined at control-flow merges, so every input that
# agrees with the known parameters is covered.  Locals are keyed ('l', name), members of `this` ('m', name).  Calls to
# functions whose body is available are followed (parameters bound to the abstract arguments, members shared when the callee
# is a method called on `this`); what cannot be evaluated is unknown and forgets every object it may write: the left side of
# an assignment, an object a non-const method is called on, an object handed over by non-const reference or by address.
# Locals / members whose address is taken or that are bound to a non-const reference are never tracked.
# ---------------------------------------------------------------------------
class _CDead(Exception):
    """the expression being evaluated never completes normally (a callee that always throws)"""


_C_WRAPPERS = ("ImplicitCastExpr", "ParenExpr", "CStyleCastExpr", "ConstantExpr", "ExprWithCleanups", "MaterializeTemporaryExpr",
               "CXXBindTemporaryExpr", "CXXFunctionalCastExpr", "CXXStaticCastExpr", "CXXReinterpretCastExpr", "CXXConstCastExpr")
_C_CONST_METHODS = ("c_str", "data", "size", "length", "empty", "compare", "find", "rfind", "substr", "capacity", "max_size")
_C_INT_OPS = {"+": lambda a, b: a + b, "-": lambda a, b: a - b, "*": lambda a, b: a * b, "&": lambda a, b: a & b,
              "|": lambda a, b: a | b, "^": lambda a, b: a ^ b, "<<": lambda a, b: a << b if 0 <= b < 64 else None,
              ">>": lambda a, b: a >> b if 0 <= b < 64 else None,
              "==": lambda a, b: int(a == b), "!=": lambda a, b: int(a != b), "<": lambda a, b: int(a < b),
              "<=": lambda a, b: int(a <= b), ">": lambda a, b: int(a > b), ">=": lambda a, b: int(a >= b)}


def _c_kids(n):
    return [c for c in (n.get("inner", []) or []) if isinstance(c, dict) and c.get("kind")]


class _CConst:
    def __init__(self, lookup, decls, budget=60000):
        self.lookup = lookup
        self.budget = budget
        self.cfgs = {}
        self.scan = {}
        self.statics = {}
        clash = set()
        for d in decls:
            for x in cfront.walk(d):
                if x.get("kind") == "VarDecl" and x.get("name") and str(x.get("type", {}).get("qualType", "")).startswith("const ") \
                        and "*" not in x["type"]["qualType"] and "&" not in x["type"]["qualType"]:
                    init = [cfront.strip(c) for c in _c_kids(x)]
                    if init and init[-1].get("kind") == "IntegerLiteral":
                        v = int(init[-1]["value"])
                        if x["name"] in self.statics and self.statics[x["name"]] != v:
                            clash.add(x["name"])
                        self.statics[x["name"]] = v
                    else:
                        clash.add(x["name"])
        for nm in clash:
            self.statics.pop(nm, None)

    # -- per function facts ---------------------------------------------------------------------------------------------
    def _scan(self, decl):
        """(names declared in the function, locals never tracked, members never tracked)"""
        key = id(decl)
        if key not in self.scan:
            declared, ul, um = set(), set(), set()

            def lval(n, tl, tm):
                s = n
                while isinstance(s, dict) and s.get("kind") in _C_WRAPPERS and _c_kids(s):
                    s = _c_kids(s)[-1 if s["kind"] == "CXXFunctionalCastExpr" else 0]
                if s.get("kind") == "DeclRefExpr":
                    tl.add(s.get("referencedDecl", {}).get("name"))
                elif s.get("kind") == "MemberExpr" and _c_kids(s) and cfront.strip(_c_kids(s)[0]).get("kind") == "CXXThisExpr":
                    tm.add(s.get("name"))

            for x in cfront.walk(decl):
                k = x.get("kind")
                if k in ("VarDecl", "ParmVarDecl") and x.get("name"):
                    declared.add(x["name"])
                    qt = str(x.get("type", {}).get("qualType", ""))
                    if k == "VarDecl" and "&" in qt and not qt.startswith("const "):
                        for c in _c_kids(x):
                            lval(c, ul, um)
                    if k == "VarDecl" and x.get("storageClass") == "static":
                        ul.add(x["name"])
                elif k == "UnaryOperator" and x.get("opcode") == "&" and _c_kids(x):
                    lval(_c_kids(x)[0], ul, um)
                elif k == "LambdaExpr":
                    for y in cfront.walk(x):
                        if y.get("kind") == "DeclRefExpr":
                            ul.add(y.get("referencedDecl", {}).get("name"))
                        elif y.get("kind") == "MemberExpr":
                            um.add(y.get("name"))
            self.scan[key] = (declared, ul, um)
        return self.scan[key]

    def _cfg(self, decl):
        key = id(decl)
        if key not in self.cfgs:
            self.cfgs[key] = cfront.CCFG(decl)
        return self.cfgs[key]

    # -- environment ----------------------------------------------------------------------------------------------------------
    @staticmethod
    def _join(a, b):
        if a is None:
            return dict(b)
        return {k: v for k, v in a.items() if k in b and type(b[k]) is type(v) and b[k] == v}

    def _lkey(self, n, ctx):
        """environment key of an lvalue expression (a local / parameter or a member of this), else None"""
        s = n
        while isinstance(s, dict) and s.get("kind") in _C_WRAPPERS and _c_kids(s):
            s = _c_kids(s)[-1 if s["kind"] == "CXXFunctionalCastExpr" else 0]
        if s.get("kind") == "DeclRefExpr" and s.get("referencedDecl", {}).get("kind") in ("VarDecl", "ParmVarDecl"):
            nm = s["referencedDecl"].get("name")
            return ("l", nm) if nm in ctx["declared"] else None
        if s.get("kind") == "MemberExpr" and _c_kids(s) and cfront.strip(_c_kids(s)[0]).get("kind") == "CXXThisExpr":
            return ("m", s.get("name"))
        return None

    def _set(self, key, v, env, ctx):
        if key is None:
            return
        if v is None or (key[0] == "l" and key[1] in ctx["ul"]) or (key[0] == "m" and key[1] in self.um):
            env.pop(key, None)
        else:
            env[key] = v

    def _havoc(self, n, env, ctx):
        """forget everything the (not evaluated) expression / statement n may write"""
        for x in cfront.walk(n):
            k = x.get("kind")
            kids = _c_kids(x)
            if k in ("BinaryOperator", "CompoundAssignOperator") and kids and (k == "CompoundAssignOperator" or x.get("opcode") == "="):
                self._set(self._lkey(kids[0], ctx), None, env, ctx)
            elif k == "UnaryOperator" and x.get("opcode") in ("++", "--", "&") and kids:
                self._set(self._lkey(kids[0], ctx), None, env, ctx)
            elif k == "CXXOperatorCallExpr" and len(kids) >= 2:
                nm = cfront.callee_name(x) or ""
                if not (nm.startswith("operator") and nm[len("operator"):] in ("==", "!=", "[]", "<", ">", "<=", ">=", "+")):
                    self._set(self._lkey(kids[1], ctx), None, env, ctx)
                for a in kids[2:]:
                    if self._by_ref(a):
                        self._set(self._lkey(a, ctx), None, env, ctx)
            elif k in ("CallExpr", "CXXMemberCallExpr") and kids:
                c = cfront.strip(kids[0])
                if k == "CXXMemberCallExpr" and c.get("kind") == "MemberExpr" and _c_kids(c):
                    if cfront.strip(_c_kids(c)[0]).get("kind") == "CXXThisExpr":
                        for key in [q for q in env if q[0] == "m"]:
                            env.pop(key)
                    elif c.get("name") not in _C_CONST_METHODS:
                        self._set(self._lkey(_c_kids(c)[0], ctx), None, env, ctx)
                elif self.lookup(cfront.callee_name(x)) is not None and ctx["method"]:
                    for key in [q for q in env if q[0] == "m"]:
                        env.pop(key)
                for a in kids[1:]:
                    if self._by_ref(a):
                        self._set(self._lkey(a, ctx), None, env, ctx)
            elif k == "VarDecl" and x.get("name"):
                env.pop(("l", x["name"]), None)

    @staticmethod
    def _by_ref(a):
        """is the argument expression an object handed over as such (no lvalue-to-rvalue conversion: by reference)?"""
        s = a
        while isinstance(s, dict) and s.get("kind") in _C_WRAPPERS and _c_kids(s):
            if s.get("castKind") in ("LValueToRValue",):
                return False
            s = _c_kids(s)[-1 if s["kind"] == "CXXFunctionalCastExpr" else 0]
        return s.get("kind") in ("DeclRefExpr", "MemberExpr")

    # -- expressions --------------------------------------------------------------------------------------------------------
    def ev(self, n, env, ctx):
        k = n.get("kind")
        kids = _c_kids(n)
        if k in _C_WRAPPERS and kids:
            v = self.ev(kids[-1 if k == "CXXFunctionalCastExpr" else 0], env, ctx)
            ck = n.get("castKind")
            if ck in ("IntegralToBoolean", "PointerToBoolean"):
                return int(v != 0) if isinstance(v, int) else None
            if ck in ("IntegralCast", "LValueToRValue", "NoOp", "ArrayToPointerDecay", "NullToPointer", "FunctionToPointerDecay",
                      "ConstructorConversion", "UserDefinedConversion", None) or k == "ParenExpr":
                qt = str(n.get("type", {}).get("qualType", ""))
                if isinstance(v, int) and ck == "IntegralCast" and qt in ("char", "unsigned char", "signed char", "short", "unsigned short", "bool"):
                    return None         # a narrowing conversion: not modelled
                return v
            return None
        if k == "IntegerLiteral":
            return int(n.get("value"))
        if k == "CharacterLiteral":
            return n.get("value") if isinstance(n.get("value"), int) else None
        if k == "CXXBoolLiteralExpr":
            return int(bool(n.get("value")))
        if k in ("GNUNullExpr", "CXXNullPtrLiteralExpr"):
            return 0
        if k == "StringLiteral":
            return _cstr(n.get("value"))
        if k == "DeclRefExpr":
            rd = n.get("referencedDecl", {})
            nm = rd.get("name")
            if rd.get("kind") in ("VarDecl", "ParmVarDecl"):
                if nm in ctx["declared"]:
                    return env.get(("l", nm))
                return self.statics.get(nm)
            return None
        if k == "MemberExpr":
            key = self._lkey(n, ctx)
            if key is not None:
                return env[key] if key in env else None
            for c in kids:
                self.ev(c, env, ctx)
            return None
        if k == "UnaryOperator" and kids:
            op = n.get("opcode")
            if op in ("++", "--"):
                key = self._lkey(kids[0], ctx)
                old = self.ev(kids[0], env, ctx)
                new = (old + (1 if op == "++" else -1)) if isinstance(old, int) else None
                if key is None:
                    self._havoc(n, env, ctx)
                self._set(key, new, env, ctx)
                return old if n.get("isPostfix") else new
            if op == "&":
                self._set(self._lkey(kids[0], ctx), None, env, ctx)
                return None
            v = self.ev(kids[0], env, ctx)
            if op == "!":
                return int(not v) if isinstance(v, int) else None
            if op in ("-", "+", "~") and isinstance(v, int):
                return -v if op == "-" else (v if op == "+" else ~v)
            return None
        if k == "BinaryOperator" and len(kids) == 2:
            op = n.get("opcode")
            if op == "=":
                v = self.ev(kids[1], env, ctx)
                key = self._lkey(kids[0], ctx)
                if key is None:
                    self.ev(kids[0], env, ctx)
                self._set(key, v, env, ctx)
                return v
            if op == ",":
                self.ev(kids[0], env, ctx)
                return self.ev(kids[1], env, ctx)
            if op in ("&&", "||"):
                a = self.ev(kids[0], env, ctx)
                short = 0 if op == "&&" else 1
                if isinstance(a, int) and int(bool(a)) == short:
                    return short
                if isinstance(a, int):
                    b = self.ev(kids[1], env, ctx)
                    return int(bool(b)) if isinstance(b, int) else None
                env2 = dict(env)
                b = self.ev(kids[1], env2, ctx)
                joined = self._join(env, env2)
                env.clear()
                env.update(joined)
                return short if isinstance(b, int) and int(bool(b)) == short else None
            a = self.ev(kids[0], env, ctx)
            b = self.ev(kids[1], env, ctx)
            return self._binop(op, a, b)
        if k == "CompoundAssignOperator" and len(kids) == 2:
            key = self._lkey(kids[0], ctx)
            cur = self.ev(kids[0], env, ctx)
            r = self.ev(kids[1], env, ctx)
            v = self._binop((n.get("opcode") or "=")[:-1], cur, r)
            if key is None:
                self._havoc(kids[0], env, ctx)
            self._set(key, v, env, ctx)
            return v
        if k == "ConditionalOperator" and len(kids) == 3:
            c = self.ev(kids[0], env, ctx)
            if isinstance(c, int):
                return self.ev(kids[1] if c else kids[2], env, ctx)
            e1, e2 = dict(env), dict(env)
            v1, v2 = self.ev(kids[1], e1, ctx), self.ev(kids[2], e2, ctx)
            joined = self._join(e1, e2)
            env.clear()
            env.update(joined)
            return v1 if v1 is not None and type(v1) is type(v2) and v1 == v2 else None
        if k == "CXXOperatorCallExpr" and len(kids) >= 2:
            nm = cfront.callee_name(n) or ""
            args = kids[1:]
            if nm in ("operator==", "operator!=") and len(args) == 2:
                a, b = self.ev(args[0], env, ctx), self.ev(args[1], env, ctx)
                if isinstance(a, str) and isinstance(b, str):
                    return int((a == b) == (nm == "operator=="))
                return None
            if nm == "operator[]" and len(args) == 2:
                a, b = self.ev(args[0], env, ctx), self.ev(args[1], env, ctx)
                if isinstance(a, str) and isinstance(b, int) and 0 <= b <= len(a):
                    return ord(a[b]) if b < len(a) else 0
                return None
            if nm in ("operator=", "operator+=") and len(args) == 2:
                key = self._lkey(args[0], ctx)
                cur = self.ev(args[0], env, ctx)
                v = self.ev(args[1], env, ctx)
                if nm == "operator+=":
                    v = (cur + (v if isinstance(v, str) else chr(v))) if isinstance(cur, str) and (isinstance(v, str) or (isinstance(v, int) and 0 < v < 128)) else None
                if key is None:
                    self._havoc(args[0], env, ctx)
                self._set(key, v if isinstance(v, str) else None, env, ctx)
                return v if isinstance(v, str) else None
            self._havoc(n, env, ctx)
            return None
        if k == "CXXConstructExpr":
            qt = str(n.get("type", {}).get("qualType", ""))
            vals = [self.ev(c, env, ctx) for c in kids]
            for c in kids:
                if self._by_ref(c) and not (len(kids) == 1):
                    self._set(self._lkey(c, ctx), None, env, ctx)
            if "string" in qt and "vector" not in qt:
                if not kids:
                    return ""
                if len(kids) == 1 and isinstance(vals[0], str):
                    return vals[0]
            return None
        if k == "CXXMemberCallExpr" and kids:
            c = cfront.strip(kids[0])
            if c.get("kind") == "MemberExpr" and _c_kids(c):
                obj = _c_kids(c)[0]
                meth = c.get("name")
                if cfront.strip(obj).get("kind") == "CXXThisExpr":
                    return self._call(meth, n, kids[1:], env, ctx, on_this=True)
                ov = self.ev(obj, env, ctx)
                for a in kids[1:]:
                    self.ev(a, env, ctx)
                    if self._by_ref(a):
                        self._set(self._lkey(a, ctx), None, env, ctx)
                if meth not in _C_CONST_METHODS:
                    self._set(self._lkey(obj, ctx), None, env, ctx)
                    return None
                if isinstance(ov, str):
                    if meth in ("size", "length"):
                        return len(ov)
                    if meth == "empty":
                        return int(not ov)
                    if meth in ("c_str", "data"):
                        return ov
                return None
            self._havoc(n, env, ctx)
            return None
        if k == "CallExpr" and kids:
            return self._call(cfront.callee_name(n), n, kids[1:], env, ctx, on_this=False)
        if k == "DeclStmt":
            for d in kids:
                if d.get("kind") == "VarDecl" and d.get("name"):
                    init = _c_kids(d)
                    v = self.ev(init[-1], env, ctx) if init else None
                    qt = str(d.get("type", {}).get("qualType", ""))
                    if "&" in qt:
                        v = None        # an alias: its value follows the object it is bound to
                    elif "*" in qt and not (isinstance(v, str) or v == 0):
                        v = None        # pointers: only NULL and string literals are values
                    self._set(("l", d["name"]), v, env, ctx)
                else:
                    self._havoc(d, env, ctx)
            return None
        if k in ("BreakStmt", "ContinueStmt", "GotoStmt", "NullStmt"):
            return None
        self._havoc(n, env, ctx)
        return None

    @staticmethod
    def _binop(op, a, b):
        if isinstance(a, int) and isinstance(b, int) and op in _C_INT_OPS:
            return _C_INT_OPS[op](a, b)
        if isinstance(a, int) and isinstance(b, int) and op in ("/", "%") and b != 0 and a >= 0 and b > 0:
            return a // b if op == "/" else a % b
        return None

    def _call(self, name, n, args, env, ctx, on_this):
        d = self.lookup(name) if name else None
        if d is not None and not cfront.has_body(d):
            d = None
        vals = [self.ev(a, env, ctx) for a in args]
        ptypes = [str(c.get("type", {}).get("qualType", "")) for c in (d.get("inner", []) if d is not None else []) if c.get("kind") == "ParmVarDecl"]
        for i, a in enumerate(args):
            if self._by_ref(a):
                pt = ptypes[i] if i < len(ptypes) else "&"
                if "&" in pt and not pt.startswith("const "):
                    self._set(self._lkey(a, ctx), None, env, ctx)
                elif "&" not in pt and "*" in pt:
                    self._set(self._lkey(a, ctx), None, env, ctx)      # an array that decays to a pointer
        if d is None:
            return None
        is_method = d.get("kind") in ("CXXMethodDecl", "CXXConstructorDecl", "CXXDestructorDecl")
        shares = is_method and (on_this or ctx["method"])       # a method called without an object from a method: same `this`
        if id(d) in ctx["stack"] or len(ctx["stack"]) > 4:
            if shares:
                for key in [q for q in env if q[0] == "m"]:
                    env.pop(key)
            return None
        mem = {q: v for q, v in env.items() if q[0] == "m"} if shares else {}
        reach, ret, mem_out = self.run(d, vals, mem, ctx["stack"] + (id(d),))
        if mem_out is None:
            raise _CDead()
        if shares:
            for key in [q for q in env if q[0] == "m"]:
                env.pop(key)
            env.update(mem_out)
        return ret

    # -- functions -----------------------------------------------------------------------------------------------------------
    def run(self, decl, argvals, mem=None, stack=None, named=None):
        """(ids of the CFG nodes that can be reached, value returned (None: unknown), members at the normal exit (None: the
        function never returns normally)) for a call with the given abstract arguments (positional, or by parameter name)"""
        ccfg = self._cfg(decl)
        declared, ul, um = self._scan(decl)
        if not hasattr(self, "um"):
            self.um = set()
        self.um |= um
        ctx = dict(declared=declared, ul=ul, stack=stack or (id(decl),),
                   method=decl.get("kind") in ("CXXMethodDecl", "CXXConstructorDecl", "CXXDestructorDecl"))
        env0 = {q: v for q, v in (mem or {}).items() if q[1] not in self.um}
        params = cfront.params_of(decl)
        for i, p in enumerate(params):
            v = (named or {}).get(p, argvals[i] if i < len(argvals) else None)
            if v is not None and p and p not in ul:
                env0[("l", p)] = v
        IN = {ccfg.entry.id: env0}
        rets = []
        work = [ccfg.entry.id]
        while work:
            i = work.pop()
            self.budget -= 1
            if self.budget < 0:
                raise _TooBig()
            n = ccfg.node(i)
            env = dict(IN[i])
            val = None
            dead = False
            try:
                if n.kind == "stmt" and n.label == "catch":
                    env = {}
                elif n.kind in ("stmt", "switch") and n.c is not None:
                    self.ev(n.c, env, ctx)
                elif n.kind in ("branch", "loop"):
                    val = self.ev(n.c, env, ctx) if n.c is not None else 1
                elif n.kind == "return":
                    kids = _c_kids(n.c) if n.c is not None else []
                    rets.append(self.ev(kids[0], env, ctx) if kids else None)
                elif n.kind == "raise":
                    dead = True
            except _CDead:
                dead = True
            if dead:
                continue
            for j in ccfg.g.successors(i):
                labs = ccfg.g[i][j]["labels"]
                if n.kind in ("branch", "loop") and isinstance(val, int) and ({"T", "F"} & labs) and ("T" if val else "F") not in labs:
                    continue
                new = self._join(IN.get(j), env)
                if j not in IN or new != IN[j]:
                    IN[j] = new
                    work.append(j)
        ret = None
        if rets and all(r is not None and type(r) is type(rets[0]) and r == rets[0] for r in rets):
            ret = rets[0]
        out = IN.get(ccfg.exit.id)
        return set(IN), ret, (None if out is None else {q: v for q, v in out.items() if q[0] == "m"})


class _CArgValues(_CConst):
    """the constant propagation of _CConst that also records, for every call of a watched callee, the abstract values of its
    arguments on each visit of the call (the last visit is the one with the joined environment of every way of reaching it)"""

    def __init__(self, lookup, decls, watch, budget=60000):
        _CConst.__init__(self, lookup, decls, budget)
        self.watch = set(watch)
        self.seen = {}

    def ev(self, n, env, ctx):
        if n.get("kind") in ("CallExpr", "CXXMemberCallExpr") and cfront.callee_name(n) in self.watch:
            vals = []
            for a in cfront.call_args(n):
                try:
                    vals.append(_CConst.ev(self, a, dict(env), ctx))
                except _CDead:
                    vals.append(None)
            self.seen.setdefault(id(n), []).append(vals)
        return _CConst.ev(self, n, env, ctx)


def _c_arg_constant(ceff, decl, call, argidx):
    """the integer / string constant that argument `argidx` of `call` (a call node of function `decl`) has on every way of
    reaching the call -- a literal, a macro, a local or a file-scope `const` / `constexpr` / `static const` with a constant
    initialiser, a conditional with equal arms ... -- else None"""
    args = cfront.call_args(call)
    if argidx >= len(args):
        return None
    declared = {x.get("name") for x in cfront.walk(decl) if x.get("kind") in ("VarDecl", "ParmVarDecl") and x.get("name")}
    locals_defs = _c_local_def_nodes(decl)
    todo, outer, seen = [args[argidx]], [], set()
    while todo:
        for x in cfront.walk(todo.pop()):
            if x.get("kind") == "DeclRefExpr" and x.get("referencedDecl", {}).get("kind") == "VarDecl":
                nm = x["referencedDecl"].get("name")
                if not nm or nm in seen:
                    continue
                seen.add(nm)
                if nm in declared:
                    if nm in locals_defs:
                        todo.append(locals_defs[nm])
                else:
                    outer.append(nm)
    extra = []
    for nm in outer:
        extra.extend(ceff.load_decls(nm) or [])
    try:
        cc = _CArgValues(ceff.lookup, list(getattr(ceff, "decls", None) or []) + extra, {cfront.callee_name(call)})
        # file-scope constants whose initialiser is a constant expression rather than a literal
        cands = {}
        for d in extra:
            for x in cfront.walk(d):
                if x.get("kind") == "VarDecl" and x.get("name") in outer:
                    cands.setdefault(x["name"], []).append(x)
        ctx0 = dict(declared=set(), ul=set(), stack=(), method=False)
        for nm, ds in cands.items():
            qt = str(ds[0].get("type", {}).get("qualType", ""))
            if nm in cc.statics or len(ds) != 1 or not qt.startswith("const ") or "*" in qt or "&" in qt:
                continue
            init = _c_kids(ds[0])
            v = cc.ev(init[-1], {}, ctx0) if init else None
            if isinstance(v, int):
                cc.statics[nm] = v
        cc.run(decl, [])
    except (_TooBig, _CDead, AnalysisError, RecursionError, KeyError, TypeError):
        return None
    visits = cc.seen.get(id(call))
    if not visits:
        return None
    vs = [v[argidx] if argidx < len(v) else None for v in visits]
    if all(v is not None and type(v) is type(vs[0]) and v == vs[0] for v in vs):
        return vs[0]
    return None


# ---------------------------------------------------------------------------
def r03_1(chk, repo, sf_write, SFile_open, Rec_open, cfun, decls=None, lookup=None):
    """mode selection for append"""
    cfg = cfg_of(SFile_open)
    view = cfg.view()
    # (a) every re-assignment of a parameter that is forwarded to the record
    # file constructor (mode, delim, ...) must be live: a fallback that is
    # computed and then dropped changes nothing
    fwd = set()
    for n, c in rules.call_nodes(cfg, lambda c: call_name(c) == "Recfile"):
        for k in c.keywords:
            if k.arg:
                fwd.add(k.arg)
    params = set(SFile_open.params)
    dead = rules.dead_param_stores(cfg, view, names=params & fwd)
    stores = [n for n in cfg.nodes if n.kind == "stmt" and isinstance(n.ast, ast.Assign)
              and any(isinstance(t, ast.Name) and t.id in (params & fwd) for t in n.ast.targets)]
    for n in stores:
        v = n.ast.targets[0].id
        isdead = any(d is n for d, _ in dead)
        chk.ob("R03.1a", "esutil.sfile.SFile.open::fallback-store::%s" % v, not isdead, SFile_open.where(n.ast),
               "re-assignment `%s` of forwarded parameter must reach a use (the append-to-missing-file fallback); "
               "it is %s" % (norm(n.ast), "a dead store: the mode actually used was saved before it" if isdead else "live"))
    if not stores:
        # the fallback may be written differently: require *some* existence test that changes the mode
        has_exists = any(call_name(c) in ("exists", "isfile") for n in cfg.nodes for c in rules.stmts_calls(n))
        chk.ob("R03.1a", "esutil.sfile.SFile.open::fallback-present", has_exists, SFile_open.where(),
               "append to a missing file must fall back to creation: no existence test found in SFile.open"
               if not has_exists else "existence test present")

    # (b) the mode strings that originate inside the package and can reach the
    # Records constructor *without* a dtype must not be ones for which the C++
    # constructor demands a dtype
    origin = set()
    for fi in (sf_write, SFile_open):
        for x in ast.walk(fi.node):
            vals = []
            if isinstance(x, ast.Assign) and len(x.targets) == 1 and (
                    (isinstance(x.targets[0], ast.Name) and x.targets[0].id == "mode")
                    or (isinstance(x.targets[0], ast.Attribute) and x.targets[0].attr in ("_mode", "mode"))):
                vals = [x.value]
            elif isinstance(x, ast.keyword) and x.arg == "mode":
                vals = [x.value]
            for v in vals:
                for y in _mode_alternatives(v, fi):
                    if isinstance(y, ast.Constant) and isinstance(y.value, str):
                        origin.add((y.value, fi.where(y) if hasattr(y, "lineno") else fi.where(x)))
    ctor = cfun["Records::Records"]
    ccfg = cfront.CCFG(ctor)
    cview = ccfg.view()
    demand = None
    cparams = cfront.params_of(ctor)
    p_dtype = "dtype" if "dtype" in cparams else (cparams[3] if len(cparams) > 3 else "dtype")
    p_mode = "mode" if "mode" in cparams else (cparams[1] if len(cparams) > 1 else "mode")
    demand_raises = []      # the throws of the constructor that are controlled by a test on the dtype argument
    for n in ccfg.nodes:
        if n.kind == "raise":
            ctl = cview.controlling_branches(n)
            txt = [cfront.render(b.c) for b, lab in ctl]
            if any(re.search(r"\b%s\b" % re.escape(p_dtype), t) for t in txt):
                demand_raises.append(n)
                # outermost controlling branch mentioning mMode
                for b, lab in ctl:
                    if "mMode" in cfront.render(b.c) and lab == "T":
                        demand = b.c
    # The same question decided without looking at how the condition is spelled: constant propagation through the constructor
    # (and the helpers it calls) with the mode argument = the literal and the dtype argument = NULL, everything else unknown.
    # The dtype is demanded for the mode when the throw is reached and the normal exit is not; it is not demanded when the
    # throw cannot be reached.  Covers a mode that is first turned into action bits by a helper, early returns, switch ...
    cprop = {}

    def needs_dtype(m):
        """True / False / None (not decided): does the C++ constructor throw for mode m unless a dtype is given?"""
        if m not in cprop:
            res = None
            if demand_raises and decls is not None and lookup is not None:
                try:
                    reach, _, mem_out = _CConst(lookup, decls).run(ctor, [], named={p_mode: m, p_dtype: 0})
                    hit = [r for r in demand_raises if r.id in reach]
                    if not hit:
                        res = False
                    elif mem_out is None and all(r in demand_raises for r in ccfg.nodes if r.kind == "raise" and r.id in reach):
                        res = True
                except (_TooBig, AnalysisError, RecursionError, KeyError, TypeError, ValueError):
                    res = None
            if res is None and demand is not None:
                res = eval_c_string_cond(demand, "mMode", m)
            cprop[m] = res
        return cprop[m]

    located = demand is not None or (bool(origin) and all(needs_dtype(m) is not None for m, _ in origin))
    chk.ob("R03.1b", "Records::Records::dtype-demand-condition", True if located else None, "esutil/recfile/records.cpp",
           "the condition under which the constructor demands a dtype is decided for every mode that originates in the package: %s"
           % (cfront.render(demand) if demand is not None else
              ("by constant propagation through the constructor: %s" % {m: needs_dtype(m) for m, _ in sorted(origin)} if located
               else "NOT RECOGNISED (%d throw(s) controlled by a test on `%s`)" % (len(demand_raises), p_dtype))))
    if located:
        # which Recfile.open arm passes dtype?  the arm guarded by mode[0]=='r'
        for m, where in sorted(origin):
            reads = m[:1] == "r"
            needs = needs_dtype(m)
            ok = True if (reads or needs is False) else (None if needs is None else False)
            chk.ob("R03.1b", "mode-literal::%s" % m, ok, where,
                   "package-originated mode %r: %s" % (m, "takes the read arm (dtype from header)" if reads else
                                                     ("C++ constructor demands a dtype for it but the write arm passes none"
                                                      if needs else ("write arm, no dtype demanded" if needs is False else
                                                                     "whether the C++ constructor demands a dtype for it is not decided"))))
    # (c) the read/create dispatch and the mode given to Recfile must use the
    # post-fallback mode: any `self._mode`-like attribute that is tested or
    # forwarded must be stored after the last fallback store on every path
    attr_stores = [n for n in cfg.nodes if n.kind == "stmt" and isinstance(n.ast, ast.Assign)
                   and isinstance(n.ast.targets[0], ast.Attribute) and isinstance(n.ast.value, ast.Name)
                   and n.ast.value.id == "mode"]
    attr_names = {norm(s.ast.targets[0]) for s in attr_stores}
    for f in [f for f in stores if f.ast.targets[0].id == "mode"]:
        for u in cfg.nodes:
            if u.ast is None or u in attr_stores:
                continue
            roots = [u.ast.test] if u.kind in ("branch",) else ([u.ast] if u.kind in ("stmt", "return") else [])
            used = set()
            for r in roots:
                for x in ast.walk(r):
                    if isinstance(x, ast.Attribute) and isinstance(x.ctx, ast.Load) and norm(x) in attr_names:
                        used.add(norm(x))
            if not used:
                continue
            stale = view.reaches(f, u, avoiding=attr_stores)
            chk.ob("R03.1c", "esutil.sfile.SFile.open::post-fallback-mode::%s" % (norm(u.ast.test) if u.kind == "branch" else call_name(u.ast.value) if isinstance(u.ast, ast.Assign) and isinstance(u.ast.value, ast.Call) else norm(u.ast)[:40]),
                   not stale, SFile_open.where(u.ast),
                   "use of %s after the fallback `%s` %s" % (sorted(used), norm(f.ast),
                                                            "sees the pre-fallback mode (no re-store in between)" if stale else "sees the re-stored mode"))
    # (a'),(b') the same two statements on the paths of SFile.open with the helpers that construct the record file followed:
    # when the mode is 'r+' and the file does not exist, the mode that reaches the Recfile constructor is a creating one;
    # a literal mode that reaches it without a dtype is one for which the C++ constructor does not demand a dtype
    def builds_recfile(f, depth=0):
        return any(isinstance(x, ast.Call) and (call_name(x) == "Recfile" or (
            depth < 3 and _callee_attr_funcs(repo, f, x) is not None and _callee_attr_funcs(repo, f, x) is not f
            and builds_recfile(_callee_attr_funcs(repo, f, x), depth + 1))) for x in ast.walk(f.node))
    try:
        opaths = [st for k, _, st in _PX(repo, stop=("read_header", "close"), want=builds_recfile).run(SFile_open, {}) if k == "return"]
    except _TooBig:
        opaths = []
    fb = [st for st in opaths
          if _fact(st, lambda k: k[0] == "eq" and "'r+'" in k[1:]) is True
          and _fact(st, lambda k: k[0] == "truth" and ("exists(" in k[1] or "isfile(" in k[1])) is False]
    verdict = None
    got = set()
    for st in fb:
        for e in _calls(st, "Recfile"):
            m = e["kw"].get("mode", e["args"][1] if len(e["args"]) > 1 else None)
            m = _with_eqs(m, st.facts[:e["nfacts"]]) if m is not None else None
            if isinstance(m, ast.Constant) and isinstance(m.value, str):
                got.add(m.value)
                good = m.value[:1] != "r"
                verdict = good if verdict is None else (verdict and good)
            else:
                got.add("<%s>" % (norm(m) if m is not None else "default"))
    for st in fb:
        if not _calls(st, "Recfile") and verdict is not False:
            verdict = None
    chk.ob("R03.1a", "esutil.sfile.SFile.open::fallback-reaches-constructor", verdict, SFile_open.where(),
           "append to a missing file (mode 'r+', path does not exist): the record file is constructed with a creating mode "
           "(%d such path(s), modes %s)" % (len(fb), sorted(got)))
    if located:
        seen = set()
        for st in opaths:
            for e in _calls(st, "Recfile"):
                m = e["kw"].get("mode", e["args"][1] if len(e["args"]) > 1 else None)
                m = _with_eqs(m, st.facts[:e["nfacts"]]) if m is not None else None
                if not (isinstance(m, ast.Constant) and isinstance(m.value, str)):
                    continue
                has_dtype = "dtype" in e["kw"] or len(e["args"]) > 3
                if (m.value, has_dtype) in seen:
                    continue
                seen.add((m.value, has_dtype))
                needs = needs_dtype(m.value)
                if not has_dtype and "**" in e["kw"] and needs is not False:
                    needs = None        # keywords passed through a mapping that is not known entry by entry
                chk.ob("R03.1b", "ctor-mode::%s::dtype=%s" % (m.value, has_dtype), True if (has_dtype or needs is False) else (None if needs is None else False),
                       "%s:%s" % (SFile_open.where().rsplit(":", 1)[0], e["line"]),
                       "mode %r reaches the record-file constructor %s a dtype; the C++ constructor %s one for it"
                       % (m.value, "with" if has_dtype else "without", "demands" if needs else "does not demand"))
    # (e) the path whose existence decides between "append to what is there" and "create" is the path the record file is
    # opened on: the two are the same term over the symbols SFile.open sees on entry (same root, same ~ / $VAR expansions).
    # A test on another spelling of the name answers for another file: an existing file is then taken for missing and
    # re-created (truncated), or a missing one is opened for update.
    verdict, nseen, detail, line = True, 0, "", None
    for st in opaths:
        tested = []
        for _, _, x, w in st.facts:
            for c in (ast.walk(x) if isinstance(x, ast.AST) else ()):
                if isinstance(c, ast.Call) and call_name(c) in _EXIST_TESTS:
                    p = c.args[0] if c.args else (c.func.value if isinstance(c.func, ast.Attribute) else None)
                    if p is not None and not (isinstance(p, ast.Attribute) and norm(p) in ("os.path", "path")):
                        tested.append((p, c, w))
        opened = []
        for e in _calls(st, "Recfile"):
            p = e["args"][0] if e["args"] else next((e["kw"][k] for k in ("filename", "fname", "path") if k in e["kw"]), None)
            if p is not None:
                opened.append(p)
        for p, c, w in tested:
            for o in opened:
                nseen += 1
                r = _same_path(p, o)
                if r is False:
                    verdict = False
                    line = w[1]
                    detail = "`%s` tests %s but the record file is opened on %s" % (norm(c), _path_words(p), _path_words(o))
                elif r is None and verdict is True:
                    verdict = None
                    detail = "`%s` vs opened `%s`: relation of the two paths not recognised" % (norm(c), norm(o))
    if nseen:
        chk.ob("R03.1e", "esutil.sfile.SFile.open::existence-test-on-opened-path", verdict,
               "%s:%s" % (SFile_open.where().rsplit(":", 1)[0], line) if line else SFile_open.where(),
               "the existence test that selects append-vs-create looks at the very path the record file is opened on "
               "(%d test/open pair(s) on the paths of SFile.open)%s" % (nseen, (": " + detail) if detail else ""))
    # (d) Recfile.open refuses r+ on a missing file (so the fallback above is the only way)
    rcfg = cfg_of(Rec_open)
    guard = False
    for n in rules.raise_nodes(rcfg):
        for t, lab in rules.controlling_tests(rcfg.view(), n):
            if "exists" in t and "r+" in t and lab == "T":
                guard = True
    chk.ob("R03.1d", "esutil.recfile.Util.Recfile.open::r+-missing-file", guard, Rec_open.where(),
           "opening 'r+' on a missing file raises (instead of silently creating with a stale header)")


# ---------------------------------------------------------------------------
def _callee_attr_funcs(repo, fi, call):
    """resolve self.m(...) to a method of the same class"""
    d = dotted_name(call.func)
    if d and d.startswith("self.") and d.count(".") == 1 and fi.cls:
        q = "%s.%s.%s" % (fi.module.name, fi.cls, d.split(".")[1])
        if repo.has(q):
            return repo.func(q)
    return None


def _reaches_byte_writer(repo, fi, call, depth=0):
    nm = call_name(call)
    if nm in BYTE_WRITERS:
        return True
    d = dotted_name(call.func) or ""
    if d.endswith("_robj.write") or d.endswith("robj.Write"):
        return True
    if depth > 3:
        return False
    callee = _callee_attr_funcs(repo, fi, call)
    if callee is not None:
        for x in ast.walk(callee.node):
            if isinstance(x, ast.Call) and _reaches_byte_writer(repo, callee, x, depth + 1):
                return True
    return False


def r03_2(chk, repo, SFile_write):
    cfg = cfg_of(SFile_write)
    view = cfg.view()
    writers = [(n, c) for n in cfg.nodes for c in rules.stmts_calls(n) if _reaches_byte_writer(repo, SFile_write, c)]
    # the compatibility checker: a callee (or inline code) that compares the
    # file's dtype state with data.dtype and raises
    cands = []
    for n in cfg.nodes:
        for c in rules.stmts_calls(n):
            callee = _callee_attr_funcs(repo, SFile_write, c)
            if callee is not None and _is_compat_checker(repo, callee):
                cands.append((n, c, callee))
    # ... and on some path really compares the two (seen through temporaries and helpers)
    paths_of = {}
    for _, _, callee in cands:
        if callee.qualname not in paths_of:
            try:
                # attributes of the handle that are caches of the stored dtype (always stored together with it as a function of
                # it) read as that function of self._dtype
                cached = _derived_attrs(repo, callee)
                paths_of[callee.qualname] = _PX(repo).run(callee, {}, st=_St(heap=cached) if cached else None)
            except _TooBig:
                paths_of[callee.qualname] = None
    checkers = [t for t in cands if paths_of[t[2].qualname] and any(
        _cmp_class(x) for _, _, st in paths_of[t[2].qualname] for _, _, x, _ in st.facts)]
    if not checkers:
        checkers = [t for t in cands if _is_compat_checker(repo, t[2], direct=True)]
    chk.ob("R03.2a", "esutil.sfile.SFile.write::compat-check-present", bool(checkers), SFile_write.where(),
           "SFile.write calls a dtype-compatibility checker (a method comparing the stored dtype with data.dtype "
           "that can raise): %s" % ([c[2].qualname for c in checkers] or "NONE FOUND"))
    chk.ob("R03.2a", "esutil.sfile.SFile.write::byte-writers-found", len(writers) >= 2, SFile_write.where(),
           "byte-writing calls reachable from SFile.write: %s" % [norm(c) for _, c in writers])
    for wn, wc in writers:
        dom = any(view.dominates(cn, wn) and cn is not wn for cn, _, _ in checkers)
        chk.ob("R03.2b", "esutil.sfile.SFile.write::check-dominates::%s" % norm(wc.func), dom, SFile_write.where(wn.ast),
               "the compatibility check must dominate byte-writing call `%s`" % norm(wc))
    # inside the checker(s): every way a stored-dtype / data.dtype comparison can come out "different" ends in a raise.
    # Decided on the paths of the checker with its helpers followed, so a mismatch flag tested later, an early `return
    # message` from a helper and a direct raise are the same thing.
    for _, _, callee in checkers:
        chk.analysed_unit(callee.qualname)
        paths = paths_of[callee.qualname]
        if paths is None:
            chk.ob("R03.2c", "%s::paths" % callee.qualname, None, callee.where(), "too many paths through the compatibility checker")
            continue
        for fi_ in {w[0].qualname for _, _, st in paths for _, _, _, w in st.facts}:
            chk.analysed_unit(fi_)
        # (arm, class, atom text) -> [mismatch accepted?, line]
        seen = {}
        classes = {"binary": set(), "text": set(), "common": set()}
        for kind, _, st in paths:
            arm = _arm(st)
            for k, v, x, w in st.facts:
                cls = _cmp_class(x) if k[0] == "eq" else None
                if cls is None:
                    continue
                classes[arm].add(cls)
                if not v:
                    rec = seen.setdefault((arm, cls, _unindex(norm(x))), [False, w])
                    if kind == "return":
                        rec[0] = True
        chk.ob("R03.2c", "%s::dtype-comparisons-found" % callee.qualname, True if seen else None, callee.where(),
               "comparisons of the stored dtype with the dtype of the new rows whose 'different' outcome was followed: %d" % len(seen))
        for (arm, cls, text), (escapes, w) in sorted(seen.items(), key=lambda t: t[0]):
            chk.ob("R03.2c", "%s::flag-reaches-raise::%s::%s" % (callee.qualname, arm, cls if cls != "other" else text),
                   not escapes, "%s:%s" % (callee.where().rsplit(":", 1)[0], w[1]),
                   "the mismatch outcome of `%s` on the %s arm %s" % (
                       text, arm, "can reach the normal return without any raise: the mismatch is accepted"
                       if escapes else "always ends in a raise"))
        # the binary arm must contain an exact dtype comparison that leads to rejection
        exact = sorted({(arm, _unindex(norm(x)), w[1]) for _, _, st in paths for arm in [_arm(st)]
                        for k, v, x, w in st.facts if k[0] == "eq" and _cmp_class(x) == "exact"})
        chk.ob("R03.2d", "%s::binary-exact-dtype-comparison" % callee.qualname, True if exact else None, callee.where(),
               "binary appends demand an exact dtype match: comparison of the stored dtype with data.dtype %s"
               % ("found: " + exact[0][1] if exact else "NOT RECOGNISED on any path"))
        if exact:
            # every normal return on the binary arm of a file that already holds rows has seen the two dtypes compare equal
            bad = []
            nbin = 0
            for kind, _, st in paths:
                if kind != "return" or _arm(st) == "text" or _fact(st, _is_none_of("self._dtype")) is True:
                    continue
                nbin += 1
                ok_ = any(k[0] == "eq" and v and _cmp_class(x) == "exact" for k, v, x, _ in st.facts)
                if not ok_:
                    bad.append(st)
            chk.ob("R03.2d", "%s::binary-accepts-only-equal-dtype" % callee.qualname, not bad if nbin else None, callee.where(),
                   "normal returns on the binary arm (file already has rows): %d, of which %d without the dtypes having compared equal%s"
                   % (nbin, len(bad), "" if not bad else " -- e.g. after " + "; ".join("%s=%s" % (k[1:], v) for k, v, _, _ in bad[0].facts[-3:])))
            esc = [st for kind, _, st in paths if kind == "return"
                   and any(k[0] == "eq" and not v and _cmp_class(x) == "exact" for k, v, x, _ in st.facts)]
            chk.ob("R03.2d", "%s::binary-mismatch-raises" % callee.qualname, not esc,
                   "%s:%s" % (callee.where().rsplit(":", 1)[0], exact[0][2]),
                   "the mismatch outcome of `%s` %s" % (exact[0][1], "always raises" if not esc else
                                                       "can reach the normal return: incompatible binary append accepted"))
        # text arm: count, name, type (byte-order-free), dims compared
        want = {"field count": "count", "field name": "name", "field type sans byte order": "type", "field shape": "shape"}
        for label, cls in want.items():
            hit = cls in classes["text"] or cls in classes["common"]
            if not hit and cls == "type":
                # any other spelling that settles kind and item size of a field (numpy.dtype(t).newbyteorder('='), the whole field ...)
                hit = any(_type_cover(x) == "full" for _, _, st in paths if _arm(st) != "binary" for k, _, x, _ in st.facts if k[0] == "eq")
            chk.ob("R03.2e", "%s::text-arm-compares::%s" % (callee.qualname, label), hit, callee.where(),
                   "text appends compare %s: %s" % (label, "found" if hit else "NO SUCH COMPARISON"))
        # text arm, stated over paths: a chunk is accepted (normal return, file already has rows, fields looked at) only after
        # the type of each field -- kind AND item size, i.e. the whole type string but for its byte-order character -- has
        # compared equal with the stored one.  A comparison of a part of the type string (one character, the kind, the
        # size alone) lets fields of another width through: the appended bytes no longer parse as the stored dtype.
        tpaths = []
        for kind, _, st in paths:
            if kind != "return" or _arm(st) == "binary" or _fact(st, _is_none_of("self._dtype")) is True:
                continue
            cov = [(_type_cover(x), x, w) for k, v, x, w in st.facts if k[0] == "eq" and v and isinstance(x, ast.Compare)]
            mixed = [(c, x, w) for c, x, w in cov if c is not None]
            if mixed:
                tpaths.append((st, mixed, any(re.search(r"__i\d+__", norm(x)) for _, x, _ in mixed)))
        if any(lp for _, _, lp in tpaths):
            tpaths = [t for t in tpaths if t[2]]      # the ways through the per-field loop body
        verdict, why, line = (True, "", None) if tpaths else (None, "no accepting path of a text append that compares the two dtypes was recognised", None)
        for st, mixed, _ in tpaths:
            covs = [c for c, _, _ in mixed]
            parts = {c for c in covs if c.startswith("part:")}
            if "full" in covs or {"part:kind", "part:itemsize"} <= parts:
                continue
            if "unknown" in covs:
                if verdict is True:
                    verdict, why = None, "a comparison of the two dtypes that is not recognised: `%s`" % next(
                        _unindex(norm(x)) for c, x, _ in mixed if c == "unknown")
                continue
            verdict = False
            if parts:
                c, x, w = next(t for t in mixed if t[0].startswith("part:"))
                why = "accepted after `%s` compared equal, which covers only %s of each field's type" % (_unindex(norm(x)), c[5:])
                line = w[1]
            else:
                why = "accepted after comparing only %s: the field types are never compared" % sorted(
                    {_cmp_class(x) or "?" for _, x, _ in mixed})
            break
        chk.ob("R03.2f", "%s::text-accepts-only-equal-field-types" % callee.qualname, verdict,
               "%s:%s" % (callee.where().rsplit(":", 1)[0], line) if line else callee.where(),
               "a text append is accepted only after kind and item size of every field (the type string without its "
               "byte-order character) compared equal with the stored dtype, on each of the %d accepting path(s)%s"
               % (len(tpaths), (": " + why) if why else ""))


# -- caches of the stored dtype ------------------------------------------------------------------------------------------------
_PURE_BUILTINS = ("zip", "len", "enumerate", "list", "tuple", "sorted", "iter", "reversed", "range", "str", "repr", "isinstance", "id", "bool")


def _setattr_table(fi, call):
    """for `setattr(self, K, V)`: {attribute: value expression} of the stores it performs -- K a string constant, or K, V the
    targets of an enclosing `for K, V in <module constant table of (name, value) pairs>` (also `.items()` of a constant dict);
    None when the attributes it stores are not known"""
    if len(call.args) != 3 or call.keywords:
        return None
    k, v = call.args[1], call.args[2]
    if isinstance(k, ast.Constant) and isinstance(k.value, str):
        return {k.value: v}
    if not (isinstance(k, ast.Name) and isinstance(v, ast.Name)):
        return None
    for loop in ast.walk(fi.node):
        if not (isinstance(loop, ast.For) and any(x is call for b in loop.body for x in ast.walk(b))):
            continue
        t = loop.target
        if not (isinstance(t, (ast.Tuple, ast.List)) and len(t.elts) == 2 and all(isinstance(x, ast.Name) for x in t.elts)
                and t.elts[0].id == k.id and t.elts[1].id == v.id):
            return None
        rebinds = [x for b in loop.body for x in ast.walk(b) if isinstance(x, ast.Name) and x.id in (k.id, v.id) and not isinstance(x.ctx, ast.Load)]
        if rebinds:
            return None
        it = loop.iter
        items = False
        if isinstance(it, ast.Call) and isinstance(it.func, ast.Attribute) and it.func.attr == "items" and not it.args:
            it, items = it.func.value, True
        tab = _module_const(fi.module, it.id) if isinstance(it, ast.Name) else (it if _is_literal(it) else None)
        if tab is None:
            return None
        out = {}
        if items:
            d = _as_dict_literal(tab)
            if d is None or not all(isinstance(x.value, str) for x in d.keys):
                return None
            for x, y in zip(d.keys, d.values):
                out[x.value] = y
            return out
        if not isinstance(tab, (ast.Tuple, ast.List)):
            return None
        for e in tab.elts:
            if not (isinstance(e, (ast.Tuple, ast.List)) and len(e.elts) == 2 and isinstance(e.elts[0], ast.Constant) and isinstance(e.elts[0].value, str)):
                return None
            out[e.elts[0].value] = e.elts[1]
        return out
    return None


_derived_memo = {}


def _derived_attrs(repo, fi, base="_dtype"):
    key = (id(repo), fi.qualname, base)
    if key not in _derived_memo:
        _derived_memo[key] = _derived_attrs_(repo, fi, base)
    return {k: copy.deepcopy(v) for k, v in _derived_memo[key].items()}


def _derived_attrs_(repo, fi, base="_dtype"):
    """{'self.A': E} for the attributes A of the class of fi that are caches of the stored dtype: E is an expression over
    `self.<base>` only, and on every path of every method of the class `self.A` and `self.<base>` are stored together -- both
    None, or self.A = E(the new self.<base>) -- with no call to a method of the class in between; stores through setattr are
    resolved entry by entry (anything not resolved: no cache is recognised); nothing outside the class stores either attribute
    and the cached object is not mutated in place.  So wherever `self.<base>` is not None, `self.A` reads as E(self.<base>).
    (A path that is left by an exception between the two stores is not considered.)"""
    if not fi.cls:
        return {}
    methods = [f for f in repo.funcs.values() if f.module is fi.module and f.cls == fi.cls]
    mnames = {f.name for f in methods}
    bkey = "self." + base

    def stores(f):
        return {x.attr for x in ast.walk(f.node) if isinstance(x, ast.Attribute) and isinstance(x.ctx, (ast.Store, ast.Del))
                and isinstance(x.value, ast.Name) and x.value.id == "self"}

    dyn = []        # attribute tables of the setattr(self, ..) calls of the class
    for f in methods:
        for x in ast.walk(f.node):
            if isinstance(x, ast.Attribute) and x.attr == "__dict__":
                return {}
            if isinstance(x, ast.Call) and call_name(x) in ("setattr", "__setattr__", "delattr", "vars"):
                if call_name(x) == "vars" and not x.args:
                    continue
                tab = _setattr_table(f, x) if (call_name(x) == "setattr" and x.args and isinstance(x.args[0], ast.Name) and x.args[0].id == "self") else None
                if tab is None:
                    if call_name(x) == "setattr" and x.args and isinstance(x.args[0], ast.Name) and x.args[0].id != "self" \
                            and len(x.args) == 3 and isinstance(x.args[1], ast.Constant) and x.args[1].value != base:
                        continue
                    return {}
                dyn.append(tab)
    # only the attributes the function (with the helpers it calls) reads are of interest
    _, texts = _raise_and_attrs(repo, fi, set(), 0)
    reads = {t.split(".", 1)[1] for t in texts if t.startswith("self.") and t.count(".") == 1} - {base}
    if not any(reads & stores(f) for f in methods):
        return {}
    interest = reads | {base}
    memo = {}

    def touches(f, depth=0):
        """does f (with the helpers of the class it calls) store an attribute of interest?"""
        if f.qualname in memo:
            return memo[f.qualname]
        memo[f.qualname] = False
        r = bool(interest & stores(f))
        if not r and depth < 3:
            for x in ast.walk(f.node):
                if isinstance(x, ast.Call):
                    c = _callee_attr_funcs(repo, f, x)
                    if c is not None and c is not f and touches(c, depth + 1):
                        r = True
                        break
        memo[f.qualname] = r
        return r

    def paths(f):
        return [st for k, _, st in _PX(repo, want=touches, budget=60000).run(f, {}) if k == "return"]

    storing = [f for f in methods if base in stores(f)]
    cands = {}

    def anti(v, hb):
        """v with every occurrence of the new value of self.<base> written as self.<base>"""
        tb = norm(hb)

        class R(ast.NodeTransformer):
            def generic_visit(self, n):
                if isinstance(n, ast.expr) and norm(n) == tb:
                    return ast.parse(bkey, mode="eval").body
                return super().generic_visit(n)
        return R().visit(copy.deepcopy(v))

    def over_base_only(e):
        if re.search(r"__(unk|ret|i)\d+__", norm(e)):
            return False
        copies = {id(x.func) for x in ast.walk(e) if isinstance(x, ast.Call) and isinstance(x.func, ast.Name)
                  and x.func.id in ("list", "tuple") and len(x.args) == 1 and not x.keywords}
        for x in ast.walk(e):
            if isinstance(x, ast.Name) and x.id != "self" and id(x) not in copies:
                return False
            if isinstance(x, ast.Attribute) and isinstance(x.value, ast.Name) and x.value.id == "self" and x.attr != base:
                return False
            if isinstance(x, ast.Call) and id(x.func) not in copies:
                return False
        return bkey in {norm(x) for x in ast.walk(e) if isinstance(x, ast.Attribute)}

    paths_of = {}
    for f in storing:
        try:
            paths_of[f.qualname] = paths(f)
        except _TooBig:
            return {}
    # candidates: attributes stored on a path together with the base as an expression over its new value
    for f in storing:
        for st in paths_of[f.qualname]:
            hb = st.heap.get(bkey)
            if hb is None or _is_none(hb):
                continue
            for k, v in st.heap.items():
                if k.startswith("self.") and k.count(".") == 1 and "[" not in k and k != bkey and k[5:] in reads and not _is_none(v):
                    e = anti(v, hb)
                    if over_base_only(e) and norm(e) != bkey:
                        cands.setdefault(k, set()).add(norm(e))
    out = {}
    for akey, exprs in cands.items():
        if len(exprs) != 1:
            continue
        etext = next(iter(exprs))
        attr = akey.split(".", 1)[1]
        good = True
        # every method that stores either attribute keeps the pair together
        for f in [m for m in methods if {attr, base} & stores(m)]:
            if f.qualname not in paths_of:
                try:
                    paths_of[f.qualname] = paths(f)
                except _TooBig:
                    good = False
                    break
            for st in paths_of[f.qualname]:
                hb = ha = None

                def consistent():
                    if hb is None and ha is None:
                        return True
                    if hb is None or ha is None:
                        return False
                    if _is_none(hb):
                        return True
                    return norm(anti(ha, hb)) == etext

                for e in st.events:
                    if e["kind"] == "store" and e["name"] == bkey:
                        hb = e["value"]
                    elif e["kind"] == "store" and e["name"] == akey:
                        ha = e["value"]
                    elif e["kind"] == "store" and (e["name"].startswith(bkey + ".") or e["name"].startswith(akey + ".")
                                                   or e["name"].startswith(bkey + "[") or e["name"].startswith(akey + "[")):
                        good = False
                    elif e["kind"] == "call" and (e["dotted"] or "").startswith("self.") and e["name"] in mnames and not consistent():
                        good = False
                if not consistent():
                    good = False
            if not good:
                break
        # setattr tables: both or neither, and then the base is reset to None
        for tab in dyn:
            if (attr in tab) != (base in tab) or (base in tab and not _is_none(tab[base])):
                good = False
        # nobody else stores them; the cached object is not changed in place
        for g in repo.funcs.values():
            inside = g.module is fi.module and g.cls == fi.cls
            aliases = {"self." + attr}
            for x in ast.walk(g.node):
                if isinstance(x, ast.Assign) and len(x.targets) == 1 and isinstance(x.targets[0], ast.Name) and norm(x.value) == "self." + attr and inside:
                    aliases.add(x.targets[0].id)
            for x in ast.walk(g.node):
                if isinstance(x, ast.Attribute) and x.attr in (attr, base) and isinstance(x.ctx, (ast.Store, ast.Del)) \
                        and not (inside and isinstance(x.value, ast.Name) and x.value.id == "self"):
                    good = False
                if not inside:
                    continue
                if isinstance(x, ast.Subscript) and isinstance(x.ctx, (ast.Store, ast.Del)) and norm(x.value) in aliases:
                    good = False
                if isinstance(x, ast.AugAssign) and norm(x.target) in aliases and norm(x.target) != "self." + attr:
                    good = False
                if isinstance(x, ast.Call) and isinstance(x.func, ast.Attribute) and norm(x.func.value) in aliases \
                        and x.func.attr not in _READ_ONLY_METHODS:
                    good = False
                if isinstance(x, ast.Call) and not (isinstance(x.func, ast.Name) and x.func.id in _PURE_BUILTINS) \
                        and any(norm(a) in aliases for a in list(x.args) + [k.value for k in x.keywords]):
                    good = False
        if good:
            out[akey] = ast.parse(etext, mode="eval").body
    return out


def _is_compat_checker(repo, fi, direct=False):
    """a function that (with the helpers it calls, unless direct) mentions the handle's stored dtype and data.dtype and can raise"""
    has_raise, texts = _raise_and_attrs(repo, fi, set(), 9 if direct else 0)
    return has_raise and "data.dtype" in texts and any(t.endswith("._dtype") for t in texts)


def _raise_and_attrs(repo, fi, seen, depth):
    seen.add(fi.qualname)
    has_raise = False
    texts = set()
    for x in ast.walk(fi.node):
        if isinstance(x, ast.Raise):
            has_raise = True
        elif isinstance(x, ast.Attribute):
            texts.add(norm(x))
        elif isinstance(x, ast.Call) and depth < 2:
            callee = _callee_attr_funcs(repo, fi, x)
            if callee is not None and callee.qualname not in seen:
                r, t = _raise_and_attrs(repo, callee, seen, depth + 1)
                has_raise = has_raise or r
                texts |= t
    return has_raise, texts


def _arm(st):
    """binary / text / common: which way the path went at the test of the delimiter (binary files have none)"""
    v = _fact(st, _is_none_of("self._delim"))
    if v is None:
        v2 = _fact(st, lambda k: k == ("truth", "self._delim"))
        v = None if v2 is None else (not v2)
    return "common" if v is None else ("binary" if v else "text")


def _unindex(t):
    return re.sub(r"__i\d+__", "i", t)


_CMP_CLASSES = {"X": "exact", "len(X.names)": "count", "len(X.descr)": "count", "len(X)": "count", "len(X.fields)": "count",
                "X.names": "name", "X.names[i]": "name", "X.descr[i][0]": "name",
                "X.descr[i][1][1:]": "type", "X.descr[i][2]": "shape", "X.descr[i][2:]": "shape",
                "len(X.descr[i])": "dim", "X.descr": "descr", "X.descr[i]": "field"}


def _cmp_class(x):
    """class of an ==/!= between something derived from the stored dtype (self._dtype) and the same thing derived from the
    dtype of the new rows (data.dtype): exact, count, name, type, shape, dim, descr, field, other; None for anything else"""
    if not (isinstance(x, ast.Compare) and len(x.ops) == 1 and isinstance(x.ops[0], (ast.Eq, ast.NotEq))):
        return None
    sides = {}
    for e in (x.left, x.comparators[0]):
        names = {norm(y) for y in ast.walk(e) if isinstance(y, (ast.Attribute, ast.Name))}
        s = "self._dtype" in names
        d = "data.dtype" in names or "data" in names
        if s == d:
            return None
        sides["S" if s else "D"] = _unindex(norm(e))
    if len(sides) != 2:
        return None
    ts = sides["S"].replace("self._dtype", "X")
    td = sides["D"].replace("data.dtype", "X")
    if ts != td:
        return "other"
    return _CMP_CLASSES.get(ts, "other")


def _cmp_sides(x):
    """(stored-dtype side, new-rows side) of an ==/!= with `self._dtype` / `data.dtype` written X, or None"""
    if not (isinstance(x, ast.Compare) and len(x.ops) == 1 and isinstance(x.ops[0], (ast.Eq, ast.NotEq))):
        return None
    sides = {}
    for e in (x.left, x.comparators[0]):
        names = {norm(y) for y in ast.walk(e) if isinstance(y, (ast.Attribute, ast.Name))}
        s = "self._dtype" in names
        d = "data.dtype" in names or "data" in names
        if s == d:
            return None
        sides["S" if s else "D"] = _unindex(norm(e))
    if len(sides) != 2:
        return None
    return sides["S"].replace("self._dtype", "X"), sides["D"].replace("data.dtype", "X")


_FIELD_DTYPE = re.compile(r"^(X\[(i|X\.names\[i\])\]|X\.fields\[(X\.names\[i\])\]\[0\])$")


def _type_part(ts):
    """what a term over the dtype X says about the type of field i: 'full' (kind and item size), 'part:<what>' (a proper part
    of the type: one character of the type string, the kind, the item size ...), 'unknown'"""
    try:
        e = ast.parse(ts, mode="eval").body
    except SyntaxError:
        return "unknown"
    ops = []
    while True:
        t = norm(e)
        if t == "X.descr[i][1]":
            base = "str"
            break
        if _FIELD_DTYPE.match(t):
            base = "dtype"
            break
        if isinstance(e, ast.Subscript):
            ops.append(("sub", e.slice))
            e = e.value
        elif isinstance(e, ast.Attribute):
            ops.append(("attr", e.attr))
            e = e.value
        elif isinstance(e, ast.Call) and call_name(e) == "dtype" and len(e.args) == 1 and not e.keywords:
            ops.append(("todtype", None))       # numpy.dtype(<type string>)
            e = e.args[0]
        elif isinstance(e, ast.Call) and isinstance(e.func, ast.Attribute) and not e.keywords:
            ops.append(("call", e.func.attr))
            e = e.func.value
        else:
            return "unknown"
    ops.reverse()
    if base == "str" and ops and ops[0][0] == "todtype":
        base, ops = "dtype", ops[1:]
    if base == "dtype":
        if not ops:
            return "full"
        k, a = ops[0]
        if k == "attr" and a in ("kind", "char", "type", "num"):
            return "part:kind" if len(ops) == 1 else "unknown"
        if k == "attr" and a in ("itemsize", "alignment"):
            return "part:itemsize" if len(ops) == 1 and a == "itemsize" else "unknown"
        if k == "attr" and a == "str":
            ops = ops[1:]
        elif k == "call" and a == "newbyteorder" and len(ops) == 1:
            return "full"
        else:
            return "unknown"
    # ops applied to the type string '<f8', '|S5', '<i4' ...: [0] byte order, [1] kind, [2:] item size
    if not ops:
        return "full"
    if len(ops) > 1 or ops[0][0] != "sub":
        return "unknown"
    s = ops[0][1]
    if isinstance(s, ast.Slice):
        def lit(v):
            try:
                return None if v is None else ast.literal_eval(v)
            except (ValueError, TypeError, SyntaxError):
                return v
        lo, hi, step = lit(s.lower), lit(s.upper), lit(s.step)
        if step not in (None, 1) or not all(v is None or isinstance(v, int) for v in (lo, hi)):
            return "unknown"
        if hi is None and lo in (None, 0, 1):
            return "full"
        return "part:characters [%s:%s] of the type string" % ("" if lo is None else lo, "" if hi is None else hi)
    try:
        i = ast.literal_eval(s)
    except (ValueError, TypeError, SyntaxError):
        i = None
    if isinstance(i, int):
        return "part:%s" % ("kind" if i == 1 else "character [%d] of the type string" % i)
    return "unknown"


def _type_cover(x):
    """for an equality between something of the stored dtype and something of the dtype of the new rows: how much of the field
    types it covers -- 'full', 'part:...', 'none' (it is about count / names / shapes), 'unknown'; None for other tests"""
    if not (isinstance(x, ast.Compare) and len(x.ops) == 1 and isinstance(x.ops[0], (ast.Eq, ast.NotEq))):
        return None
    names = {norm(y) for y in ast.walk(x) if isinstance(y, (ast.Attribute, ast.Name))}
    if not ("self._dtype" in names and ("data.dtype" in names or "data" in names)):
        # the dtype of the new rows compared with some other state of the handle (self.<attribute>) or with a value that is not
        # known: this may be the stored dtype in a form that is not recognised (a cache, a copy kept under another name)
        def about(e):
            ns = {norm(y) for y in ast.walk(e) if isinstance(y, (ast.Attribute, ast.Name))}
            chunk = "data.dtype" in ns or "data" in ns
            state = any(n.startswith("self.") for n in ns) or any(re.match(r"__(unk|ret)\d+__$", n) for n in ns)
            return chunk, state
        (c1, s1), (c2, s2) = about(x.left), about(x.comparators[0])
        if (c1 and not s1 and s2 and not c2) or (c2 and not s2 and s1 and not c1):
            return "unknown"
        return None
    cls = _cmp_class(x)
    if cls is None:
        return "unknown"
    if cls in ("exact", "descr", "field", "type"):
        return "full"
    if cls in ("count", "name", "shape", "dim"):
        return "none"
    sides = _cmp_sides(x)
    if sides is None or sides[0] != sides[1]:
        return "unknown"
    return _type_part(sides[0])


# ---------------------------------------------------------------------------
def _text_in(v, texts):
    return v is not None and norm(v) in texts


def _seq_elts(e):
    """the elements of a list / tuple expression built from literals: [a, b], (a, b), x + y, list(x), tuple(x); None if not all known"""
    if isinstance(e, (ast.List, ast.Tuple)):
        return None if any(isinstance(x, ast.Starred) for x in e.elts) else list(e.elts)
    if isinstance(e, ast.BinOp) and isinstance(e.op, ast.Add):
        l, r = _seq_elts(e.left), _seq_elts(e.right)
        return None if l is None or r is None else l + r
    if isinstance(e, ast.Call) and isinstance(e.func, ast.Name) and e.func.id in ("list", "tuple") and len(e.args) == 1 and not e.keywords:
        return _seq_elts(e.args[0])
    return None


def _first_line_term(t):
    """the expression that makes up the first line of a text: the first element of `'\\n'.join([...])`, the first term of
    `a + '\\n' + ...`; None when the text is built in a way that is not recognised"""
    if isinstance(t, ast.Call) and isinstance(t.func, ast.Attribute) and t.func.attr == "join" and len(t.args) == 1 and not t.keywords \
            and isinstance(t.func.value, ast.Constant) and t.func.value.value == "\n":
        elts = _seq_elts(t.args[0])
        if elts:
            first = elts[0]
            if not (isinstance(first, ast.Constant) and isinstance(first.value, str) and "\n" in first.value):
                return first
        return None
    if isinstance(t, ast.BinOp) and isinstance(t.op, ast.Add):
        terms = []

        def flat(x):
            if isinstance(x, ast.BinOp) and isinstance(x.op, ast.Add):
                flat(x.left)
                flat(x.right)
            else:
                terms.append(x)
        flat(t)
        if len(terms) >= 2 and not isinstance(terms[0], ast.Constant) and isinstance(terms[1], ast.Constant) \
                and isinstance(terms[1].value, str) and terms[1].value.startswith("\n"):
            return terms[0]
    return None


def _py_printf_operand(v):
    """the one value an expression recognised by _py_printf formats"""
    if isinstance(v, ast.BinOp) and isinstance(v.op, ast.Mod):
        r = v.right
        if isinstance(r, ast.Tuple):
            return r.elts[0] if len(r.elts) == 1 else None
        return None if isinstance(r, ast.Dict) else r
    if isinstance(v, ast.Call) and isinstance(v.func, ast.Attribute) and v.func.attr == "format":
        return v.args[0] if len(v.args) == 1 and not v.keywords else (v.keywords[0].value if len(v.keywords) == 1 and not v.args else None)
    if isinstance(v, ast.JoinedStr):
        fv = [x for x in v.values if isinstance(x, ast.FormattedValue)]
        return fv[0].value if len(fv) == 1 else None
    return None


def r03_3(chk, repo, measures, first_fmts=None):
    """first write vs append: decided on the paths of _write_header (new helpers followed, the calls the rule speaks about
    -- _make_header, _update_size, _get_size_string -- kept as events) and of _update_size"""
    wh = repo.func("esutil.sfile.SFile._write_header")
    chk.analysed_unit(wh.qualname)
    CHUNK = ("data.size", "len(data)", "data.shape[0]")
    first = _is_none_of("self._hdr")        # the atom `self._hdr is None` in terms of the handle state on entry
    try:
        paths = [(k, v, st) for k, v, st in _PX(repo, stop=("_make_header", "_update_size", "_get_size_string")).run(wh, {})
                 if k == "return"]
    except _TooBig:
        paths = None
    if not paths:
        chk.ob("R03.3a", "esutil.sfile.SFile._write_header::paths", None, wh.where(), "paths through _write_header not enumerable")
    else:
        hw = [(st, e) for _, _, st in paths for e in _calls(st, "write_header_and_update_offset")]
        per_path = [len(_calls(st, "write_header_and_update_offset")) for _, _, st in paths]
        chk.ob("R03.3a", "esutil.sfile.SFile._write_header::header-writer-present", bool(hw) and max(per_path) == 1, wh.where(),
               "header text is written by exactly one call on a path (calls per path: %s)" % sorted(set(per_path)))
        ok = bool(hw) and all(_fact(st, first, e["nfacts"]) is True for st, e in hw)
        chk.ob("R03.3a", "esutil.sfile.SFile._write_header::header-only-on-first-write", ok, wh.where(),
               "header text is written only when no header exists yet (self._hdr is None on %d of %d writing paths)"
               % (sum(1 for st, e in hw if _fact(st, first, e["nfacts"]) is True), len(hw)))
        # append arm: row-count update is called with the size of the new chunk
        app = [st for _, _, st in paths if _fact(st, first) is False]
        ok = bool(app) and all(any(e["args"] and _text_in(e["args"][0], CHUNK) for e in _calls(st, "_update_size")) for st in app)
        chk.ob("R03.3b", "esutil.sfile.SFile._write_header::append-updates-count", ok, wh.where(),
               "on the append arm the stored row count is increased by the chunk size (data.size): %d append path(s), _update_size args %s"
               % (len(app), sorted({norm(e["args"][0]) for st in app for e in _calls(st, "_update_size") if e["args"]})))
        for st in app:
            for e in _calls(st, "_update_size"):
                if e["args"]:
                    measures.append(("SFile append (_update_size)", e["args"][0], "data", wh.where()))
        # first-write arm: size string and _size come from data.size; header retained from the user's dict
        fw = [st for st, _ in hw]
        for st in fw:
            if "self._size" in st.heap:
                measures.append(("SFile first write (self._size)", st.heap["self._size"], "data", wh.where()))
            for e in _calls(st, "_get_size_string"):
                if e["args"]:
                    measures.append(("SFile first write (SIZE line)", e["args"][0], "data", wh.where()))
        sizes = sorted({norm(st.heap["self._size"]) if "self._size" in st.heap else "<not set>" for st in fw})
        chk.ob("R03.3c", "esutil.sfile.SFile._write_header::first-size", bool(fw) and all(s in CHUNK[:2] for s in sizes),
               wh.where(), "first write records _size = data.size (found %s)" % sizes)
        # the number in the SIZE line of a new file: the operand of the first line of the text handed to the header writer (the
        # line is produced by _get_size_string, or formatted in place / by another helper: then the format is handed to R03.4);
        # when the first line of the text is not recognised, the argument of the _get_size_string call on the path
        strs, verdicts = set(), []
        for st, e in hw:
            line0 = _first_line_term(e["args"][0]) if e["args"] else None
            operand = None
            if isinstance(line0, ast.Call) and call_name(line0) == "_get_size_string" and len(line0.args) == 1 and not line0.keywords:
                operand = line0.args[0]
            elif line0 is not None and _py_printf(line0) is not None:
                operand = _py_printf_operand(line0)
                if operand is not None and first_fmts is not None:
                    first_fmts.add(_py_printf(line0))
                    if not _calls(st, "_get_size_string"):
                        measures.append(("SFile first write (SIZE line)", operand, "data", wh.where()))
            cs = _calls(st, "_get_size_string")
            if len(cs) > 1:
                strs.add("<%d _get_size_string calls>" % len(cs))
                verdicts.append(False)
                continue
            if operand is None and len(cs) == 1 and cs[0]["args"]:
                operand = cs[0]["args"][0]
            if operand is None:
                strs.add("<SIZE line not recognised in the header text>")
                verdicts.append(None)
                continue
            strs.add(norm(operand))
            verdicts.append(norm(operand) in CHUNK[:2])
        ok = False if (not fw or any(v is False for v in verdicts)) else (None if any(v is None for v in verdicts) else True)
        chk.ob("R03.3c", "esutil.sfile.SFile._write_header::first-size-string", ok,
               wh.where(), "SIZE line of a new file is formatted from data.size (found %s)" % sorted(strs))
        # header retention: user header is only consulted when building a *new* header
        mh = [(st, e) for _, _, st in paths for e in _calls(st, "_make_header")]
        ok = bool(mh) and all(_fact(st, first, e["nfacts"]) is True for st, e in mh)
        chk.ob("R03.3e", "esutil.sfile.SFile._write_header::header-built-once", ok, wh.where(),
               "the header dict is (re)built from the user's header only on the first write; appends keep the stored one")

    us = repo.func("esutil.sfile.SFile._update_size")
    chk.analysed_unit(us.qualname)
    # pairing: file SIZE line, self._size and self._hdr['_SIZE'] all get the same new value = old + add, on every normal return
    add = us.params[1] if len(us.params) > 1 else "size_add"
    want = sorted(["self._size", add])
    try:
        upaths = [st for k, _, st in _PX(repo).run(us, {}) if k == "return"]
    except _TooBig:
        upaths = []
    found = {"file-count": [], "self._size": [], "self._hdr['_SIZE']": []}
    for st in upaths:
        cs = _calls(st, "update_row_count")
        found["file-count"].append(cs[-1]["args"][0] if cs and cs[-1]["args"] else None)
        for tgt in ("self._size", "self._hdr['_SIZE']"):
            found[tgt].append(st.heap.get(tgt))
    recognised = bool(upaths) and any(v is not None for v in found["file-count"])
    what = {"file-count": "the in-file SIZE line is rewritten with old size + added rows",
            "self._size": "self._size is updated to old size + added rows together with the file",
            "self._hdr['_SIZE']": "self._hdr['_SIZE'] is updated to old size + added rows together with the file"}
    for tgt in ("file-count", "self._size", "self._hdr['_SIZE']"):
        vals = found[tgt]
        ok = (all(v is not None and _sum_terms(v) == want for v in vals)) if recognised else None
        chk.ob("R03.3d", "esutil.sfile.SFile._update_size::%s" % tgt, ok, us.where(),
               "%s, on each of the %d normal return path(s) (found %s)" % (
                   what[tgt], len(upaths), sorted({norm(v) if v is not None else "<not updated>" for v in vals}) if upaths
                   else "no row-count update recognised"))


# -- R03.3f: the handle state of a reopened file comes from the reserved header entries -------------------------------------------
#
# An append that reopens the file starts from what SFile.open takes out of the stored header: the row count it will add to
# (`_SIZE`, filled in by read_header from the SIZE line), the dtype the chunk is compared with (`_DTYPE`) and the delimiter that
# selects the text / binary arm (`_DELIM`).  The stored header also holds the USER's entries, whose names the property
# quantifies over.  Necessary condition: the entry that supplies each of the three is selected by EQUALITY of its name with the
# reserved name (exactly, or after case folding; by ==, membership in a collection of names, list.index, a dict lookup).  When
# the selecting test is a relation between strings that is weaker than equality - substring (`in` with a string on the right),
# prefix / suffix (startswith / endswith), find/count/index on a string - some user header (`psf_size`, `bin_size` ...) has an
# entry that satisfies it too, and the count / dtype / delimiter of the handle is then taken from the user's entry.
#
# Decided on the paths of SFile.open with the lookup helpers followed (read_header itself is not entered): every comparison,
# string-method call and subscript that involves the reserved name, in the branch outcomes of the path and in the values the
# path stores / hands to the record-file constructor, is classified with a three-valued operand type (string / collection /
# unknown; a key of the header dict and the result of a str method are strings, displays, comprehensions, list()/sorted()/
# .keys() and the header dict are collections).  A string relation is a violation when the entry it selects is the one that is
# stored (it occurs in the stored term, or the key it tested does); an equality-type selection passes; nothing recognised = no
# verdict.
_RESERVED_ENTRIES = ("_size", "_dtype", "_delim")
_STR_METHODS = ("lower", "upper", "casefold", "strip", "lstrip", "rstrip", "title", "capitalize", "swapcase", "replace", "format",
                "join", "encode", "decode", "ljust", "rjust", "center", "zfill", "expandtabs", "removeprefix", "removesuffix")
_STR_RELATIONS = ("startswith", "endswith", "find", "rfind", "index", "rindex", "count", "__contains__", "partition", "rpartition")
_STR_ONLY_RELATIONS = ("startswith", "endswith", "find", "rfind", "rindex", "partition", "rpartition")
_COLL_CALLS = ("list", "tuple", "set", "frozenset", "sorted", "dict", "OrderedDict", "iter", "reversed", "map", "filter")
_COLL_METHODS = ("keys", "values", "items", "split", "rsplit", "splitlines", "copy")
_LOOP_INDEX = re.compile(r"^__i\d+__$")


class _KeySelection:
    """witnesses of how a header entry is related to the reserved name `name`: ('eq', node), ('sub', node, key side, enclosing
    comprehension), ('unk', node)"""

    def __init__(self, name, hdr):
        self.name = name
        self.hdr = set(hdr)     # texts of the terms that stand for the header dict
        self.out = []

    def wanted(self, x, loose=False):
        for c in ast.walk(x):
            if isinstance(c, ast.Constant) and isinstance(c.value, str):
                v = c.value.lower()
                if v == self.name or (loose and len(v) >= 3 and (v in self.name or self.name in v)):
                    return True
        return False

    def is_hdr(self, e):
        return norm(e) in self.hdr

    def keys_coll(self, e, depth=0):
        """a collection whose elements are the names of the header entries"""
        if depth > 4:
            return False
        if self.is_hdr(e):
            return True
        if isinstance(e, ast.Call) and not e.keywords:
            if isinstance(e.func, ast.Name) and e.func.id in ("list", "tuple", "sorted", "set", "frozenset", "iter", "reversed") and len(e.args) == 1:
                return self.keys_coll(e.args[0], depth + 1)
            if isinstance(e.func, ast.Attribute) and e.func.attr == "keys" and not e.args:
                return self.is_hdr(e.func.value)
        return False

    def typ(self, e, env):
        if isinstance(e, ast.Constant):
            return "str" if isinstance(e.value, (str, bytes)) else None
        if isinstance(e, ast.JoinedStr):
            return "str"
        if isinstance(e, ast.Name):
            return env.get(e.id)
        if isinstance(e, ast.Call):
            if isinstance(e.func, ast.Attribute):
                if e.func.attr in _STR_METHODS:
                    return "str"
                if e.func.attr in _COLL_METHODS:
                    return "coll"
            elif isinstance(e.func, ast.Name):
                if e.func.id == "str":
                    return "str"
                if e.func.id in _COLL_CALLS:
                    return "coll"
            return None
        if isinstance(e, ast.BinOp) and isinstance(e.op, (ast.Mod, ast.Add)):
            return "str" if "str" in (self.typ(e.left, env), self.typ(e.right, env)) else None
        if isinstance(e, ast.Subscript):
            if isinstance(e.slice, ast.Slice):
                return self.typ(e.value, env)
            if isinstance(e.slice, ast.Name) and _LOOP_INDEX.match(e.slice.id) and self.keys_coll(e.value):
                return "str"        # the element of an iteration over the header: one of its keys
            return None
        if isinstance(e, (ast.List, ast.Tuple, ast.Set, ast.Dict) + _COMPS) or self.is_hdr(e):
            return "coll"
        return None

    def scan(self, x, env=None, comp=None):
        env = env or {}
        if isinstance(x, _COMPS):
            env = dict(env)
            comp = comp or x
            for g in x.generators:
                self.scan(g.iter, env, comp)
                if isinstance(g.target, ast.Name) and self.keys_coll(g.iter):
                    env[g.target.id] = "str"
                elif isinstance(g.target, (ast.Tuple, ast.List)) and len(g.target.elts) == 2 and isinstance(g.target.elts[0], ast.Name) \
                        and isinstance(g.iter, ast.Call) and isinstance(g.iter.func, ast.Attribute) and g.iter.func.attr == "items" \
                        and self.is_hdr(g.iter.func.value):
                    env[g.target.elts[0].id] = "str"
                else:
                    for n in ast.walk(g.target):
                        if isinstance(n, ast.Name):
                            env.pop(n.id, None)
                for c in g.ifs:
                    self.scan(c, env, comp)
            for part in ([x.key, x.value] if isinstance(x, ast.DictComp) else [x.elt]):
                self.scan(part, env, comp)
            return
        if isinstance(x, ast.Compare) and len(x.ops) == 1:
            l, r, op = x.left, x.comparators[0], x.ops[0]
            if isinstance(op, (ast.Eq, ast.NotEq, ast.Is, ast.IsNot)):
                if self.wanted(l) or self.wanted(r):
                    self.out.append(("eq", x))
            elif isinstance(op, (ast.In, ast.NotIn)):
                t = self.typ(r, env)
                if self.wanted(l, loose=True) and not self.wanted(r):
                    if t == "str":
                        self.out.append(("sub", x, r, comp))      # the reserved name is looked for INSIDE a string
                    elif self.wanted(l):
                        self.out.append(("eq", x) if t == "coll" else ("unk", x))
                elif self.wanted(r, loose=True) and not self.wanted(l):
                    if t == "str":
                        self.out.append(("sub", x, l, comp))      # an entry name is looked for inside the reserved name
                    elif self.wanted(r):
                        self.out.append(("eq", x) if t == "coll" else ("unk", x))
        elif isinstance(x, ast.Call) and isinstance(x.func, ast.Attribute):
            a, recv = x.func.attr, x.func.value
            arg = x.args[0] if x.args else None
            if a in _STR_RELATIONS and arg is not None:
                if self.wanted(arg, loose=True) and not self.wanted(recv):
                    t = self.typ(recv, env)
                    if t == "str" or a in _STR_ONLY_RELATIONS:
                        self.out.append(("sub", x, recv, comp))
                    elif self.wanted(arg):
                        self.out.append(("eq", x) if t == "coll" else ("unk", x))
                elif self.wanted(recv, loose=True) and not self.wanted(arg) and (self.typ(recv, env) == "str" or a in _STR_ONLY_RELATIONS):
                    self.out.append(("sub", x, arg, comp))
            elif a in ("get", "pop", "setdefault") and arg is not None and self.wanted(arg):
                self.out.append(("eq", x))
            elif (dotted_name(x.func) or "").split(".")[0] in ("re", "fnmatch") and any(self.wanted(y, loose=True) for y in x.args):
                self.out.append(("unk", x))
        elif isinstance(x, ast.Subscript) and not isinstance(x.slice, ast.Slice) and self.wanted(x.slice):
            self.out.append(("eq", x))
        for c in ast.iter_child_nodes(x):
            self.scan(c, env, comp)


def _key_base(e):
    """the entry name a string term was made from: k.lower().strip() -> k"""
    while True:
        if isinstance(e, ast.Call) and isinstance(e.func, ast.Attribute) and e.func.attr in _STR_METHODS:
            e = e.func.value
        elif isinstance(e, ast.Subscript) and isinstance(e.slice, ast.Slice):
            e = e.value
        elif isinstance(e, ast.Call) and isinstance(e.func, ast.Name) and e.func.id == "str" and len(e.args) == 1:
            e = e.args[0]
        else:
            return e


def r03_3f(chk, repo, SFile_open):
    """reopened file: count / dtype / delimiter of the handle come from the reserved header entries, selected by name equality"""
    try:
        paths = [st for k, _, st in _PX(repo, stop=("read_header", "close")).run(SFile_open, {}) if k == "return"]
    except _TooBig:
        paths = []
    for name in _RESERVED_ENTRIES:
        neq, bad, loose_ends, line = 0, [], [], None
        for st in paths:
            hdr = {"self._hdr", "self.read_header()"} | {norm(v) for v in st.heap.values()
                                                        if isinstance(v, ast.Call) and call_name(v) == "read_header"}
            kept = []       # the terms this path keeps: stored on the handle or handed to the record-file constructor
            for e in st.events:
                if e["kind"] == "store":
                    kept.append((e["value"], e["line"], e["fn"]))
                elif e["kind"] == "call" and e["name"] == "Recfile":
                    kept.extend((a, e["line"], e["fn"]) for a in list(e["args"]) + [v for k, v in e["kw"].items()])
            kept_text = [norm(v) for v, _, _ in kept if isinstance(v, ast.AST)]
            wit = []
            for v, ln, fn in kept:
                if isinstance(v, ast.AST):
                    ks = _KeySelection(name, hdr)
                    ks.scan(v)
                    wit.extend((w, True, ln, fn) for w in ks.out)
            for _, _, x, w in st.facts:
                if isinstance(x, ast.AST):
                    ks = _KeySelection(name, hdr)
                    ks.scan(x)
                    for wt in ks.out:
                        linked = False
                        if wt[0] == "sub":
                            comp, base = wt[3], _key_base(wt[2])
                            probe = norm(comp) if comp is not None else norm(base)
                            linked = (comp is not None or not isinstance(base, ast.Constant)) and any(probe in t for t in kept_text)
                        wit.append((wt, linked, w[1], w[0]))
            for wt, linked, ln, fn in wit:
                if wt[0] == "eq":
                    neq += 1
                elif wt[0] == "sub":
                    msg = "line %s (%s): `%s` relates the reserved entry name %r to an entry name as strings, not by equality" \
                          % (ln, fn.name, norm(wt[1])[:90], name.upper())
                    if linked:
                        bad.append(msg)
                        line = "%s:%s" % (fn.where().rsplit(":", 1)[0], ln)
                    else:
                        loose_ends.append(msg + " (not seen to select the entry that is kept)")
                else:
                    loose_ends.append("line %s (%s): `%s`: kind of the right-hand operand not recognised" % (ln, fn.name, norm(wt[1])[:90]))
        if bad:
            verdict = False
        elif neq and not any("as strings" in m for m in loose_ends):
            verdict = True
        else:
            verdict = None
        chk.ob("R03.3f", "esutil.sfile.SFile.open::reserved-entry-selected-by-name-equality::%s" % name.upper(), verdict,
               line or SFile_open.where(),
               "%son reopening a file the handle takes its %s from the header entry whose name EQUALS the reserved name %r (a user entry "
               "such as 'psf%s' must never be taken for it): %d equality-type selection(s) on %d path(s)"
               % (("; ".join(sorted(set(bad))[:3]) + " -- rule: ") if bad else
                  (("; ".join(sorted(set(loose_ends))[:3]) + " -- rule: ") if verdict is None and loose_ends else ""),
                  {"_size": "row count (what an append adds to)", "_dtype": "dtype (what a chunk is compared with)",
                   "_delim": "delimiter (text or binary arm)"}[name], name.upper(), name, neq, len(paths)))


# -- R03.3g: the form of a reopened file is a fact of the file ----------------------------------------------------------------
_FORM_SLOTS = ("self._delim", "self._size", "self._dtype", "self._descr")
_FORM_KW = ("delim", "dtype", "nrows", "offset")


def _names_in(e):
    return {x.id for x in ast.walk(e) if isinstance(x, ast.Name)} if isinstance(e, ast.AST) else set()


def r03_3g(chk, repo, SFile_open):
    """reopened file (the header is read from the file): delimiter / dtype / row count kept on the handle and handed to the
    record-file constructor are functions of the stored header alone -- no option of the caller enters them, neither as data
    nor through the branch that selects them.  (An append that reopens a binary file with delim=',' must write binary rows.)"""
    key = "esutil.sfile.SFile.open::reopened-form-from-stored-header"
    try:
        paths = [st for k, _, st in _PX(repo, stop=("read_header", "close")).run(SFile_open, {}) if k == "return"]
    except _TooBig:
        paths = []
    reopen = []
    for st in paths:
        rh = [e for e in st.events if e["kind"] == "call" and e["name"] == "read_header"]
        rf = [e for e in st.events if e["kind"] == "call" and e["name"] == "Recfile"]
        if rh and rf and rf[-1]["nev"] > rh[0]["nev"]:
            reopen.append((st, rf[-1]))
    if not reopen:
        chk.ob("R03.3g", key, None, SFile_open.where(),
               "no path of SFile.open was recognised that reads the stored header and then builds the record-file object")
        return
    # what names the file and the mode is not an option about its form
    naming = set()
    for st, rf in reopen:
        for a in rf["args"][:1] + [rf["kw"].get(k) for k in ("mode", "filename", "fname")]:
            naming |= _names_in(a)
        naming |= _names_in(st.heap.get("self._filename")) | _names_in(st.heap.get("self._mode"))
    opts = {p.lstrip("*") for p in SFile_open.params} | {a.arg for a in SFile_open.node.args.kwonlyargs}
    for extra in (SFile_open.node.args.vararg, SFile_open.node.args.kwarg):
        if extra is not None:
            opts.add(extra.arg)
    opts -= naming | {"self"}
    pat = re.compile(r"(?<![\w.])(%s)(?!\w)" % "|".join(sorted(map(re.escape, opts)))) if opts else None
    bad, line, nslots = [], None, 0
    groups = {}
    for st, rf in reopen:
        slots = [(s, st.heap.get(s), None) for s in _FORM_SLOTS if s in st.heap]
        slots += [("Recfile(%s=)" % k, rf["kw"][k], rf["line"]) for k in _FORM_KW if k in rf["kw"]]
        nslots += len(slots)
        for nm, v, ln in slots:
            used = _names_in(v) & opts
            if used:
                if ln is None:
                    ln = max([e["line"] for e in st.events if e["kind"] == "store" and e["name"] == nm] or [0])
                bad.append("%s of a reopened file is `%s`: it depends on the caller's option %s" % (nm, norm(v)[:80], sorted(used)))
                line = line or ln
        ofacts = [(f[0], f[1], norm(f[2]) if isinstance(f[2], ast.AST) else str(f[2]), f[3]) for f in st.facts
                  if (_names_in(f[2]) & opts if isinstance(f[2], ast.AST) else (pat is not None and pat.search(str(f[2]))))]
        otext = {(f[2], f[1]) for f in ofacts}
        sig = frozenset(x for x in ((norm(f[2]) if isinstance(f[2], ast.AST) else str(f[2]), f[1]) for f in st.facts) if x not in otext)
        val = tuple((nm, norm(v) if isinstance(v, ast.AST) else repr(v)) for nm, v, _ in slots)
        groups.setdefault(sig, []).append((val, ofacts))
    for sig, members in groups.items():
        vals = {v for v, _ in members}
        of = sorted({f[2] for _, fs in members for f in fs})
        if len(vals) > 1 and of:
            lines = sorted({f[3][1] for _, fs in members for f in fs if isinstance(f[3], tuple)})
            diff = sorted({a[0] for v in vals for w in vals for a, b in zip(v, w) if a != b}) if len({len(v) for v in vals}) == 1 else ["form slots"]
            bad.append("%s of a reopened file differ(s) with the outcome of `%s`, a test on a caller option" % (", ".join(diff), "`, `".join(of)[:120]))
            line = line or (lines[0] if lines else None)
    verdict = False if bad else (True if nslots else None)
    chk.ob("R03.3g", key, verdict, ("%s:%s" % (SFile_open.where().rsplit(":", 1)[0], line)) if line else SFile_open.where(),
           "%swhen an existing file is reopened (header read from the file), the delimiter, dtype and row count kept on the handle and "
           "passed to the record-file constructor are determined by the stored header alone, not by options of the call (%d reopen "
           "path(s), %d form term(s), options %s)"
           % (("; ".join(sorted(set(bad))[:3]) + " -- rule: ") if bad else "", len(reopen), nslots, sorted(opts)))


# -- R03.3h: the header written to a new file describes the data by the writer's own word only ------------------------------------
#
# Abstract interpretation of the function that builds the header dict of a new file, for ONE entry name K (a spelling of a
# reserved entry that this module itself stores, i.e. what a header read back from a record file contains) and EVERY user header:
# the state of a dict variable is 'user' (the entry K of the user's header may still be in it), 'clean' (K is absent or was stored
# by the writer) or 'unk'.  Loops over literal tables are unrolled with the loop variable bound to each constant, a loop over the
# keys of the dict is followed for the iteration whose key is K, tests are decided by constant folding where their operands are
# constants and forked otherwise (one decision per atom and path, so `is_text` tested twice is one choice).
class _NoConst(Exception):
    pass


_KF_STR = ("lower", "upper", "strip", "lstrip", "rstrip", "casefold", "startswith", "endswith", "replace", "title", "swapcase",
           "removeprefix", "removesuffix", "isupper", "islower")
_KF_COPY_CALLS = ("dict", "OrderedDict", "deepcopy", "copy")
_KF_KEYS_CALLS = ("list", "tuple", "sorted", "set", "frozenset", "iter", "reversed")
_KF_RO = ("get", "keys", "items", "values", "copy", "__contains__", "__len__")


class _KState:
    __slots__ = ("d", "env", "sym", "dec")

    def __init__(self, d=None, env=None, sym=None, dec=None):
        self.d, self.env, self.sym, self.dec = d or {}, env or {}, sym or {}, dec or {}

    def fork(self):
        return _KState(dict(self.d), dict(self.env), dict(self.sym), dict(self.dec))


class _KeyFate:
    def __init__(self, repo, fi, K, budget=6000, depth=0):
        self.repo, self.fi, self.K, self.depth = repo, fi, K, depth
        self.budget = [budget] if isinstance(budget, int) else budget
        self.exits = []         # (status of the returned dict, state)
        self.consts = {}
        for nm, v in _free_consts(fi).items():
            try:
                self.consts[nm] = ast.literal_eval(v)
            except Exception:
                pass
        self.params = [p.lstrip("*") for p in fi.params if p != "self"]

    # -- constants ----------------------------------------------------------------------------------------------------------
    def keys_of(self, e, st):
        """name of the tracked dict whose keys the expression enumerates"""
        if isinstance(e, ast.Name) and e.id in st.d:
            return e.id
        if isinstance(e, ast.Call) and not e.keywords:
            if isinstance(e.func, ast.Name) and e.func.id in _KF_KEYS_CALLS and len(e.args) == 1:
                return self.keys_of(e.args[0], st)
            if isinstance(e.func, ast.Attribute) and e.func.attr in ("keys", "copy") and not e.args:
                return self.keys_of(e.func.value, st)
        return None

    def cev(self, e, st):
        if isinstance(e, ast.Constant):
            return e.value
        if isinstance(e, ast.Name):
            if e.id in st.env:
                return st.env[e.id]
            if e.id in self.consts and e.id not in st.d and e.id not in st.sym:
                return self.consts[e.id]
            raise _NoConst()
        if isinstance(e, (ast.Tuple, ast.List)):
            return tuple(self.cev(x, st) for x in e.elts)
        if isinstance(e, ast.Set):
            return frozenset(self.cev(x, st) for x in e.elts)
        if isinstance(e, ast.Dict) and all(k is not None for k in e.keys):
            return {self.cev(k, st): None for k in e.keys}        # only membership is ever asked
        if isinstance(e, ast.UnaryOp) and isinstance(e.op, ast.Not):
            return not self.cev(e.operand, st)
        if isinstance(e, ast.BoolOp):
            last = None
            for x in e.values:
                last = self.cev(x, st)
                if bool(last) != isinstance(e.op, ast.And):
                    return last
            return last
        if isinstance(e, ast.IfExp):
            return self.cev(e.body if self.cev(e.test, st) else e.orelse, st)
        if isinstance(e, ast.Subscript) and not isinstance(e.slice, ast.Slice):
            try:
                return self.cev(e.value, st)[self.cev(e.slice, st)]
            except _NoConst:
                raise
            except Exception:
                raise _NoConst()
        if isinstance(e, ast.Compare) and len(e.ops) == 1:
            op, l, r = e.ops[0], e.left, e.comparators[0]
            if isinstance(op, (ast.In, ast.NotIn)):
                dn = self.keys_of(r, st)
                if dn is not None:
                    if self.cev(l, st) == self.K and st.d[dn] == "user":
                        return isinstance(op, ast.In)       # the case under study: the user's header has the entry K
                    raise _NoConst()
            f = _CMP.get(type(op))
            if f is None:
                raise _NoConst()
            try:
                return f(self.cev(l, st), self.cev(r, st))
            except _NoConst:
                raise
            except Exception:
                raise _NoConst()
        if isinstance(e, ast.Call) and not e.keywords:
            if isinstance(e.func, ast.Attribute) and e.func.attr in _KF_STR:
                recv = self.cev(e.func.value, st)
                if isinstance(recv, str):
                    try:
                        return getattr(recv, e.func.attr)(*[self.cev(a, st) for a in e.args])
                    except _NoConst:
                        raise
                    except Exception:
                        raise _NoConst()
            if isinstance(e.func, ast.Name) and e.func.id in ("str", "len", "tuple", "list", "set", "frozenset", "sorted") and len(e.args) == 1:
                v = self.cev(e.args[0], st)
                try:
                    return {"str": str, "len": len, "tuple": tuple, "list": tuple, "set": frozenset, "frozenset": frozenset,
                            "sorted": lambda x: tuple(sorted(x))}[e.func.id](v)
                except Exception:
                    raise _NoConst()
        raise _NoConst()

    # -- tests --------------------------------------------------------------------------------------------------------------
    def decide(self, e, st):
        """[(outcome, state)]"""
        self.budget[0] -= 1
        if self.budget[0] < 0:
            raise _TooBig()
        if isinstance(e, ast.UnaryOp) and isinstance(e.op, ast.Not):
            return [(not o, s) for o, s in self.decide(e.operand, st)]
        if isinstance(e, ast.BoolOp):
            is_and = isinstance(e.op, ast.And)
            live, out = [st], []
            for x in e.values:
                nxt = []
                for s in live:
                    for o, s2 in self.decide(x, s):
                        if o != is_and:
                            out.append((o, s2))     # short circuit
                        else:
                            nxt.append(s2)
                live = nxt
            return out + [(is_and, s) for s in live]
        try:
            return [(bool(self.cev(e, st)), st)]
        except _NoConst:
            pass
        if isinstance(e, ast.Name) and e.id in st.sym:
            return self.decide(st.sym[e.id], st)
        pol = True
        if isinstance(e, ast.Compare) and len(e.ops) == 1 and isinstance(e.ops[0], (ast.IsNot, ast.NotEq, ast.NotIn)):
            flip = {ast.IsNot: ast.Is, ast.NotEq: ast.Eq, ast.NotIn: ast.In}[type(e.ops[0])]
            e = ast.Compare(left=e.left, ops=[flip()], comparators=e.comparators)
            pol = False
        known = {k: ast.Constant(value=v) for k, v in st.env.items() if isinstance(v, (str, int, bool, type(None)))}
        known.update(st.sym)
        key = norm(_Sub(known, {}).visit(copy.deepcopy(e)))
        if key in st.dec:
            return [(st.dec[key] == pol, st)]
        if isinstance(e, ast.Compare) and isinstance(e.ops[0], ast.In) and self.keys_of(e.comparators[0], st) is not None:
            # whether some OTHER entry is in the user's header: both ways, nothing to remember (the dict changes under the loop)
            return [(True, st), (False, st)]
        out = []
        for o in (True, False):
            s = st.fork()
            s.dec[key] = o
            out.append((o == pol, s))
        return out

    # -- values -------------------------------------------------------------------------------------------------------------
    def mentions(self, e, st):
        ns = _names_in(e)
        return bool(ns & (set(st.d) | set(self.params)))

    def origin(self, e, st):
        """status of the dict an expression evaluates to, or None when it is not a dict we follow"""
        if isinstance(e, ast.Name):
            if e.id in st.d:
                return st.d[e.id]
            return None
        if isinstance(e, ast.Dict):
            if not e.keys:
                return "clean"
            st_ = "clean"
            for k, v in zip(e.keys, e.values):
                if k is None:
                    o = self.origin(v, st) or ("user" if isinstance(v, ast.Name) and v.id in self.params else "unk")
                    st_ = o if st_ == "clean" or o == "user" else st_
                else:
                    try:
                        if self.cev(k, st) == self.K:
                            st_ = "clean"
                    except _NoConst:
                        pass
            return st_
        if isinstance(e, ast.IfExp):
            return "fork"
        if isinstance(e, ast.Call):
            f = e.func
            nm = f.id if isinstance(f, ast.Name) else (f.attr if isinstance(f, ast.Attribute) else None)
            if nm in ("dict", "OrderedDict") and not e.args and not e.keywords:
                return "clean"
            src = None
            if nm in _KF_COPY_CALLS and len(e.args) == 1 and (isinstance(f, ast.Name) or nm in ("deepcopy", "copy") and
                                                              isinstance(f.value, ast.Name) and f.value.id == "copy"):
                src = e.args[0]
            elif nm == "copy" and isinstance(f, ast.Attribute) and not e.args:
                src = f.value
            if src is not None:
                o = self.origin(src, st)
                if o is None and isinstance(src, ast.Name) and src.id in self.params:
                    o = "user"
                if o is None:
                    return "unk" if self.mentions(src, st) else None
                if any(k.arg == self.K for k in e.keywords):
                    o = "clean"
                elif any(k.arg is None for k in e.keywords) and o != "clean":
                    o = "unk"
                return o
        if isinstance(e, ast.DictComp) and len(e.generators) == 1:
            g = e.generators[0]
            it, kv = g.iter, None
            if isinstance(it, ast.Call) and isinstance(it.func, ast.Attribute) and it.func.attr == "items" and not it.args \
                    and isinstance(g.target, (ast.Tuple, ast.List)) and len(g.target.elts) == 2 and isinstance(g.target.elts[0], ast.Name):
                src, kv = it.func.value, g.target.elts[0].id
            elif isinstance(g.target, ast.Name):
                src, kv = it, g.target.id
                if isinstance(src, ast.Call) and not (isinstance(src.func, ast.Attribute) and src.func.attr == "keys"
                                                       or isinstance(src.func, ast.Name) and src.func.id in _KF_KEYS_CALLS):
                    return "unk" if self.mentions(e, st) else None
                while isinstance(src, ast.Call):
                    src = src.func.value if isinstance(src.func, ast.Attribute) else (src.args[0] if len(src.args) == 1 else ast.Constant(value=None))
            else:
                return "unk" if self.mentions(e, st) else None
            o = self.origin(src, st)
            if o is None and isinstance(src, ast.Name) and src.id in self.params:
                o = "user"
            if o is None:
                return "unk" if self.mentions(e, st) else None
            if o != "user":
                return o
            if not (isinstance(e.key, ast.Name) and e.key.id == kv):
                return "unk"
            s = st.fork()
            s.env[kv] = self.K
            try:
                keep = all(bool(self.cev(c, s)) for c in g.ifs)
            except _NoConst:
                return "unk"
            return "user" if keep else "clean"
        return "unk" if self.mentions(e, st) else None

    # -- helper calls -------------------------------------------------------------------------------------------------------
    def helper(self, call, st):
        """(status of the value the call returns, {argument name: status after the call}) or None when the callee is not followed"""
        if self.depth >= 3:
            return None
        callee = _PX(self.repo).resolve(self.fi, call)
        if callee is None or rules.is_generator(callee.node) or any(isinstance(a, ast.Starred) for a in call.args) \
                or any(k.arg is None for k in call.keywords):
            return None
        ps = [p for p in callee.params if not p.startswith("*")]
        if callee.cls and ps and isinstance(call.func, ast.Attribute):
            ps = ps[1:]
        bound = dict(zip(ps, call.args))
        bound.update({k.arg: k.value for k in call.keywords if k.arg in ps})
        sub = _KeyFate(self.repo, callee, self.K, self.budget, self.depth + 1)
        s0 = _KState()
        back = {}
        for p, a in bound.items():
            o = self.origin(a, st)
            if o is None and isinstance(a, ast.Name) and a.id in self.params:
                o = "user"
            if o == "fork":
                return None
            if o is not None:
                s0.d[p] = o
                if isinstance(a, ast.Name) and a.id in st.d:
                    back[p] = a.id
            else:
                try:
                    s0.env[p] = self.cev(a, st)
                except _NoConst:
                    pass
        if not s0.d:
            return None
        rebinds = {t.id for x in ast.walk(callee.node) if isinstance(x, (ast.Assign, ast.AugAssign, ast.AnnAssign, ast.For))
                   for t in ast.walk(x.targets[0] if isinstance(x, ast.Assign) else x.target)
                   if isinstance(t, ast.Name)}
        sub.run(s0)
        if not sub.exits:
            return None
        rets = {r for r, _ in sub.exits}
        ret = _kjoin(rets)
        after = {}
        for p, a in back.items():
            after[a] = "unk" if p in rebinds else _kjoin({s.d.get(p, "unk") for _, s in sub.exits})
        return ret, after

    # -- statements ---------------------------------------------------------------------------------------------------------
    def run(self, st=None):
        st = st or _KState()
        for s, flow in self.block(self.fi.node.body, [st]):
            if flow is None:
                self.exits.append((None, s))
        return self.exits

    def block(self, stmts, states):
        """[(state, flow)] flow None | 'break' | 'continue' (returns are recorded, raises dropped)"""
        live, done = list(states), []
        for a in stmts:
            nxt = []
            for s in live:
                for s2, flow in self.step(a, s):
                    (nxt if flow is None else done).append((s2, flow))
            live, sigs = [], set()
            for s, _ in nxt:
                sig = (tuple(sorted(s.d.items())), repr(sorted(s.env.items(), key=lambda kv: kv[0])), tuple(sorted(s.dec.items())),
                       tuple(sorted((k, norm(v)) for k, v in s.sym.items())))
                if sig not in sigs:
                    sigs.add(sig)
                    live.append(s)
            if not live:
                break
        return [(s, None) for s in live] + done

    def kill(self, node, st):
        for n in _names_in(node) & set(st.d):
            st.d[n] = "unk" if st.d[n] != "clean" or True else st.d[n]

    def bind(self, t, st, val=_NoConst):
        for x in ast.walk(t):
            if isinstance(x, ast.Name):
                st.env.pop(x.id, None)
                st.sym.pop(x.id, None)
                st.d.pop(x.id, None)
        if val is not _NoConst:
            if isinstance(t, ast.Name):
                st.env[t.id] = val
            elif isinstance(t, (ast.Tuple, ast.List)) and isinstance(val, tuple) and len(val) == len(t.elts):
                for tt, v in zip(t.elts, val):
                    if isinstance(tt, ast.Name):
                        st.env[tt.id] = v

    def remove(self, dn, keyexpr, st):
        try:
            if self.cev(keyexpr, st) == self.K:
                st.d[dn] = "clean"
        except _NoConst:
            if st.d[dn] == "user":
                st.d[dn] = "unk"

    def call_effect(self, c, st):
        """effect of evaluating the call `c` (an expression statement, or the right-hand side of an assignment) on the dicts"""
        f = c.func
        if isinstance(f, ast.Attribute) and isinstance(f.value, ast.Name) and f.value.id in st.d:
            dn, m = f.value.id, f.attr
            if m in ("pop",) and c.args:
                self.remove(dn, c.args[0], st)
            elif m == "clear":
                st.d[dn] = "clean"
            elif m == "update":
                if any(k.arg == self.K for k in c.keywords):
                    st.d[dn] = "clean"
                for a in c.args:
                    o = self.origin(a, st)
                    if o is None and isinstance(a, ast.Name) and a.id in self.params:
                        o = "user"
                    if o == "user":
                        st.d[dn] = "user"
                    elif o in ("unk", "fork") and st.d[dn] == "clean":
                        st.d[dn] = "unk"
            elif m == "setdefault" or m in _KF_RO:
                pass
            else:
                st.d[dn] = "unk"
            return None
        if any(isinstance(a, ast.Name) and a.id in st.d for a in list(c.args) + [k.value for k in c.keywords]):
            res = self.helper(c, st)
            if res is None:
                for a in list(c.args) + [k.value for k in c.keywords]:
                    if isinstance(a, ast.Name) and a.id in st.d and not (isinstance(f, ast.Name) and f.id in _KF_COPY_CALLS + _KF_KEYS_CALLS + ("len", "print", "isinstance", "repr", "str", "bool"))\
                            and not (isinstance(f, ast.Attribute) and f.attr in ("pformat", "deepcopy", "copy", "dumps", "debug", "info")):
                        st.d[a.id] = "unk"
                return None
            ret, after = res
            st.d.update(after)
            return ret
        return None

    def step(self, a, st):
        self.budget[0] -= 1
        if self.budget[0] < 0:
            raise _TooBig()
        st = st.fork()
        if isinstance(a, (ast.Assign, ast.AnnAssign)):
            if a.value is None:
                return [(st, None)]
            targets = a.targets if isinstance(a, ast.Assign) else [a.target]
            if len(targets) == 1 and isinstance(targets[0], ast.Name):
                nm = targets[0].id
                o = self.origin(a.value, st)
                if o == "fork":
                    out = []
                    for oc, s in self.decide(a.value.test, st):
                        arm = a.value.body if oc else a.value.orelse
                        out.extend(self.step(ast.Assign(targets=targets, value=arm), s))
                    return out
                if isinstance(a.value, ast.Call) and (o in (None, "unk")):
                    r = self.call_effect(a.value, st)
                    if r is not None:
                        o = r
                if o is None and isinstance(a.value, ast.Name) and a.value.id in self.params and any(
                        isinstance(x, (ast.Subscript, ast.Attribute)) and isinstance(x.value, ast.Name) and x.value.id == nm
                        for x in ast.walk(self.fi.node)):
                    o = "user"          # an alias of the user's header that is then used as the dict
                self.bind(targets[0], st)
                if o is not None:
                    st.d[nm] = o
                else:
                    try:
                        st.env[nm] = self.cev(a.value, st)
                    except _NoConst:
                        if not any(isinstance(x, (ast.Call, ast.Lambda) + _COMPS) for x in ast.walk(a.value)) or isinstance(a.value, (ast.Compare, ast.BoolOp, ast.UnaryOp)):
                            st.sym[nm] = _Sub(dict(st.sym), {}).visit(copy.deepcopy(a.value))
                return [(st, None)]
            for t in targets:
                if isinstance(t, ast.Subscript) and isinstance(t.value, ast.Name) and t.value.id in st.d:
                    try:
                        if self.cev(t.slice, st) == self.K:
                            st.d[t.value.id] = "clean"
                    except _NoConst:
                        pass
                else:
                    self.bind(t, st)
            return [(st, None)]
        if isinstance(a, ast.AugAssign):
            self.bind(a.target, st) if isinstance(a.target, ast.Name) else None
            return [(st, None)]
        if isinstance(a, ast.Delete):
            for t in a.targets:
                if isinstance(t, ast.Subscript) and isinstance(t.value, ast.Name) and t.value.id in st.d:
                    self.remove(t.value.id, t.slice, st)
                elif isinstance(t, ast.Name):
                    self.bind(t, st)
            return [(st, None)]
        if isinstance(a, ast.Expr):
            if isinstance(a.value, ast.Call):
                self.call_effect(a.value, st)
            return [(st, None)]
        if isinstance(a, ast.If):
            out = []
            for oc, s in self.decide(a.test, st):
                out.extend(self.block(a.body if oc else a.orelse, [s]))
            return out
        if isinstance(a, ast.For):
            return self.loop(a, st)
        if isinstance(a, ast.While):
            self.kill(a, st)
            return [(st, None)]
        if isinstance(a, ast.Return):
            if a.value is None:
                self.exits.append((None, st))
            else:
                o = self.origin(a.value, st)
                if o == "fork":
                    for oc, s in self.decide(a.value.test, st):
                        self.step(ast.Return(value=a.value.body if oc else a.value.orelse), s)
                else:
                    self.exits.append((o, st))
            return []
        if isinstance(a, ast.Raise):
            return []
        if isinstance(a, (ast.Break, ast.Continue)):
            return [(st, "break" if isinstance(a, ast.Break) else "continue")]
        if isinstance(a, ast.With):
            for it in a.items:
                if it.optional_vars is not None:
                    self.bind(it.optional_vars, st)
            return self.block(a.body, [st])
        if isinstance(a, ast.Try):
            out = self.block(a.body, [st])
            res = []
            for s, flow in out:
                if flow is None and a.orelse:
                    res.extend(self.block(a.orelse, [s]))
                else:
                    res.append((s, flow))
            for h in a.handlers:
                s = st.fork()
                self.kill(ast.Module(body=a.body, type_ignores=[]), s)
                if h.name:
                    s.env.pop(h.name, None)
                res.extend(self.block(h.body, [s]))
            if a.finalbody:
                fin = []
                for s, flow in res:
                    for s2, f2 in self.block(a.finalbody, [s]):
                        fin.append((s2, f2 or flow))
                res = fin
            return res
        if isinstance(a, (ast.FunctionDef, ast.AsyncFunctionDef, ast.ClassDef)):
            if _names_in(a) & set(st.d):
                self.kill(a, st)
            return [(st, None)]
        return [(st, None)]

    def loop(self, a, st):
        def iterate(values, s0):
            live, out = [s0], []
            for v in values:
                nxt = []
                for s in live:
                    s = s.fork()
                    self.bind(a.target, s, v)
                    for s2, flow in self.block(a.body, [s]):
                        if flow == "break":
                            out.append((s2, None))
                        else:
                            nxt.append(s2)
                live = nxt
            res = list(out)
            for s in live:
                res.extend(self.block(a.orelse, [s]) if a.orelse else [(s, None)])
            return res

        it = a.iter
        dn = self.keys_of(it, st)
        pair = False
        if dn is None and isinstance(it, ast.Call) and isinstance(it.func, ast.Attribute) and it.func.attr == "items" and not it.args:
            dn = self.keys_of(it.func.value, st)
            pair = dn is not None
        if dn is None and isinstance(it, ast.Call) and isinstance(it.func, ast.Name) and it.func.id in _KF_KEYS_CALLS and len(it.args) == 1 \
                and isinstance(it.args[0], ast.Call) and isinstance(it.args[0].func, ast.Attribute) and it.args[0].func.attr == "items":
            dn = self.keys_of(it.args[0].func.value, st)
            pair = dn is not None
        if dn is not None:
            if st.d[dn] != "user":
                s = st.fork()
                self.bind(a.target, s)
                res = self.block(a.body, [s])
                return [(st, None)] + [(s2, None if f in ("break", "continue") else f) for s2, f in res]
            # the iteration whose key is K (it exists: the header under study has the entry)
            if pair:
                if not (isinstance(a.target, (ast.Tuple, ast.List)) and len(a.target.elts) == 2 and isinstance(a.target.elts[0], ast.Name)):
                    self.kill(a, st)
                    return [(st, None)]
                s = st.fork()
                self.bind(a.target, s)
                s.env[a.target.elts[0].id] = self.K
                res = self.block(a.body, [s])
                return [(s2, None if f in ("break", "continue") else f) for s2, f in res]
            return iterate([self.K], st)
        try:
            vals = self.cev(it, st)
            if isinstance(vals, dict):
                vals = tuple(vals)
            if not isinstance(vals, (tuple, frozenset, str)) or len(vals) > 64:
                raise _NoConst()
            return iterate(sorted(vals, key=repr) if isinstance(vals, frozenset) else list(vals), st)
        except _NoConst:
            pass
        s = st.fork()
        self.bind(a.target, s)
        res = self.block(a.body, [s])
        return [(st, None)] + [(s2, None if f in ("break", "continue") else f) for s2, f in res]


def _kjoin(vals):
    vals = set(vals)
    if "user" in vals:
        return "user"
    if vals == {"clean"}:
        return "clean"
    return "unk"


def _reserved_spellings(repo, modname):
    """{spelling: [where]} of the reserved entries this module itself stores into a dict (`d['_DELIM'] = ...`): what a header that
    was read from a record file contains"""
    out = {}
    for q, f in repo.funcs.items():
        if f.module.name != modname:
            continue
        for x in ast.walk(f.node):
            if isinstance(x, ast.Subscript) and isinstance(x.ctx, ast.Store) and isinstance(x.slice, ast.Constant) \
                    and isinstance(x.slice.value, str) and x.slice.value.lower() in _RESERVED_ENTRIES:
                out.setdefault(x.slice.value, []).append((f, x))
    return out


def _stores_unconditionally(f, K):
    return any(isinstance(s, ast.Assign) and any(isinstance(t, ast.Subscript) and isinstance(t.slice, ast.Constant) and t.slice.value == K
                                                for t in s.targets) for s in f.node.body)


def r03_3h(chk, repo, SFile_write, SFile_open):
    """new file: every reserved entry of the written header is the writer's (set from the handle's own state) or absent; none is
    inherited from the user's header (which may be a header read from another record file, of the other form)"""
    mod = SFile_write.module.name
    spell = _reserved_spellings(repo, mod)
    # the functions between SFile.write and the header text: reachable through self.* / module calls
    seen, work = {}, [SFile_write]
    while work:
        f = work.pop()
        if f.qualname in seen or len(seen) > 40:
            continue
        seen[f.qualname] = f
        for c in ast.walk(f.node):
            if isinstance(c, ast.Call):
                g = _PX(repo).resolve(f, c)
                if g is not None:
                    work.append(g)
    builders = []
    for f in seen.values():
        user_params = [p for p in f.params if p != "self"]
        if not user_params:
            continue
        stored = {x.value.id for x in ast.walk(f.node) if isinstance(x, ast.Subscript) and isinstance(x.ctx, ast.Store)
                  and isinstance(x.value, ast.Name) and isinstance(x.slice, ast.Constant) and isinstance(x.slice.value, str)
                  and x.slice.value.lower() in _RESERVED_ENTRIES}
        returned = {x.value.id for x in ast.walk(f.node) if isinstance(x, ast.Return) and isinstance(x.value, ast.Name)}
        if stored & returned:
            builders.append(f)
    reader = repo.funcs.get("%s.%s.read_header" % (mod, SFile_open.cls)) if SFile_open.cls else None
    if not builders or not spell:
        chk.ob("R03.3h", "esutil.sfile.SFile::written-header-reserved-entries-are-the-writers", None, SFile_write.where(),
               "no function below SFile.write was recognised that builds the header dict of a new file (stores a reserved entry "
               "into a dict and returns it)")
        return
    for f in builders:
        for K in sorted(spell):
            if reader is not None and _stores_unconditionally(reader, K):
                continue        # whatever the stored dict says, the reader replaces this entry (SIZE line)
            try:
                kf = _KeyFate(repo, f, K)
                exits = [(o, s) for o, s in kf.run() if o is not None]
            except (_TooBig, RecursionError):
                exits = []
            got = {o for o, _ in exits}
            bad = [s for o, s in exits if o == "user"]
            verdict = False if bad else (True if got == {"clean"} else None)
            why = ""
            if bad:
                conds = sorted("%s is %s" % (k, v) for k, v in bad[0].dec.items())
                why = "the entry %r of the user's header survives into the returned dict%s -- rule: " \
                      % (K, (" when " + " and ".join(conds)[:160]) if conds else "")
            chk.ob("R03.3h", "%s::written-header-entry-is-the-writers::%s" % (f.qualname, K), verdict, f.where(),
                   "%sthe header dict built for a new file carries the reserved entry %r only as the writer sets it from the handle's own "
                   "state: on every path an entry of that name in the user's header (e.g. a header read from another record file) is "
                   "removed or overwritten, so the file never describes itself by another file's %s (%d return path(s): %s)"
                   % (why, K, K.strip("_").lower(), len(exits), sorted(map(str, got))))


# ---------------------------------------------------------------------------
# C++ side: what a function does to the data stream, in order (used by R03.4c and R03.5).
#
# events: 'pos:start' (rewind, fseek(fp,0,SEEK_SET)), 'pos:end' (fseek(fp,0,SEEK_END)), 'pos:set' / 'pos:cur' (absolute /
# relative seek to somewhere else), 'pos:unk' (a seek whose arguments are not literal), 'out' (bytes written to the stream),
# 'out:fmt' (the bytes of a printf format written: directly, or through a buffer filled by snprintf/sprintf).  A call to a
# function whose body is available (methods of the class, file-local helpers: looked up on demand) contributes the event
# sequences of its own normal-exit paths, so `goto_end()` / `seek_to_end(fp)` is a seek to the end and `fputs(buf, fp)`
# after `snprintf(buf, n, fmt, ...)` is the formatted line.  Sequences are kept as sets per CFG node (consecutive repeats
# collapsed), so loops and switches do not multiply paths.
# ---------------------------------------------------------------------------
POS_PRIMS = ("rewind", "fseek", "fseeko", "myfseeko", "fseeko64", "_fseeki64", "fsetpos")
OUT_PRIMS = ("fwrite", "fprintf", "fputc", "fputs", "putc", "vfprintf")
FMT_PRIMS = ("snprintf", "sprintf", "vsnprintf")
OUTPUT_PRIMS = ("fwrite", "fprintf", "fputc", "fputs", "putc")     # for the who-may-write call-graph rule


class _CEff:
    def __init__(self, cfun, tu="records"):
        self.cfun = cfun
        self.tu = tu
        self.memo = {}
        self.extra = {}
        self.busy = set()
        self._src = None
        self.partial = {}
        self.touched = set()
        self.track = set()      # printf formats whose output is told apart from other output ('out:fmt:<format>')

    # -- bodies of functions that the class filter of the TU dump leaves out (file-local helpers) ---------------------
    def lookup(self, name):
        if not name:
            return None
        if name in self.cfun:
            return self.cfun[name]
        if name not in self.extra:
            self.extra[name] = self._load(name) if self._defined_in_source(name) else None
        return self.extra[name]

    def _defined_in_source(self, name):
        if self._src is None:
            from vcheck.core import REPO
            spec = cfront.TUS[self.tu]
            txt = []
            paths = [os.path.join(REPO, spec["path"])]
            d = os.path.dirname(paths[0])
            paths += [os.path.join(d, f) for f in sorted(os.listdir(d)) if f.endswith((".h", ".hpp"))] if os.path.isdir(d) else []
            for p in paths:
                try:
                    txt.append(open(p, encoding="utf-8", errors="replace").read())
                except OSError:
                    pass
            self._src = "\n".join(txt)
        return re.search(r"(?m)^[^\n;(){}=]*\b%s\s*\([^;{}]*\)\s*(?:const\s*)?\{" % re.escape(name), self._src) is not None

    def load_decls(self, name):
        """top-level declarations of the TU whose name matches `name` (file-scope constants, local helpers), [] when the dump fails"""
        if not hasattr(self, "_decl_cache"):
            self._decl_cache = {}
        if name not in self._decl_cache:
            key = "%s@%s" % (self.tu, name)
            cfront.TUS[key] = dict(cfront.TUS[self.tu], filt=name)
            try:
                self._decl_cache[name] = cfront.load_tu(key, _raw=True)
            except AnalysisError:
                self._decl_cache[name] = None
            finally:
                cfront.TUS.pop(key, None)
        return self._decl_cache[name]

    def _load(self, name):
        decls = self.load_decls(name)
        if decls is None:
            return None
        d = cfront.functions(decls).get(name)
        return d if d is not None and cfront.has_body(d) else None

    # -- events -----------------------------------------------------------------------------------------------------------
    @staticmethod
    def _lit(a):
        sa = cfront.strip(a)
        return _cstr(sa.get("value")) if sa.get("kind") == "StringLiteral" else None

    def call_events(self, c, fmtbufs):
        """set of event tuples a call contributes"""
        nm = cfront.callee_name(c)
        args = cfront.call_args(c)
        r = [cfront.render(a) for a in args]
        if nm == "rewind":
            return {("pos:start",)}
        if nm in POS_PRIMS:
            if len(r) >= 3 and r[1] == "0" and r[2] == "2":
                return {("pos:end",)}
            if len(r) >= 3 and r[1] == "0" and r[2] == "0":
                return {("pos:start",)}
            if len(r) >= 3 and r[2] in ("0", "1", "2"):
                return {("pos:set" if r[2] == "0" else "pos:cur" if r[2] == "1" else "pos:set",)}
            return {("pos:unk",)}
        if nm in OUT_PRIMS:
            stream = r[0] if nm in ("fprintf", "vfprintf") else (r[-1] if r else "")
            if stream in ("stderr", "stdout"):
                return {()}
            if nm in ("fprintf", "vfprintf"):
                lits = [self._lit(a) for a in args[1:2]]
                if lits and lits[0] in self.track:
                    return {("out:fmt:" + lits[0],)}
                if lits and lits[0] == "%s" and len(r) > 2 and fmtbufs.get(r[2]) in self.track:
                    return {("out:fmt:" + fmtbufs[r[2]],)}
            elif r and fmtbufs.get(r[0]) in self.track:
                return {("out:fmt:" + fmtbufs[r[0]],)}
            return {("out",)}
        if nm in FMT_PRIMS:
            return {()}
        d = self.lookup(nm)
        if d is not None:
            return self.summary(nm, d)
        return {()}

    def fmt_buffers(self, decl):
        """{buffer expression: format literal} for snprintf/sprintf calls of a function"""
        out = {}
        for c in cfront.calls_in(decl):
            if cfront.callee_name(c) in FMT_PRIMS:
                args = cfront.call_args(c)
                lits = [self._lit(a) for a in args[1:]]
                lits = [l for l in lits if l is not None]
                if args and lits:
                    out[cfront.render(args[0])] = lits[0]
        return out

    @staticmethod
    def _cat(seq, ev):
        for e in ev:
            if not seq or seq[-1] != e:
                seq = seq + (e,)
        if len(seq) > 12:
            seq = seq[:4] + ("...",) + seq[-7:]
        return seq

    def node_events(self, n, fmtbufs):
        """set of event tuples of one CFG node (its calls, innermost first)"""
        seqs = {()}
        for c in reversed(cfront.node_calls(n)):
            evs = self.call_events(c, fmtbufs)
            seqs = {self._cat(s, e) for s in seqs for e in evs}
        return seqs

    def flow(self, decl):
        """(ccfg, IN): IN[node id] = set of event sequences on the ways from entry to just before the node"""
        ccfg = cfront.CCFG(decl)
        fmtbufs = self.fmt_buffers(decl)
        IN = {n.id: set() for n in ccfg.nodes}
        IN[ccfg.entry.id] = {()}
        nev = {n.id: self.node_events(n, fmtbufs) for n in ccfg.nodes}
        work = [ccfg.entry.id]
        while work:
            i = work.pop()
            outs = {self._cat(s, e) for s in IN[i] for e in nev[i]}
            if len(outs) > 400:
                raise _TooBig()
            for j in ccfg.g.successors(i):
                if not outs <= IN[j]:
                    IN[j] |= outs
                    work.append(j)
        return ccfg, IN, nev

    def summary(self, name, decl):
        """event sequences of the normal-exit paths of a function (recursive functions: iterated from 'no events' until stable)"""
        key = id(decl)
        if key in self.memo:
            return self.memo[key]
        if key in self.busy:
            self.touched.add(key)
            return self.partial.get(key, {()})
        self.busy.add(key)
        try:
            for _ in range(6):
                self.touched.discard(key)
                ccfg, IN, _nev = self.flow(decl)
                res = set(IN[ccfg.exit.id]) or {()}
                if key not in self.touched or res == self.partial.get(key):
                    break
                self.partial[key] = res
        finally:
            self.busy.discard(key)
            self.partial.pop(key, None)
        if not (self.touched & self.busy):
            self.memo[key] = res        # nothing it depends on is still being iterated
        self.touched.discard(key)
        return res


def _brace_to_printf(fmt):
    """printf spelling of a str.format template whose fields are plain decimal integers with a width, else None"""
    out = []
    try:
        parts = list(string.Formatter().parse(fmt))
    except ValueError:
        return None
    for lit, field, spec, conv in parts:
        out.append(lit.replace("%", "%%"))
        if field is None:
            continue
        m = re.match(r"^(?:( )?([<>]))?(0)?(\d+)?([dn]?)$", spec or "")
        if conv or m is None:
            return None
        out.append("%" + ("-" if m.group(2) == "<" else "") + (m.group(3) or "") + (m.group(4) or "") + "d")
    return "".join(out)


def _py_printf(v):
    """the printf-style format an expression formats one integer with: '...%20d' % n, '...{:20d}'.format(n), f'...{n:20d}'"""
    if isinstance(v, ast.BinOp) and isinstance(v.op, ast.Mod) and isinstance(v.left, ast.Constant) and isinstance(v.left.value, str):
        return v.left.value
    if isinstance(v, ast.Call) and isinstance(v.func, ast.Attribute) and v.func.attr == "format" \
            and isinstance(v.func.value, ast.Constant) and isinstance(v.func.value.value, str) and len(v.args) + len(v.keywords) == 1:
        return _brace_to_printf(v.func.value.value)
    if isinstance(v, ast.JoinedStr):
        t = ""
        for x in v.values:
            if isinstance(x, ast.Constant):
                t += str(x.value).replace("{", "{{").replace("}", "}}")
            elif isinstance(x, ast.FormattedValue) and x.conversion == -1:
                spec = "".join(y.value for y in x.format_spec.values if isinstance(y, ast.Constant)) if x.format_spec is not None else ""
                if x.format_spec is not None and not all(isinstance(y, ast.Constant) for y in x.format_spec.values):
                    return None
                t += "{:%s}" % spec
            else:
                return None
        return _brace_to_printf(t)
    return None


def r03_4(chk, repo, cfun, ceff, first_fmts=()):
    """SIZE line: python writer vs C++ in-place updater; rewind -> fprintf -> fseek(END)"""
    gs = repo.func("esutil.sfile.SFile._get_size_string")
    chk.analysed_unit(gs.qualname)
    try:
        rets = [v for k, v, _ in _PX(repo).run(gs, {}) if k == "return"]
    except _TooBig:
        rets = []
    pyfmts = {_py_printf(v) for v in rets}
    if first_fmts:
        pyfmts = set(first_fmts)       # the line of a new file is formatted by _write_header itself: that is the format that counts
    pyfmt = next(iter(pyfmts)) if len(pyfmts) == 1 else None
    urc = cfun["Records::update_row_count"]
    # the format of the line the C++ updater writes: the literal of the fprintf / snprintf that takes the row count
    cfmts = set()
    cfmt_at = {}        # format literal -> (call, index of the format argument)
    for c in cfront.calls_in(urc):
        if cfront.callee_name(c) in ("fprintf",) + FMT_PRIMS:
            for i, a in enumerate(cfront.call_args(c)):
                l = _CEff._lit(a)
                if l is not None and printf_directives(l)["directives"] and l != "%s":
                    cfmts.add(l)
                    cfmt_at[l] = (c, i)
    cfmt = next(iter(cfmts)) if len(cfmts) == 1 else None
    chk.ob("R03.4a", "size-line::formats-found", True if (pyfmt is not None and cfmt is not None) else None, gs.where(),
           "python SIZE format %r, C++ SIZE format %r%s" % (pyfmt, cfmt, "" if pyfmt is not None and cfmt is not None else
                                                           " -- not recognised (python returns: %s)" % [norm(v) for v in rets]))
    if pyfmt is not None and cfmt is not None:
        pd = printf_directives(pyfmt)
        cd = printf_directives(cfmt)
        same_prefix = pd["literal_prefix"] == cd["literal_prefix"]
        chk.ob("R03.4b", "size-line::same-literal-prefix", same_prefix, gs.where(),
               "literal text before the number agrees (%r vs %r): the in-place update must overwrite exactly the original line"
               % (pd["literal_prefix"], cd["literal_prefix"]))
        wp = pd["directives"][0]["width"] if pd["directives"] else None
        wc = cd["directives"][0]["width"] if cd["directives"] else None
        # a width given as an argument (`%*ld`, width): the field is as wide as the constant that argument evaluates to on every
        # way of reaching the call (a literal, a macro, a named constant); a negative one means left-justified in |width|
        star_c = bool(cd["directives"]) and cd["directives"][0]["suppress"] and wc is None
        star_p = bool(pd["directives"]) and pd["directives"][0]["suppress"] and wp is None
        unknown_width = star_p
        if star_c:
            call, fi_ = cfmt_at[cfmt]
            v = _c_arg_constant(ceff, urc, call, fi_ + 1)
            if isinstance(v, int) and not isinstance(v, bool):
                wc = abs(v)
                if v < 0 and "-" not in cd["directives"][0]["flags"]:
                    cd["directives"][0]["flags"] += "-"
            else:
                unknown_width = True
        wtxt = "%s%s" % (wc, " (the constant value of the `*` width argument)" if star_c and wc is not None else "")
        chk.ob("R03.4b", "size-line::same-field-width", None if unknown_width else (wp is not None and wp == wc), gs.where(),
               "field widths agree (python %s, C++ %s)%s" % (wp, wtxt, " -- a `*` width whose argument is not a recognised constant"
                                                              if unknown_width else ""))
        chk.ob("R03.4b", "size-line::width-holds-int64", None if unknown_width else ((wp or 0) >= 20 and (wc or 0) >= 20), gs.where(),
               "width >= 20 holds any 64-bit count without growing the line")
        okconv = bool(pd["directives"]) and bool(cd["directives"]) and pd["directives"][0]["conv"] in "di" and cd["directives"][0]["conv"] in "di" \
            and cd["directives"][0]["length"] in ("l", "ll") and pd["directives"][0]["flags"] == cd["directives"][0]["flags"]
        chk.ob("R03.4b", "size-line::decimal-long", okconv, "esutil/recfile/records.cpp",
               "both use a decimal conversion and the C++ length modifier matches the `long` argument")
        chk.ob("R03.4b", "size-line::one-line", cfmt.endswith("\n") and cfmt.count("\n") == 1 and "\n" not in pyfmt, "esutil/recfile/records.cpp",
               "C++ format ends the line (python joins lines with a newline)")
    # the updater: the SIZE line is written at the very start of the file, and every normal exit leaves the stream at its end
    ceff.track = {cfmt} if cfmt is not None else set()
    try:
        seqs = sorted(ceff.summary("update_row_count", urc))
    except _TooBig:
        seqs = None
    ok, why = _size_rewrite_ok(seqs, cfmt)
    chk.ob("R03.4c", "Records::update_row_count::rewind-print-seekend", ok, "esutil/recfile/records.cpp:%s" % urc.get("line", 0),
           "update_row_count: rewind, rewrite the SIZE line, then seek back to the end: %s (stream events on the normal exits: %s)"
           % (why, [list(_short(s)) for s in seqs] if seqs is not None else "too many"))
    # write_header_and_update_offset: ftell after fprintf
    who = cfun["Records::write_header_and_update_offset"]
    order = []
    tells = ("ftell", "ftello", "ftello64", "_ftelli64", "fgetpos")
    try:
        fmtbufs_w = ceff.fmt_buffers(who)
        for n in cfront.CCFG(who).nodes:
            if n.c is None:
                continue
            for x in cfront.walk(n.c):
                if x.get("kind") in ("CallExpr", "CXXMemberCallExpr"):
                    nm = cfront.callee_name(x)
                    if nm in tells:
                        order.append("ftell")
                    elif nm in ("fprintf", "fputs", "fwrite"):
                        order.append(nm)
                    elif nm and any(e.startswith("out") for s_ in ceff.call_events(x, fmtbufs_w) for e in s_):
                        order.append(nm)        # another output primitive, or a helper that writes to the stream
    except _TooBig:
        order = []
    writes = [i for i, nm in enumerate(order) if nm != "ftell"]
    ok = "ftell" in order and bool(writes) and order.index("ftell") > min(writes)
    chk.ob("R03.4d", "Records::write_header_and_update_offset::offset-after-header", ok, "esutil/recfile/records.cpp",
           "the data offset is taken (ftell) after the header text has been written (call order %s)" % order)
    _header_text_verbatim(chk, cfun, ceff)


# -- R03.4e: the header text given by the caller reaches the file as it is -------------------------------------------------------
# "The user header given at creation is retained unchanged": the text handed to Records::write_header_and_update_offset must be
# written byte for byte.  Followed as a value through the function (and the helpers it hands the text to): the text may reach an
# output primitive only as DATA -- the operand of a plain `%s` of a constant format, of fputs / fputc / fwrite -- never as the
# format of a printf-family call (every '%' in it would be interpreted), and never through a `%.Ns` that cuts it.
_C_TEXT_TYPE = re.compile(r"char|string|PyObject|void \*|stream|auto|^$")
_C_NOT_TEXT_METHODS = ("size", "length", "empty", "compare", "find", "rfind", "capacity", "max_size", "find_first_of", "find_last_of")
_C_STORE_METHODS = ("append", "assign", "insert", "push_back", "replace", "write", "str", "operator=", "operator+=", "operator<<")
_C_COPY_PRIMS = ("strcpy", "strncpy", "strcat", "strncat", "memcpy", "memmove", "stpcpy", "strlcpy", "strlcat")


def _c_texty(n):
    return bool(_C_TEXT_TYPE.search(str(n.get("type", {}).get("qualType", ""))))


def _c_inner(n):
    kids = _c_kids(n)
    return kids[-1 if n.get("kind") == "CXXFunctionalCastExpr" else 0] if kids else None


def _c_lkey(n):
    """('l', local) / ('m', member of this) that an expression designates or points into, else None"""
    while isinstance(n, dict):
        k = n.get("kind")
        if k in _C_WRAPPERS and _c_kids(n):
            n = _c_inner(n)
        elif k in ("ArraySubscriptExpr",) and _c_kids(n):
            n = _c_kids(n)[0]
        elif k == "UnaryOperator" and n.get("opcode") in ("&", "*") and _c_kids(n):
            n = _c_kids(n)[0]
        elif k == "CXXOperatorCallExpr" and cfront.callee_name(n) == "operator[]" and len(_c_kids(n)) >= 2:
            n = _c_kids(n)[1]
        elif k == "CXXMemberCallExpr" and _c_kids(n) and cfront.strip(_c_kids(n)[0]).get("kind") == "MemberExpr" \
                and cfront.strip(_c_kids(n)[0]).get("name") in ("c_str", "data", "begin", "str"):
            n = _c_inner(cfront.strip(_c_kids(n)[0]))
        else:
            break
    if not isinstance(n, dict):
        return None
    if n.get("kind") == "DeclRefExpr" and n.get("referencedDecl", {}).get("kind") in ("VarDecl", "ParmVarDecl"):
        return ("l", n["referencedDecl"].get("name"))
    if n.get("kind") == "MemberExpr" and _c_kids(n) and cfront.strip(_c_kids(n)[0]).get("kind") == "CXXThisExpr":
        return ("m", n.get("name"))
    return None


def _c_carries(n, T):
    """does the value of the expression contain (characters of) a text held in one of the variables T?"""
    if not isinstance(n, dict):
        return False
    k = n.get("kind")
    kids = _c_kids(n)
    if k in _C_WRAPPERS and kids:
        return _c_carries(_c_inner(n), T)
    if k == "DeclRefExpr":
        return ("l", n.get("referencedDecl", {}).get("name")) in T and n.get("referencedDecl", {}).get("kind") in ("VarDecl", "ParmVarDecl")
    if k == "MemberExpr":
        key = _c_lkey(n)
        if key is not None:
            return key in T
        return bool(kids) and _c_carries(kids[0], T)
    if k == "CXXMemberCallExpr" and kids:
        c = cfront.strip(kids[0])
        if c.get("kind") == "MemberExpr":
            if c.get("name") in _C_NOT_TEXT_METHODS or not _c_texty(n):
                return False
            obj = _c_inner(c)
            return (obj is not None and _c_carries(obj, T)) or any(_c_carries(a, T) for a in kids[1:])
        return False
    if k == "CallExpr" and kids:
        return _c_texty(n) and any(_c_carries(a, T) for a in kids[1:])
    if k in ("CXXConstructExpr", "CXXTemporaryObjectExpr", "InitListExpr"):
        return any(_c_carries(a, T) for a in kids)
    if k == "CXXOperatorCallExpr" and kids:
        return _c_texty(n) and any(_c_carries(a, T) for a in kids[1:])
    if k == "ConditionalOperator" and len(kids) == 3:
        return _c_carries(kids[1], T) or _c_carries(kids[2], T)
    if k == "ArraySubscriptExpr" and kids:
        return _c_carries(kids[0], T)
    if k == "UnaryOperator" and kids and n.get("opcode") in ("&", "*", "++", "--"):
        return _c_carries(kids[0], T)
    if k == "BinaryOperator" and len(kids) == 2:
        op = n.get("opcode")
        if op in ("+", "-"):
            return _c_texty(n) and (_c_carries(kids[0], T) or _c_carries(kids[1], T))
        if op in (",", "="):
            return _c_carries(kids[1], T)
    return False


def _c_text_holders(decl, seeds):
    """the locals / members of `this` that (may) hold the text held by the seeds somewhere in the function: closed under
    initialisation, assignment, string building and the C copy primitives (flow-insensitive: more holders, never fewer)"""
    T = set(seeds)
    nodes = list(cfront.walk(decl))
    for _ in range(8):
        before = len(T)
        for x in nodes:
            k = x.get("kind")
            kids = _c_kids(x)
            if k == "VarDecl" and x.get("name") and kids and _c_carries(kids[-1], T):
                T.add(("l", x["name"]))
            elif k in ("BinaryOperator", "CompoundAssignOperator") and len(kids) == 2 and x.get("opcode") in ("=", "+="):
                key = _c_lkey(kids[0])
                if key is not None and _c_carries(kids[1], T):
                    T.add(key)
            elif k == "CXXOperatorCallExpr" and len(kids) >= 3 and cfront.callee_name(x) in ("operator=", "operator+=", "operator<<"):
                key = _c_lkey(kids[1])
                if key is not None and any(_c_carries(a, T) for a in kids[2:]):
                    T.add(key)
            elif k == "CXXMemberCallExpr" and kids:
                c = cfront.strip(kids[0])
                if c.get("kind") == "MemberExpr" and c.get("name") in _C_STORE_METHODS and any(_c_carries(a, T) for a in kids[1:]):
                    key = _c_lkey(_c_inner(c)) if _c_inner(c) is not None else None
                    if key is not None:
                        T.add(key)
            elif k == "CallExpr" and kids:
                nm = cfront.callee_name(x)
                args = kids[1:]
                if nm in _C_COPY_PRIMS and len(args) >= 2 and _c_carries(args[1], T):
                    key = _c_lkey(args[0])
                    if key is not None:
                        T.add(key)
                elif nm in FMT_PRIMS and args and any(_c_carries(a, T) for a in args[1:]):
                    key = _c_lkey(args[0])
                    if key is not None:
                        T.add(key)
        if len(T) == before:
            break
    return T


def _c_length_of(n, T, defnodes, depth=0):
    """does the expression mention the length of a text holder (x.size() / x.length() / strlen(x)), directly or through a local
    that is defined once?"""
    for x in cfront.walk(n):
        k = x.get("kind")
        kids = _c_kids(x)
        if k == "CXXMemberCallExpr" and kids:
            c = cfront.strip(kids[0])
            if c.get("kind") == "MemberExpr" and c.get("name") in ("size", "length") and _c_inner(c) is not None and _c_carries(_c_inner(c), T):
                return True
        elif k == "CallExpr" and kids and cfront.callee_name(x) in ("strlen", "strnlen") and len(kids) >= 2 and _c_carries(kids[1], T):
            return True
        elif k == "DeclRefExpr" and depth < 3:
            nm = x.get("referencedDecl", {}).get("name")
            if nm in defnodes and _c_length_of(defnodes[nm], T, defnodes, depth + 1):
                return True
    return False


def _c_text_sinks(ceff, decl, seeds, fname, depth=0, seen=None):
    """[(kind, description, line)] for the places where the text held by the seeds reaches an output / formatting primitive in the
    function or in the helpers the text is handed to.  kind: 'format' (the text is the format of a printf-family call),
    'verbatim' (written as data, whole), 'cut' (written through a precision that cuts it), 'unknown' (written in a way that is
    not recognised)"""
    seen = set() if seen is None else seen
    sig = (id(decl), frozenset(seeds))
    if sig in seen:
        return []
    seen.add(sig)
    T = _c_text_holders(decl, seeds)
    defnodes = _c_local_def_nodes(decl)
    out = []
    formatted_by_text = set()       # buffers filled by s[n]printf with the text as the format
    is_method = decl.get("kind") in ("CXXMethodDecl", "CXXConstructorDecl")
    for c in cfront.calls_in(decl):
        nm = cfront.callee_name(c)
        args = cfront.call_args(c)
        line = c.get("line", 0)
        if nm in FMT_PRIMS:
            fi_ = 1 if nm == "sprintf" else 2
            if len(args) > fi_ and _c_carries(args[fi_], T):
                key = _c_lkey(args[0])
                if key is not None:
                    formatted_by_text.add(key)
    for c in cfront.calls_in(decl):
        nm = cfront.callee_name(c)
        args = cfront.call_args(c)
        line = c.get("line", 0)
        at = "%s(), line %s" % (fname, line)
        if nm in ("fprintf", "vfprintf"):
            if len(args) < 2 or cfront.render(args[0]) in ("stderr", "stdout"):
                continue
            if _c_carries(args[1], T):
                out.append(("format", "%s(%s, %s%s): the text is the FORMAT (every '%%' in it is interpreted) [%s]"
                            % (nm, cfront.render(args[0]), cfront.render(args[1])[:40], ", ..." if len(args) > 2 else "", at), line))
                continue
            carried = [j for j in range(2, len(args)) if _c_carries(args[j], T)]
            if not carried:
                continue
            lit = _CEff._lit(args[1])
            if lit is None:
                v = _c_arg_constant(ceff, decl, c, 1)
                lit = v if isinstance(v, str) else None
            if lit is None or nm == "vfprintf" or re.search(r"%[-+ #0]*\d*\.\*", lit):
                out.append(("unknown", "%s with a format that is not a constant [%s]" % (nm, at), line))
                continue
            ai, slot = 2, {}
            for d in printf_directives(lit)["directives"]:
                if d["suppress"]:
                    ai += 1
                slot[ai] = d
                ai += 1
            for j in carried:
                d = slot.get(j)
                bad_buf = _c_lkey(args[j]) in formatted_by_text
                if bad_buf:
                    out.append(("format", "%s writes %s, which was formatted with the text as the FORMAT [%s]" % (nm, cfront.render(args[j])[:30], at), line))
                elif d is None:
                    out.append(("unknown", "%s(%r): no directive for the text operand [%s]" % (nm, lit, at), line))
                elif d["conv"] == "s" and d["prec"] is not None and not d["length"]:
                    out.append(("cut", "%s(%r): the precision cuts the text after %s bytes [%s]" % (nm, lit, d["prec"], at), line))
                elif d["conv"] == "s" and d["width"] is None and not d["suppress"] and not d["length"] and not d["flags"]:
                    out.append(("verbatim", "%s(%r, text) [%s]" % (nm, lit, at), line))
                else:
                    out.append(("unknown", "%s(%r): the text is the operand of %s [%s]" % (nm, lit, d["text"], at), line))
            continue
        if nm in ("fputs", "fputc", "putc", "fputs_unlocked", "fputc_unlocked"):
            if len(args) >= 2 and cfront.render(args[-1]) not in ("stderr", "stdout") and _c_carries(args[0], T):
                if _c_lkey(args[0]) in formatted_by_text:
                    out.append(("format", "%s writes %s, which was formatted with the text as the FORMAT [%s]" % (nm, cfront.render(args[0])[:30], at), line))
                else:
                    out.append(("verbatim", "%s(text) [%s]" % (nm, at), line))
            continue
        if nm == "fwrite":
            if len(args) == 4 and cfront.render(args[3]) not in ("stderr", "stdout") and _c_carries(args[0], T):
                if _c_lkey(args[0]) in formatted_by_text:
                    out.append(("format", "fwrite writes %s, which was formatted with the text as the FORMAT [%s]" % (cfront.render(args[0])[:30], at), line))
                elif _c_length_of(args[1], T, defnodes) or _c_length_of(args[2], T, defnodes):
                    out.append(("verbatim", "fwrite(text, .., its length) [%s]" % at, line))
                else:
                    out.append(("unknown", "fwrite(text) with a count that is not recognised as the length of the text [%s]" % at, line))
            continue
        if nm in FMT_PRIMS or nm in POS_PRIMS or nm in _C_COPY_PRIMS or not nm:
            continue
        d = ceff.lookup(nm)
        if d is None or not cfront.has_body(d) or depth >= 3:
            continue
        params = cfront.params_of(d)
        sub = {("l", params[i]) for i, a in enumerate(args) if i < len(params) and params[i] and _c_carries(a, T)}
        if is_method and d.get("kind") in ("CXXMethodDecl",):
            sub |= {t for t in T if t[0] == "m"}
        if sub:
            out.extend(_c_text_sinks(ceff, d, sub, nm, depth + 1, seen))
    return out


def _header_text_verbatim(chk, cfun, ceff):
    who = cfun["Records::write_header_and_update_offset"]
    where = "esutil/recfile/records.cpp:%s" % who.get("line", 0)
    seeds = {("l", p) for p in cfront.params_of(who) if p}
    try:
        sinks = _c_text_sinks(ceff, who, seeds, "write_header_and_update_offset") if seeds else []
    except (_TooBig, AnalysisError, RecursionError):
        sinks = None
    kinds = [k for k, _, _ in sinks] if sinks is not None else []
    fm = [t for k, t, _ in (sinks or []) if k == "format"]
    cut = [t for k, t, _ in (sinks or []) if k == "cut"]
    unk = [t for k, t, _ in (sinks or []) if k == "unknown"]
    okv = [t for k, t, _ in (sinks or []) if k == "verbatim"]
    chk.ob("R03.4e", "Records::write_header_and_update_offset::header-text-never-a-format",
           False if fm else (True if kinds else None), where,
           "the header text given by the caller is never the format of a printf-family call (it is retained unchanged only if it is "
           "written as data): %s" % (("VIOLATED: " + " | ".join(fm[:2])) if fm else
                                     ("written by " + " | ".join((okv + cut + unk)[:3]) if kinds else
                                      "no output call that takes the text was recognised")))
    if fm and not cut:
        return          # said above; how the text would be written otherwise is not the question any more
    chk.ob("R03.4e", "Records::write_header_and_update_offset::header-text-written-whole",
           False if cut else (True if okv and not unk and not fm else None), where,
           "the header text is written whole, as the operand of a plain %%s / fputs / fputc / fwrite with its length: %s"
           % (("VIOLATED: " + " | ".join(cut[:2])) if cut else
              (" | ".join(okv[:3]) if okv and not unk and not fm else "not recognised: " + " | ".join((unk + fm)[:2] or ["no write of the text found"]))))


def _short(seq):
    return tuple("out:SIZE-line" if e.startswith("out:fmt:") else e for e in seq)


def _size_rewrite_ok(seqs, cfmt):
    """(verdict, reason): True / False (a recognised sequence contradicts the rule) / None (not recognised)"""
    if seqs is None:
        return None, "too many paths"
    size_ev = "out:fmt:" + cfmt if cfmt is not None else None
    wrote = [s for s in seqs if size_ev in s]
    if size_ev is None or not wrote:
        return None, "the write of the SIZE line was not recognised"
    unk = False
    for s in seqs:
        if "..." in s:
            return None, "a path with too many stream events"
        for j, e in enumerate(s):
            if e == size_ev:
                prev = s[j - 1] if j else None
                if prev == "pos:unk":
                    unk = True
                elif prev != "pos:start":
                    return False, "the SIZE line is written without the stream having been put at the start of the file (after %s)" % prev
        if s:
            if s[-1] == "pos:unk":
                unk = True
            elif s[-1] != "pos:end":
                return False, "a normal exit leaves the stream somewhere else than at the end of the file (last event %s)" % _short(s)[-1]
    if unk:
        return None, "a seek whose target is not literal"
    return True, "holds on every normal exit"


def _cstr(v):
    """clang renders string literal values with quotes and escapes"""
    if v is None:
        return None
    if len(v) >= 2 and v[0] == '"' and v[-1] == '"':
        v = v[1:-1]
    return v.encode("utf-8").decode("unicode_escape")


# ---------------------------------------------------------------------------
def r03_5(chk, cfun, ceff):
    w = cfun["Records::Write"]
    ccfg = cfront.CCFG(w)
    view = ccfg.view()
    fmtbufs = ceff.fmt_buffers(w)
    seeks = []
    outs = []
    movers = []
    unknown = []
    try:
        for n in ccfg.nodes:
            for c in cfront.node_calls(n):
                nm = cfront.callee_name(c)
                evs = ceff.call_events(c, fmtbufs)
                flat = {e for s in evs for e in s}
                if evs == {("pos:end",)}:
                    seeks.append(n)
                elif any(e.startswith("out") for e in flat):
                    outs.append((n, nm))
                    if any(e.startswith("pos") for e in flat):
                        movers.append((n, nm))
                elif any(e.startswith("pos") for e in flat):
                    (unknown if flat == {"pos:unk"} else movers).append((n, nm))
    except _TooBig:
        chk.ob("R03.5", "Records::Write::stream-events", None, "esutil/recfile/records.cpp", "too many stream event sequences")
        return
    if unknown and not seeks:
        # a seek whose target could not be evaluated: it may be the seek to the end in a spelling that is not recognised
        chk.ob("R03.5", "Records::Write::seek-end-present", None, "esutil/recfile/records.cpp:%s" % unknown[0][0].lineno,
               "Records::Write repositions the stream through %s() but the target is not literal: not recognised" % unknown[0][1])
        return
    movers += unknown
    chk.ob("R03.5", "Records::Write::seek-end-present", bool(seeks), "esutil/recfile/records.cpp",
           "Records::Write seeks to the end of the file (fseek(fp,0,SEEK_END), directly or through a helper) %s" % ("" if seeks else "-- NOT FOUND"))
    chk.ob("R03.5", "Records::Write::output-calls-found", True if len(outs) >= 1 else None, "esutil/recfile/records.cpp",
           "calls in Write that reach an output primitive: %s" % [o[1] for o in outs])
    for n, nm in outs:
        dom = any(view.dominates(s, n) and s is not n for s in seeks)
        chk.ob("R03.5", "Records::Write::seek-end-dominates::%s" % nm, dom, "esutil/recfile/records.cpp:%s" % n.lineno,
               "seek-to-end must dominate the output call %s()" % nm)
    # nothing between the seek and the output moves the file position
    for n, nm in movers:
        bad = any(view.reaches(s, n) for s in seeks) and any(view.reaches(n, o) or n is o for o, _ in outs)
        chk.ob("R03.5", "Records::Write::no-reposition-after-seek::%s" % nm, not bad,
               "esutil/recfile/records.cpp:%s" % n.lineno, "no file repositioning between the seek-to-end and the output")
    # who-may-call: output primitives are only reachable from the three writer entry points
    cg = cfront.call_graph(cfun)
    writers = cfront.reaching_functions(cg, OUTPUT_PRIMS)
    entries = {"Write", "update_row_count", "write_header_and_update_offset"}
    public_writers = set()
    for f in writers:
        if f in cfun and f in ("Write", "update_row_count", "write_header_and_update_offset", "read_columns",
                               "read_binary_slice", "read_sfile_header", "Records", "close"):
            public_writers.add(f)
    chk.ob("R03.5w", "Records::who-may-write", public_writers <= entries, "esutil/recfile/records.cpp",
           "SWIG-exposed methods that can reach an output primitive: %s (allowed: %s)" % (sorted(public_writers), sorted(entries)))


# ---------------------------------------------------------------------------
# R03.8: the number of records Records::Write puts into the file and the number the Python side adds to the stored row
# count are the same measure of the chunk (its total element count, or its leading dimension -- but the same one on both
# sides): otherwise the SIZE line and the rows present drift apart for every chunk on which the two measures differ.
_npy_api = {}


def _npy_api_names():
    """{index: name} of numpy's C-API function table (the accessor macros reach clang expanded: `*PyArray_API[59](obj)`)"""
    if "v" not in _npy_api:
        tab = {}
        try:
            inc = cfront._py_includes()[0]
            txt = open(os.path.join(inc, "numpy", "__multiarray_api.h"), encoding="utf-8", errors="replace").read()
            for m in re.finditer(r"#define\s+(PyArray_\w+)\s*\\\s*\n[^\n]*\\\s*\n\s*PyArray_API\[(\d+)\]\)", txt):
                tab.setdefault(int(m.group(2)), m.group(1))
        except (OSError, AnalysisError, IndexError):
            pass
        _npy_api["v"] = tab
    return _npy_api["v"]


def _c_text(n):
    """rendered C expression with the numpy API table entries named"""
    tab = _npy_api_names()
    return re.sub(r"\*PyArray_API\[(\d+)\]", lambda m: tab.get(int(m.group(1)), m.group(0)), cfront.render(n))


def _c_member_name(n):
    n = cfront.strip(n)
    if n.get("kind") == "MemberExpr" and n.get("inner") and cfront.strip(n["inner"][0]).get("kind") == "CXXThisExpr":
        return n.get("name")
    return None


def _c_members_in(n):
    return {m for m in (_c_member_name(x) for x in cfront.walk(n) if x.get("kind") == "MemberExpr") if m}


def _c_local_def_nodes(decl):
    """{local: initialiser / assigned expression (AST node)} for locals of a function that are defined exactly once"""
    defs = {}
    for x in cfront.walk(decl):
        if x.get("kind") == "VarDecl" and x.get("name") and x.get("inner"):
            init = [c for c in x["inner"] if isinstance(c, dict) and c.get("kind") and not c["kind"].endswith("Attr")]
            defs.setdefault(x["name"], []).append(init[-1] if init else None)
        elif x.get("kind") == "VarDecl" and x.get("name"):
            defs.setdefault(x["name"], [])
        elif x.get("kind") in ("BinaryOperator", "CompoundAssignOperator") and x.get("opcode", "").endswith("=") \
                and x.get("opcode") not in ("==", "!=", "<=", ">="):
            l = cfront.strip(x["inner"][0])
            if l.get("kind") == "DeclRefExpr":
                nm = l.get("referencedDecl", {}).get("name")
                defs.setdefault(nm, []).append(x["inner"][1] if x.get("opcode") == "=" else None)
        elif x.get("kind") == "UnaryOperator" and x.get("opcode") in ("++", "--"):
            l = cfront.strip(x["inner"][0])
            if l.get("kind") == "DeclRefExpr":
                defs.setdefault(l.get("referencedDecl", {}).get("name"), []).append(None)
    return {k: v[0] for k, v in defs.items() if len(v) == 1 and v[0] is not None}


def _c_local_defs(decl):
    """{local: rendered initialiser / assigned value} for locals of a function that are defined exactly once"""
    return {k: _c_text(v) for k, v in _c_local_def_nodes(decl).items()}


def _c_members_through(n, defnodes, seen=None):
    """members of `this` an expression reads, directly or through locals that are defined exactly once (a loop bound or an
    fwrite count hoisted into `const long long nrows = mNrows;` is still bounded by mNrows)"""
    seen = set() if seen is None else seen
    out = set(_c_members_in(n))
    for x in cfront.walk(n):
        if x.get("kind") == "DeclRefExpr":
            nm = x.get("referencedDecl", {}).get("name")
            if nm in defnodes and nm not in seen:
                seen.add(nm)
                out |= _c_members_through(defnodes[nm], defnodes, seen)
    return out


def _c_expand(text, defs):
    for _ in range(6):
        new = text
        for k, v in defs.items():
            new = re.sub(r"(?<![\w.>])%s\b(?!\s*\()" % re.escape(k), lambda m: "(%s)" % v, new)
        if new == text or len(new) > 2000:
            break
        text = new
    return text


_C_SIZE = re.compile(r"\bPyArray_Size\s*\(|\bPyArray_MultiplyList\s*\(\s*\(*\s*PyArray_(DIMS|SHAPE)\b")
_C_DIM = re.compile(r"\bPyArray_DIM\s*\([^,()]*(?:\([^()]*\))*[^,()]*,\s*\(*(\w+)\)*\s*\)|\bPyArray_(?:DIMS|SHAPE)\s*\((?:[^()]|\([^()]*\))*\)\s*\)*\s*\[\s*(\w+)\s*\]")


def _c_measure(text):
    """which extent of the input array a C expression is: 'size' (all elements), 'dim0' / 'dim' (one dimension), None (no extent
    of an array in it), 'unknown'"""
    size = _C_SIZE.search(text) is not None
    dims = [m.group(1) or m.group(2) for m in _C_DIM.finditer(text)]
    if size and dims:
        return "unknown"
    if size:
        return "size"
    if dims:
        return "dim0" if all(d == "0" for d in dims) else "dim"
    if re.search(r"\bPyArray_(DIMS?|SHAPE|NDIM|Size|MultiplyList)\b", text):
        return "unknown"
    return None


# -- the array an expression is a same-shaped view / copy / layout conversion of ------------------------------------------
# local name -> dotted import target, for the modules whose row-count expressions are judged (filled in by run()); a name
# bound differently in two of them is dropped (not resolved)
_LIB_NAMES = {}

# numpy functions that return their first argument's elements in the same shape (a new array, or the argument itself):
# {name: names of the positional parameters}.  Options that only pick memory layout / copy-or-not / subclass are harmless;
# dtype= (may fail or repack) and ndmin= (changes the shape) are not accepted.
_SAME_SHAPE_FUNCS = {
    "array": ("object", "dtype"), "asarray": ("a", "dtype", "order"), "asanyarray": ("a", "dtype", "order"),
    "ascontiguousarray": ("a", "dtype"), "asfortranarray": ("a", "dtype"), "require": ("a", "dtype", "requirements"),
    "copy": ("a", "order", "subok"),
}
_LAYOUT_ONLY_OPTIONS = {"copy", "order", "subok", "like", "requirements", "device"}


def _note_lib_names(*mods):
    seen = {}
    for m in mods:
        for k, v in (m.imports if m is not None else {}).items():
            seen.setdefault(k, set()).add(v)
    _LIB_NAMES.clear()
    _LIB_NAMES.update({k: next(iter(v)) for k, v in seen.items() if len(v) == 1})


def _lib_callee(func):
    """'numpy.array', 'copy.deepcopy', ... for a callee written through the module's imports (`np.array`, `array` after
    `from numpy import array`); None when the head of the dotted name is not an imported library name"""
    d = dotted_name(func)
    if not d:
        return None
    parts = d.split(".")
    head = _LIB_NAMES.get(parts[0])
    if head is None and parts[0] in ("numpy", "np") and parts[0] not in _LIB_NAMES:
        head = "numpy"
    if head is None:
        return None
    return ".".join([head] + parts[1:])


def _same_shape_source(e):
    """strip from an array expression everything that hands on the same elements in the same shape: .view(...) / .copy(...) /
    .__copy__() / .__deepcopy__(memo), whole-array slices x[:] / x[...], numpy.array / asarray / asanyarray /
    ascontiguousarray / asfortranarray / require / copy of it with layout-only options, copy.copy / copy.deepcopy of it"""
    while True:
        if isinstance(e, ast.Subscript):
            sl = e.slice
            whole = (isinstance(sl, ast.Slice) and sl.lower is None and sl.upper is None and (sl.step is None or const_value(sl.step) == 1)) \
                or (isinstance(sl, ast.Constant) and sl.value is Ellipsis)
            if not whole:
                return e
            e = e.value
            continue
        if not isinstance(e, ast.Call):
            return e
        lib = _lib_callee(e.func)
        if lib is not None:
            mod, _, fn = lib.rpartition(".")
            if any(isinstance(a, ast.Starred) for a in e.args) or any(k.arg is None for k in e.keywords):
                return e
            if mod == "copy" and fn in ("copy", "deepcopy") and len(e.args) == 1 and not e.keywords:
                e = e.args[0]
                continue
            if mod == "numpy" and fn in _SAME_SHAPE_FUNCS:
                names = _SAME_SHAPE_FUNCS[fn]
                if len(e.args) > len(names):
                    return e
                bound = dict(zip(names, e.args))
                for k in e.keywords:
                    if k.arg in bound:
                        return e
                    bound[k.arg] = k.value
                src = bound.pop(names[0], None)
                dt = bound.pop("dtype", None)
                if src is None or set(bound) - _LAYOUT_ONLY_OPTIONS:
                    return e
                if dt is not None and not (isinstance(dt, ast.Constant) and dt.value is None) \
                        and not (isinstance(dt, ast.Attribute) and dt.attr == "dtype"
                                 and norm(_same_shape_source(dt.value)) == norm(_same_shape_source(src))):
                    return e            # a conversion to another type: not judged here
                e = src
                continue
            return e
        if isinstance(e.func, ast.Attribute):
            if e.func.attr in ("view", "copy", "__copy__", "__deepcopy__"):
                e = e.func.value
                continue
        return e


def _py_measure(e, param="data"):
    """'size' for <chunk>.size, 'dim0' for len(<chunk>) / <chunk>.shape[0] (chunk: the parameter or a view / copy of it)"""
    kind = None
    if isinstance(e, ast.Attribute) and e.attr == "size":
        kind, e = "size", e.value
    elif isinstance(e, ast.Call) and call_name(e) == "len" and len(e.args) == 1 and isinstance(e.func, ast.Name):
        kind, e = "dim0", e.args[0]
    elif isinstance(e, ast.Subscript) and const_value(e.slice) == 0 and isinstance(e.value, ast.Attribute) and e.value.attr == "shape":
        kind, e = "dim0", e.value.value
    e = _same_shape_source(e)
    return kind if isinstance(e, ast.Name) and e.id == param else None


def _c_reachable(ceff, root, maxdepth=4):
    """[(name, decl)] of the functions with a body reachable from decl `root` (itself first)"""
    out, seen, todo = [], set(), [("", root, 0)]
    while todo:
        nm, d, depth = todo.pop(0)
        if id(d) in seen:
            continue
        seen.add(id(d))
        out.append((nm, d))
        if depth >= maxdepth:
            continue
        for c in cfront.calls_in(d):
            cn = cfront.callee_name(c)
            if cn in POS_PRIMS + OUT_PRIMS + FMT_PRIMS:
                continue
            cd = ceff.lookup(cn)
            if cd is not None and cfront.has_body(cd):
                todo.append((cn, cd, depth + 1))
    return out


def r03_8(chk, cfun, ceff, measures):
    w = cfun["Records::Write"]
    wline = "esutil/recfile/records.cpp:%s" % w.get("line", 0)
    funcs = _c_reachable(ceff, w)
    # members that bound the output: the count of an fwrite to the data stream, the condition of a loop that emits output
    counts = set()
    try:
        for nm, d in funcs:
            fmtbufs = ceff.fmt_buffers(d)
            defnodes = _c_local_def_nodes(d)
            for c in cfront.calls_in(d):
                if cfront.callee_name(c) == "fwrite":
                    args = cfront.call_args(c)
                    if len(args) == 4 and cfront.render(args[3]) not in ("stderr", "stdout"):
                        counts |= _c_members_through(args[1], defnodes) | _c_members_through(args[2], defnodes)
            for x in cfront.walk(d):
                if x.get("kind") in ("ForStmt", "WhileStmt", "DoStmt") and x.get("inner"):
                    inner = x["inner"]
                    if x["kind"] == "ForStmt":
                        cond, body = (inner[2] if len(inner) == 5 else None), inner[-1]
                    elif x["kind"] == "WhileStmt":
                        cond, body = inner[-2], inner[-1]
                    else:
                        cond, body = inner[-1], inner[0]
                    if not (isinstance(cond, dict) and cond.get("kind")) or not isinstance(body, dict):
                        continue
                    emits = any(any(e.startswith("out") for s in ceff.call_events(c, fmtbufs) for e in s) for c in cfront.calls_in(body))
                    if emits:
                        counts |= _c_members_through(cond, defnodes)
    except _TooBig:
        counts = set()
    # what those members are set to, as an extent of the array handed to Write
    found = []
    for nm, d in funcs:
        defs = _c_local_defs(d)
        for x in cfront.walk(d):
            if x.get("kind") == "BinaryOperator" and x.get("opcode") == "=" and _c_member_name(x["inner"][0]) in counts:
                text = _c_expand(_c_text(x["inner"][1]), defs)
                m = _c_measure(text)
                if m is not None:
                    raw = _c_text(x["inner"][1])
                    found.append((m, _c_member_name(x["inner"][0]), raw if raw == text else "%s /* = %s */" % (raw, text), x.get("line", 0)))
    cms = {m for m, _, _, _ in found}
    cm = next(iter(cms)) if len(cms) == 1 and "unknown" not in cms else None
    chk.ob("R03.8", "Records::Write::record-count-source", True if cm is not None else None, wline,
           "the number of records Records::Write emits (members bounding the output: %s) is taken from the input array as %s"
           % (sorted(counts) or "none found", ["%s = %s [%s]" % (mem, t, m) for m, mem, t, _ in found] or "NOT RECOGNISED"))
    if cm is None:
        return
    cwhere = "esutil/recfile/records.cpp:%s" % found[0][3]
    words = {"size": "the total element count of the chunk", "dim0": "the leading dimension of the chunk", "dim": "one dimension of the chunk"}
    seen = set()
    for label, e, param, where in measures:
        pm = _py_measure(e, param)
        key = (label, pm or norm(e))
        if key in seen:
            continue
        seen.add(key)
        ok = None if pm is None else (pm == cm)
        chk.ob("R03.8", "row-count-measure::%s" % label, ok, cwhere if ok is False else where,
               "rows written and rows counted are the same measure of the chunk: Records::Write emits `%s = %s` records (%s), "
               "%s counts `%s` (%s)" % (found[0][1], found[0][2], words[cm], label, norm(e),
                                        words.get(pm, "not recognised") if pm else "not recognised"))


def _append_truth(st, upto=None):
    """did the path decide the caller's append flag (keys.get('append', ...) / append) and how"""
    return _fact(st, lambda k: k[0] == "truth" and "append" in k[1], upto)


def _mode_cases(m, truth):
    """[(value of the append flag | None = either, mode)] for a mode expression on a path where the flag was decided as `truth`"""
    if m is None:
        return [(truth, "<default>")]
    if isinstance(m, ast.Constant):
        return [(truth, m.value)]
    if isinstance(m, ast.IfExp) and "append" in norm(m.test) and isinstance(m.body, ast.Constant) and isinstance(m.orelse, ast.Constant):
        k, pol = _atom(m.test)
        if k[0] == "truth":
            return [(pol, m.body.value), (not pol, m.orelse.value)]
    sel = _bool_index(m)
    if sel is not None:
        flag, pol, on_true, on_false = sel
        k, p = _atom(flag)
        if "append" in norm(flag) and k[0] == "truth":
            pol = pol == p
            return [(a, v) for a, v in ((pol, on_true), (not pol, on_false)) if truth is None or a == truth]
    return [(truth, "<expr %s>" % norm(m)[:40])]


def _bool_index(m):
    """(flag, polarity, value when the index is True, value when it is False) for a two-way dispatch table indexed by the truth
    of a flag: `{False: a, True: b}[bool(flag)]`, `(a, b)[bool(flag)]`, `(a, b)[not flag]` (the index is a genuine bool: it is
    wrapped in bool() or not); None for anything else"""
    if not isinstance(m, ast.Subscript):
        return None
    e, pol, isbool = m.slice, True, False
    while True:
        if isinstance(e, ast.UnaryOp) and isinstance(e.op, ast.Not):
            e, pol, isbool = e.operand, not pol, True
        elif isinstance(e, ast.Call) and isinstance(e.func, ast.Name) and e.func.id == "bool" and len(e.args) == 1 and not e.keywords:
            e, isbool = e.args[0], True
        else:
            break
    if not isbool:
        return None
    d = _as_dict_literal(m.value)
    if d is not None:
        t, f = _dict_lookup(d, ast.Constant(value=True)), _dict_lookup(d, ast.Constant(value=False))
    elif isinstance(m.value, (ast.Tuple, ast.List)) and len(m.value.elts) == 2:
        f, t = m.value.elts
    else:
        return None
    if isinstance(t, ast.Constant) and isinstance(f, ast.Constant):
        return e, pol, t.value, f.value
    return None


def _is_key_lookup(v, key):
    """keys.get('<key>', ...) / keys['<key>'] / the bare name"""
    if isinstance(v, ast.Name):
        return v.id == key
    if isinstance(v, ast.Call) and isinstance(v.func, ast.Attribute) and v.func.attr in ("get", "pop") and v.args:
        return const_value(v.args[0]) == key
    if isinstance(v, ast.Subscript):
        return const_value(v.slice) == key
    return False


def _is_empty_header(v):
    """None / {} / dict(): what a caller who gave no header ends up with"""
    if _is_none(v):
        return True
    d = _as_dict_literal(v)
    return d is not None and not d.keys


_VALUE_KEEPING_CALLS = ("dict", "copy", "deepcopy", "OrderedDict")


def _header_origin(v, key="header", depth=0):
    """is the (forward-substituted) expression the caller's `<key>` option?  True: it is the option itself (keys.get('<key>', ..) /
    keys['<key>'] / a parameter of that name), possibly through a value-keeping wrapper (`x or {}`, `x if x is not None else {}`,
    dict(x), copy(x), x.copy()); False: it is positively something else (a constant, or an expression in which the option does
    not occur); None: the option occurs in it but in a form that is not recognised"""
    if depth > 6:
        return None
    if isinstance(v, ast.Subscript) and isinstance(v.slice, ast.Constant) and _as_dict_literal(v.value) is not None:
        hit = _dict_lookup(_as_dict_literal(v.value), v.slice)
        if hit is not None:
            return _header_origin(hit, key, depth + 1)
    if _is_key_lookup(v, key):
        return True
    if isinstance(v, ast.BoolOp) and isinstance(v.op, ast.Or) and all(_is_empty_header(x) for x in v.values[1:]):
        return _header_origin(v.values[0], key, depth + 1)
    if isinstance(v, ast.IfExp):
        arms = [v.body, v.orelse]
        about_option = any(_is_key_lookup(x, key) for x in ast.walk(v.test))
        res = [_header_origin(a, key, depth + 1) for a in arms if not (about_option and _is_empty_header(a))]
        if not res or any(r is False for r in res):
            return False if res else None
        return True if all(r is True for r in res) else None
    if isinstance(v, ast.Call) and not v.keywords:
        if len(v.args) == 1 and call_name(v) in _VALUE_KEEPING_CALLS:
            return _header_origin(v.args[0], key, depth + 1)
        if not v.args and isinstance(v.func, ast.Attribute) and v.func.attr == "copy":
            return _header_origin(v.func.value, key, depth + 1)
    if any(_is_key_lookup(x, key) for x in ast.walk(v) if isinstance(x, (ast.Name, ast.Call, ast.Subscript))):
        return None
    return False


def _append_reaches_every_path(chk, repo, sf_write, paths):
    """R03.6 append-option-reaches-every-writing-path.  The rules above judge the mode of the SFile(...) constructions they find on
    the paths of sfile.write; this one closes the gap "a path on which none is found".  Whether a call appends or replaces is
    decided by the caller's append option alone, so every normal return of sfile.write must either open the SFile itself (judged
    above) or hand the whole job to a function that still knows the option.  A path that re-dispatches to sfile.write itself
    (argument-order normalisation, keyword clean-up ...) must therefore pass `append` on: as append=<the option>, or inside the
    caller's own **keywords.  An inner call that is made without it behaves the same for append=True and append=False, while
    the property demands two different results (concatenation vs. replacement) - a violation for every input.  Delegation to
    another function that cannot be followed, or a normal return that writes nothing, is 'not recognised'."""
    kwname = sf_write.node.args.kwarg.arg if sf_write.node.args.kwarg is not None else None
    fpath = sf_write.where().rsplit(":", 1)[0]
    verdict, bad, unrec, line = True, [], [], None
    n_direct = n_deleg = 0
    for st in paths:
        if _calls(st, "SFile"):
            n_direct += 1
            continue
        deleg, other = [], []
        for e in st.events:
            if e["kind"] != "call" or e["recv"] is not None or not e["dotted"] or "." in e["dotted"]:
                continue
            callee = repo.funcs.get("%s.%s" % (e["fn"].module.name, e["dotted"]))
            if callee is None or callee.cls is not None:
                continue
            (deleg if callee.qualname == sf_write.qualname else other).append(e)
        if not deleg:
            unrec.append("a normal return on which no SFile is opened%s"
                         % (" (the job is handed to %s, which was not followed)" % ", ".join(sorted({e["dotted"] for e in other})) if other else ""))
            continue
        for e in deleg:
            n_deleg += 1
            truth = _append_truth(st, e["nfacts"])
            kw = e["kw"]
            if "append" in kw:
                v = kw["append"]
                if isinstance(v, ast.Constant):
                    good = truth is not None and bool(v.value) == truth
                    cls = True if good else False
                else:
                    cls = _header_origin(v, key="append")
                what = "append=%s" % norm(v)[:40]
            elif "**" in kw:
                v = kw["**"]
                cls = True if (isinstance(v, ast.Name) and v.id == kwname) else None
                what = "**%s" % norm(v)[:40]
            else:
                cls = True if truth is False else False
                what = "no append keyword (forwarded: %s)" % (sorted(kw) or "nothing")
            if cls is True:
                continue
            if cls is False:
                line = e["line"]
                bad.append("line %s: sfile.write re-dispatches to itself with %s, so the inner call does not know the caller's append option"
                           % (e["line"], what))
            else:
                unrec.append("line %s: re-dispatch with %s: relation to the caller's append option not recognised" % (e["line"], what))
    if bad:
        verdict = False
    elif unrec or not paths:
        verdict = None
    chk.ob("R03.6", "esutil.sfile.write::append-option-reaches-every-writing-path", verdict,
           "%s:%s" % (fpath, line) if line else sf_write.where(),
           "%severy normal return of sfile.write either opens the SFile itself with the mode chosen from the caller's append option, or "
           "re-dispatches with that option passed on (%d direct path(s), %d re-dispatch(es))"
           % (("; ".join(sorted(set(bad))[:3]) + " -- rule: ") if bad else (("; ".join(sorted(set(unrec))[:3]) + " -- rule: ") if unrec else ""),
              n_direct, n_deleg))


def r03_6(chk, repo, sf_write, cfun):
    """overwrite: append false => literal mode 'w' reaches SFile(...); fopen gets the mode unmodified"""
    try:
        paths = [st for k, _, st in _PX(repo).run(sf_write, {}) if k == "return"]
    except _TooBig:
        paths = []
    ctor = [(st, e) for st in paths for e in _calls(st, "SFile")]
    for flagval, want in ((False, "w"), (True, "r+")):
        got = set()
        for st, e in ctor:
            m = e["kw"].get("mode", e["args"][1] if len(e["args"]) > 1 else None)
            for assumed, val in _mode_cases(m, _append_truth(st, e["nfacts"])):
                if assumed is None or assumed == flagval:
                    got.add(val)
        unrec = any(not isinstance(v, str) or v.startswith(("<expr ", "<default>")) for v in got)
        chk.ob("R03.6", "esutil.sfile.write::append=%s::mode" % flagval, (None if unrec else got == {want}) if ctor else None, sf_write.where(),
               "append=%s selects mode %r for the SFile constructor (found %s)" % (flagval, want, sorted(map(str, got))))
    # the data argument reaches sf.write unmodified together with header
    ok = bool(ctor)
    nwrite = 0
    params = set(sf_write.params[:2])

    def first_arg(ev_, qualname, default):
        """the first argument of a call: positional, or passed under the name of the callee's first parameter"""
        if ev_["args"]:
            return ev_["args"][0]
        callee = repo.funcs.get(qualname)
        ps = [p for p in (callee.params[1:] if callee is not None else []) if not p.startswith("*")]
        return ev_["kw"].get(ps[0] if ps else default)

    for st, e in ctor:
        ws = [w for w in _calls(st, "write") if isinstance(w["recv"], ast.Call) and call_name(w["recv"]) == "SFile"]
        nwrite += len(ws)
        ok = ok and len(ws) == 1
        for w in ws:
            a0 = first_arg(w, "%s.SFile.write" % sf_write.module.name, "data")
            f0 = first_arg(e, "%s.SFile.__init__" % sf_write.module.name, "filename")
            h0 = w["kw"].get("header", w["args"][1] if len(w["args"]) > 1 else None)
            ok = ok and isinstance(a0, ast.Name) and isinstance(f0, ast.Name) and {a0.id, f0.id} == params \
                and h0 is not None and _header_origin(h0) is True
    chk.ob("R03.6", "esutil.sfile.write::forwards-data-and-header", ok, sf_write.where(),
           "sfile.write forwards data and header= to SFile.write (%d SFile(...) path(s), %d write call(s))" % (len(ctor), nwrite))
    # the user header given at creation is retained: whichever way the function is laid out, on EVERY path that constructs the
    # SFile (append or not: an append to a missing file is a creation) the header handed to SFile.write is the caller's
    # header option.  Decided on the forward-substituted argument term of each path, so it keeps its verdict under restructuring.
    verdict, bad, npaths = True, [], 0
    for st, e in ctor:
        ws = [w for w in _calls(st, "write") if isinstance(w["recv"], ast.Call) and call_name(w["recv"]) == "SFile"]
        for w in ws:
            npaths += 1
            if "header" in w["kw"]:
                h = w["kw"]["header"]
            elif len(w["args"]) > 1:
                h = w["args"][1]
            else:
                h = None
            if h is None:
                cls = None if ("**" in w["kw"] or any(isinstance(a, ast.Starred) for a in w["args"])) else False
                text = "<no header argument>"
            else:
                cls = _header_origin(h)
                text = norm(h)
            if cls is True:
                continue
            app = _append_truth(st, w["nfacts"])
            if cls is False and _fact(st, lambda k: k[0] == "truth" and any(t + "(" in k[1] for t in _EXIST_TESTS), w["nfacts"]) is True:
                cls = None      # dropped only once the file is known to exist (where a header is ignored anyway): not judged
            bad.append("line %s, append %s: header=%s" % (w["line"], {True: "true", False: "false", None: "either"}[app], text[:60]))
            verdict = False if (cls is False or verdict is False) else None
    if not npaths:
        verdict = None
    chk.ob("R03.6", "esutil.sfile.write::header-option-reaches-SFile.write", verdict, sf_write.where(),
           "%son every path of sfile.write (append or not: an append to a missing file creates it) the header handed to SFile.write "
           "is the caller's header= option (%d path(s))"
           % ("" if not bad else "user header dropped: " + "; ".join(sorted(set(bad))[:4]) + " -- rule: ", npaths))
    _append_reaches_every_path(chk, repo, sf_write, paths)
    sp = cfun.get("Records::set_fptr") or cfun.get("set_fptr")
    ok = False
    if sp is not None:
        for c in cfront.calls_in(sp):
            if cfront.callee_name(c) == "fopen":
                args = [cfront.render(a) for a in cfront.call_args(c)]
                ok = args[-1] == "mode"
    chk.ob("R03.6", "Records::set_fptr::mode-unmodified", ok, "esutil/recfile/records.cpp",
           "fopen receives the caller's mode string unmodified")


def _chunk_len(x, param="data"):
    """is x the number of rows of the chunk: <data or a view / copy of it>.size, len(...) or .shape[0]"""
    e = None
    if isinstance(x, ast.Attribute) and x.attr == "size":
        e = x.value
    elif isinstance(x, ast.Call) and call_name(x) == "len" and len(x.args) == 1:
        e = x.args[0]
    elif isinstance(x, ast.Subscript) and const_value(x.slice) == 0 and isinstance(x.value, ast.Attribute) and x.value.attr == "shape":
        e = x.value.value
    e = _same_shape_source(e)
    return isinstance(e, ast.Name) and e.id == param


def r03_7(chk, repo, Rec_write, measures, ceff=None):
    """Recfile.write: the handle's row count follows every write (several writes on one handle)"""
    try:
        paths = [st for k, _, st in _PX(repo).run(Rec_write, {}) if k == "return"]
    except _TooBig:
        paths = []
    ok = bool(paths)
    found = set()
    for st in paths:
        v = st.heap.get("self.nrows")
        found.add(norm(v) if v is not None else "<not updated>")
        terms = None
        if isinstance(v, ast.BinOp) and isinstance(v.op, ast.Add):
            terms = [v.left, v.right]
        good = terms is not None and any(norm(a) == "self.nrows" and _chunk_len(b, Rec_write.params[1] if len(Rec_write.params) > 1 else "data")
                                         for a, b in (terms, terms[::-1]))
        for a, b in ((terms, terms[::-1]) if terms is not None else ()):
            if norm(a) == "self.nrows":
                measures.append(("Recfile.write (self.nrows)", b, Rec_write.params[1] if len(Rec_write.params) > 1 else "data", Rec_write.where()))
        w = [e["nev"] for e in _calls(st, "Write")]
        s_ = [e["nev"] for e in st.events if e["kind"] == "store" and e["name"] == "self.nrows"]
        ok = ok and good and bool(w) and bool(s_) and s_[-1] > w[-1]
    chk.ob("R03.7", "esutil.recfile.Util.Recfile.write::nrows-accumulates", ok, Rec_write.where(),
           "Recfile.write adds the chunk size to the handle's row count after writing (self.nrows becomes %s)" % sorted(found))
    per = sorted({len(_calls(st, "Write")) for st in paths})
    chk.ob("R03.7", "esutil.recfile.Util.Recfile.write::single-C++-write", per == [1], Rec_write.where(),
           "exactly one Records::Write call per Recfile.write (calls per normal path: %s)" % per)
    _text_chunk_native(chk, repo, Rec_write, paths, ceff)
    _chunk_element_order(chk, Rec_write, paths, ceff)


# -- R03.7 chunk-in-element-order ---------------------------------------------------------------------------------------------
# Records::Write takes the data pointer of the array and emits mNrows records of mRowSize bytes from there on (one fwrite, or a
# walk `mData += elsize`): it never looks at the strides.  The records of a chunk are therefore stored in the order in which they
# lie in memory, and that is the order of the chunk's elements (what a read returns must be the chunks "in order") only for an
# array that is C-contiguous.  So on every path of Recfile.write the array handed over must be known to be C-contiguous: made
# by a numpy call that always returns such an array, or the caller's array (or a same-layout view of it) on a path whose
# branch outcomes imply its C_CONTIGUOUS flag.  F-contiguity, or "either of the two", implies it only for 1-d chunks.
_FLAG_WORDS = {"c_contiguous": "C", "contiguous": "C", "C_CONTIGUOUS": "C", "C": "C", "CONTIGUOUS": "C",
               "f_contiguous": "F", "fortran": "F", "F_CONTIGUOUS": "F", "F": "F", "FORTRAN": "F",
               "fnc": "FNC", "FNC": "FNC", "forc": "FORC", "FORC": "FORC"}
_C_ORDER_BY_DEFAULT = ("zeros", "empty", "ones", "full", "arange", "fromiter", "frombuffer", "fromstring", "concatenate", "hstack",
                       "vstack", "recarray")


def _call_option(call, name, pos, names=None):
    """(given?, value node) of an option of a call, by keyword or by position"""
    for k in call.keywords:
        if k.arg == name:
            return True, k.value
    if pos is not None and len(call.args) > pos and not any(isinstance(a, ast.Starred) for a in call.args[:pos + 1]):
        return True, call.args[pos]
    return False, None


def _order_is_c(call, pos):
    """True: order option absent or the constant 'C'; False: another constant; None: not a constant"""
    if any(k.arg is None for k in call.keywords) or any(isinstance(a, ast.Starred) for a in call.args):
        return None
    given, v = _call_option(call, "order", pos)
    if not given:
        return True
    if isinstance(v, ast.Constant):
        return isinstance(v.value, str) and v.value.upper() == "C"
    return None


def _makes_c_contiguous(e):
    """does the call expression always return a C-contiguous array, whatever the layout of its operand? True / False (no: the
    layout follows the operand or an option) / None (depends on an option that is not a constant)"""
    if not isinstance(e, ast.Call):
        return False
    lib = _lib_callee(e.func)
    if lib is not None and lib.startswith("numpy."):
        fn = lib[len("numpy."):]
        if fn == "ascontiguousarray":
            return True
        if fn == "require":
            given, v = _call_option(e, "requirements", 2)
            if not given:
                return False
            words = [v] if isinstance(v, ast.Constant) else (list(v.elts) if isinstance(v, (ast.List, ast.Tuple, ast.Set)) else None)
            if words is None or not all(isinstance(w, ast.Constant) and isinstance(w.value, str) for w in words):
                return None
            return any(w.value.upper() in ("C", "C_CONTIGUOUS", "CONTIGUOUS") for w in words)
        if fn in ("array", "asarray", "asanyarray", "copy"):
            # default order 'K' / 'A': the layout of the operand is kept
            given, v = _call_option(e, "order", {"array": None, "asarray": 2, "asanyarray": 2, "copy": 1}[fn])
            if not given:
                return False
            return (isinstance(v.value, str) and v.value.upper() == "C") if isinstance(v, ast.Constant) else None
        if fn in _C_ORDER_BY_DEFAULT:
            return _order_is_c(e, None)
        return False
    if lib is None and isinstance(e.func, ast.Attribute):
        m = e.func.attr
        if m in ("copy", "flatten", "ravel"):           # ndarray.copy / flatten / ravel: order='C' unless told otherwise
            return _order_is_c(e, 0)
        if m == "astype":
            given, v = _call_option(e, "order", 1)
            if not given:
                return False
            return (isinstance(v.value, str) and v.value.upper() == "C") if isinstance(v, ast.Constant) else None
    return False


def _layout_base(e):
    """the array whose memory layout (strides, contiguity flags) the expression has: through .view(...), in-place byte swapping,
    .newbyteorder(), numpy.asarray / asanyarray without options, whole-array slices"""
    while True:
        if isinstance(e, ast.Subscript):
            sl = e.slice
            if (isinstance(sl, ast.Slice) and sl.lower is None and sl.upper is None and (sl.step is None or const_value(sl.step) == 1)) \
                    or (isinstance(sl, ast.Constant) and sl.value is Ellipsis):
                e = e.value
                continue
            return e
        if not isinstance(e, ast.Call):
            return e
        lib = _lib_callee(e.func)
        if lib in ("numpy.asarray", "numpy.asanyarray") and len(e.args) == 1 and not e.keywords and not isinstance(e.args[0], ast.Starred):
            e = e.args[0]
            continue
        if lib is None and isinstance(e.func, ast.Attribute):
            m = e.func.attr
            inplace = m == "byteswap" and ((len(e.args) == 1 and const_value(e.args[0]) is True)
                                           or any(k.arg == "inplace" and const_value(k.value) is True for k in e.keywords))
            if m in ("view", "newbyteorder") or inplace:
                e = e.func.value
                continue
        return e


def _layout_formula(e, chunk):
    """a test over the contiguity flags of the chunk as a formula over the atoms C / F: ('atom', 'C'), ('not', f), ('and', [f..]),
    ('or', [f..]), ('const', b); None when the test is anything else"""
    if isinstance(e, ast.Constant) and isinstance(e.value, bool):
        return ("const", e.value)
    if isinstance(e, ast.UnaryOp) and isinstance(e.op, ast.Not):
        f = _layout_formula(e.operand, chunk)
        return None if f is None else ("not", f)
    if isinstance(e, ast.BoolOp):
        fs = [_layout_formula(v, chunk) for v in e.values]
        return None if any(f is None for f in fs) else ("and" if isinstance(e.op, ast.And) else "or", fs)
    if isinstance(e, ast.Compare) and len(e.ops) == 1 and isinstance(e.ops[0], (ast.Eq, ast.NotEq, ast.Is, ast.IsNot)):
        l, r = e.left, e.comparators[0]
        if isinstance(l, ast.Constant):
            l, r = r, l
        if isinstance(r, ast.Constant) and isinstance(r.value, bool):
            f = _layout_formula(l, chunk)
            if f is None:
                return None
            return f if (r.value == isinstance(e.ops[0], (ast.Eq, ast.Is))) else ("not", f)
        return None
    if isinstance(e, ast.Call) and isinstance(e.func, ast.Name) and e.func.id == "bool" and len(e.args) == 1 and not e.keywords:
        return _layout_formula(e.args[0], chunk)
    word = arr = None
    if isinstance(e, ast.Attribute) and isinstance(e.value, ast.Attribute) and e.value.attr == "flags":
        word, arr = e.attr, e.value.value
    elif isinstance(e, ast.Subscript) and isinstance(e.value, ast.Attribute) and e.value.attr == "flags" and isinstance(const_value(e.slice), str):
        word, arr = const_value(e.slice), e.value.value
    elif isinstance(e, ast.Call) and _lib_callee(e.func) == "numpy.isfortran" and len(e.args) == 1 and not e.keywords:
        word, arr = "fnc", e.args[0]
    if word is None or word not in _FLAG_WORDS:
        return None
    b = _layout_base(arr)
    if not (isinstance(b, ast.Name) and b.id == chunk):
        return None
    w = _FLAG_WORDS[word]
    if w == "FNC":
        return ("and", [("atom", "F"), ("not", ("atom", "C"))])
    if w == "FORC":
        return ("or", [("atom", "F"), ("atom", "C")])
    return ("atom", w)


def _formula_value(f, env):
    if f[0] == "const":
        return f[1]
    if f[0] == "atom":
        return env[f[1]]
    if f[0] == "not":
        return not _formula_value(f[1], env)
    vals = [_formula_value(x, env) for x in f[1]]
    return all(vals) if f[0] == "and" else any(vals)


def _only_under_dtype(e, chunk):
    """does the chunk occur in the test only as <chunk or a same-layout view / copy of it>.dtype...: a test on the type of the
    elements says nothing about how they lie in memory"""
    ok = True

    def visit(n, under):
        nonlocal ok
        if isinstance(n, ast.Name) and n.id == chunk:
            ok = ok and under
            return
        if isinstance(n, ast.Attribute) and n.attr == "dtype":
            visit(n.value, True)
            return
        if isinstance(n, ast.Call) and isinstance(n.func, ast.Attribute) and n.func.attr in ("view", "copy") and under:
            visit(n.func.value, True)
            for a in list(n.args) + [k.value for k in n.keywords]:
                visit(a, False)
            return
        for c in ast.iter_child_nodes(n):
            visit(c, False)

    visit(e, False)
    return ok


def _split_conditional(e, depth=0):
    """[(expression, [(test, outcome)])]: the alternatives of a (nested) conditional expression `a if t else b`, looked at through
    the layout-preserving wrappers, each with the tests that select it"""
    b = _layout_base(e)
    if isinstance(b, ast.IfExp) and depth < 4:
        out = []
        for arm, truth in ((b.body, True), (b.orelse, False)):
            for x, tests in _split_conditional(arm, depth + 1):
                out.append((x, [(b.test, truth)] + tests))
        return out
    return [(e, [])]


def _chunk_element_order(chk, Rec_write, paths, ceff):
    key = "esutil.recfile.Util.Recfile.write::chunk-in-element-order"
    chunk = Rec_write.params[1] if len(Rec_write.params) > 1 else "data"
    # premise: nothing below Records::Write follows the strides of the array or repacks it
    premise, why = True, ""
    if ceff is not None and "Records::Write" in ceff.cfun:
        try:
            for nm, d in _c_reachable(ceff, ceff.cfun["Records::Write"]):
                for x in cfront.walk(d):
                    t = ""
                    if x.get("kind") == "MemberExpr":
                        t = x.get("name") or ""
                    elif x.get("kind") in ("CallExpr", "CXXMemberCallExpr"):
                        t = cfront.callee_name(x) or ""
                        if not t and x.get("inner"):
                            t = _c_text(x["inner"][0])
                    elif x.get("kind") == "DeclRefExpr":
                        t = x.get("referencedDecl", {}).get("name") or ""
                    if re.search(r"^strides$|STRIDE|NpyIter|PyArray_(GETCONTIGUOUS|FromAny|CheckFromAny|FromArray|FROM_O|ContiguousFromAny|"
                                 r"NewCopy|Copy|GETPTR|GetPtr|IterNew|Flatten|Ravel)|C_CONTIGUOUS|NPY_ARRAY_CARRAY|NPY_ARRAY_IN_ARRAY", t):
                        premise, why = None, "%s uses %s" % (nm or "Records::Write", t)
        except (AnalysisError, _TooBig):
            premise, why = None, "the functions below Records::Write could not be enumerated"
    else:
        premise, why = None, "Records::Write not available"
    verdict, bad, unknown, nw = True, [], [], 0
    for st in paths:
        for w in _calls(st, "Write"):
            nw += 1
            x = w["args"][0] if w["args"] else None
            if x is None:
                unknown.append("line %s: Write() without a positional argument" % w["line"])
                continue
            # walk from the argument towards the array it has the layout of
            for x, tests in _split_conditional(x):
                e = _layout_base(x)
                made = _makes_c_contiguous(e)
                if made is True:
                    continue
                if made is None:
                    unknown.append("line %s: Write(%s): the order= / requirements= option is not a constant" % (w["line"], norm(x)[:60]))
                    continue
                if not (isinstance(e, ast.Name) and e.id == chunk):
                    unknown.append("line %s: Write(%s): the layout of %s is not known" % (w["line"], norm(x)[:60], norm(e)[:40]))
                    continue
                # the caller's array as it is: which layouts can take this path?
                forms, opaque, shown = [], [], []
                known = []
                for k, v, expr, _wh in st.facts[:w["nfacts"]]:
                    if isinstance(expr, ast.AST):
                        known.append((expr, v if _atom(expr)[1] else (not v)))
                for expr, truth in known + tests:
                    if not re.search(r"\b%s\b" % re.escape(chunk), norm(expr)):
                        continue
                    f = _layout_formula(expr, chunk)
                    if f is not None:
                        forms.append(f if truth else ("not", f))
                        shown.append("`%s` is %s" % (norm(expr)[:80], truth))
                    elif not _only_under_dtype(expr, chunk):
                        opaque.append(norm(expr)[:80])
                witnesses = [env for env in (dict(C=False, F=False), dict(C=False, F=True)) if all(_formula_value(f, env) for f in forms)]
                if not witnesses:
                    continue        # every chunk that takes this path has its C_CONTIGUOUS flag set
                if opaque:
                    unknown.append("line %s: Write(%s) on a path guarded by a test on the chunk that is not understood (`%s`)"
                                   % (w["line"], norm(x)[:50], opaque[0]))
                    continue
                wit = witnesses[-1]
                bad.append("line %s: Write(%s) gets the caller's array as it lies in memory %s; a chunk that is %s takes this path and its "
                           "records are stored in memory order, not element order"
                           % (w["line"], norm(x)[:50], ("on the path where [%s]" % "; ".join(shown)[:200]) if shown else "unconditionally",
                              "Fortran-contiguous with ndim >= 2 (a transposed table)" if wit["F"] else "a strided view (neither C- nor F-contiguous)"))
    if bad and premise is True:
        verdict = False
    elif bad or unknown or premise is None or not nw:
        verdict = None
    notes = sorted(set(bad))[:2] or sorted(set(unknown))[:2]
    chk.ob("R03.7", key, verdict, Rec_write.where(),
           "%son every path of Recfile.write (%d Write call(s) on %d path(s)) the array handed to Records::Write is C-contiguous (made by "
           "ascontiguousarray / copy() / order='C', or the path implies the chunk's C_CONTIGUOUS flag): Records::Write emits the records "
           "in memory order from the data pointer%s"
           % (("chunk NOT in element order: " + " | ".join(notes) + " -- rule: ") if bad else
              (("not decided: " + " | ".join(notes) + " -- rule: ") if unknown else ""),
              nw, len(paths), "" if premise is True else " [premise not established: %s]" % why))


# -- R03.7 text-chunk-native ------------------------------------------------------------------------------------------------
_SWAP_PRIMS = ("byteswap", "newbyteorder", "astype")
_BYTE_ORDER_WORDS = re.compile(r"native|byteorder|endian|swap", re.I)


def _native_converters(repo):
    """names of the package functions that (directly, or through package functions they call by name) reorder the bytes of an
    array: their body reaches a numpy byteswap / newbyteorder / astype call"""
    direct, callees = set(), {}
    for fi in repo.funcs.values():
        names = set()
        for x in ast.walk(fi.node):
            if isinstance(x, ast.Call):
                nm = call_name(x)
                if nm:
                    names.add(nm)
        callees[fi.name] = callees.get(fi.name, set()) | names
        if names & set(_SWAP_PRIMS):
            direct.add(fi.name)
    conv = set(direct)
    for _ in range(3):
        conv |= {nm for nm, cs in callees.items() if cs & conv}
    return conv


_TEXT_ATTR = re.compile(r"^self\.(is_ascii|isascii|is_text|istext|ascii|text)$")


def _text_handle_states(repo, Rec_open, where):
    """abstract states of a handle that was opened as a delimited-text one: the final (attribute values, branch facts) of every
    returning path of Recfile.open (parameter-less helpers of the class such as close() followed) on which the text flag is true
    or can be true (then the fact that makes it true is added).  Always ends with one stateless fallback (no attribute known, the
    flag assumed true) when the paths of open cannot be used.  -> ([_St], did the open paths give the states)"""
    states, seen = [], set()
    try:
        px = _PX(repo, want=lambda f: f.cls is not None and f.cls == Rec_open.cls and len(f.params) == 1, maxdepth=2, budget=60000)
        finals = [st for k, _, st in px.run(Rec_open, {}) if k == "return"]
    except (_TooBig, AnalysisError, RecursionError):
        finals = []
    for st in finals:
        attr = next((k for k in sorted(st.heap) if _TEXT_ATTR.match(k)), None)
        if attr is not None:
            v = st.heap[attr]
        elif "self.delim" in st.heap:
            v = ast.Compare(left=copy.deepcopy(st.heap["self.delim"]), ops=[ast.IsNot()], comparators=[ast.Constant(value=None)])
        else:
            continue
        v = _with_eqs(v, st.facts)
        d = _decide(v, st.facts)
        if d is False:
            continue
        facts = st.facts if d is True else st.facts + tuple(_implied(v, True, where))
        sig = (tuple(sorted((k, norm(x)) for k, x in st.heap.items())), d)
        if sig in seen:
            continue
        seen.add(sig)
        states.append(_St(heap=dict(st.heap), facts=facts))
    if states:
        return states, True
    seed = []
    for text in ("self.is_ascii",):
        seed.extend(_implied(ast.parse(text, mode="eval").body, True, where))
    seed.extend(_implied(ast.parse("self.delim is not None", mode="eval").body, True, where))
    return [_St(facts=tuple(seed))], False


def _refined_facts(facts, known):
    """[(key, outcome, test)] of the facts with compound tests reduced: an `A and B` that came out false (an `A or B` that came
    out true) with every operand but one decided the other way by what is known says that the remaining operand is false (true)"""
    out = []
    for k, v, expr, where in facts:
        e, want = expr, v
        if k[0] == "truth":
            k0, pol = _atom(expr)
            want = v if pol else (not v)        # outcome of `expr` itself
            while isinstance(e, ast.UnaryOp) and isinstance(e.op, ast.Not):
                e, want = e.operand, not want
            if isinstance(e, ast.BoolOp) and (isinstance(e.op, ast.And) != bool(want)):
                neutral = isinstance(e.op, ast.And)
                rest = [x for x in e.values if _decide(x, tuple(known)) is not neutral]
                if len(rest) == 1:
                    out.extend((k2, v2, e2) for k2, v2, e2, _ in _implied(rest[0], want, where))
                    continue
        out.append((k, v, expr))
    return out


def _fresh_object(v):
    """an expression that certainly is not None: the result of constructing something (`numpy.dtype(..)`, `records.Records(..)`,
    `numpy.array(..)`: a call through a dotted library / class name), see also _is_notnone"""
    return _is_notnone(v) or (isinstance(v, ast.Call) and isinstance(v.func, ast.Attribute)
                              and (dotted_name(v.func) or "").split(".")[0] in ("numpy", "np", "records")
                              and call_name(v) in ("dtype", "Records", "array", "zeros", "empty"))


def _text_chunk_native(chk, repo, Rec_write, paths, ceff):
    """the text writer of Records::Write formats every number by reading it from the row buffer as a value of the machine
    (no byte swapping anywhere below Records::Write), and SFile's text compatibility check deliberately ignores byte order: so
    for EVERY state a text handle can be in after Recfile.open -- freshly created ('w': no dtype yet) or reopened for appending
    ('r+': dtype known) alike -- and on every path of Recfile.write, the array handed to Records::Write must have gone through the
    package's native-byte-order conversion; otherwise an accepted chunk in the other byte order is stored as garbage and the
    file is not the concatenation of the chunks.  A path that skips the conversion is excused only by a test on the chunk itself
    or on byte order (then: no verdict), never by a test on the state of the handle."""
    key = "esutil.recfile.Util.Recfile.write::text-chunk-native"
    conv = _native_converters(repo)
    premise = True      # nothing below Records::Write swaps bytes itself
    if ceff is not None and "Records::Write" in ceff.cfun:
        try:
            for _, d in _c_reachable(ceff, ceff.cfun["Records::Write"]):
                for c in cfront.calls_in(d):
                    if re.search(r"swap|ntoh|hton", cfront.callee_name(c) or "", re.I):
                        premise = None
        except AnalysisError:
            premise = None
    Rec_open = repo.funcs.get("%s.%s.open" % (Rec_write.module.name, Rec_write.cls)) if Rec_write.cls else None
    where = (Rec_write, Rec_write.node.lineno)
    states, typed = _text_handle_states(repo, Rec_open, where) if Rec_open is not None else ([_St()], False)
    chunk = Rec_write.params[1] if len(Rec_write.params) > 1 else "data"
    direct = {fi.name for fi in repo.funcs.values()
              if any(isinstance(x, ast.Call) and call_name(x) in _SWAP_PRIMS for x in ast.walk(fi.node))}
    # helpers of the module / class that merely reach a converter are followed statement by statement (what they do to the array
    # shows as the events inside them), so a call to one of them is not by itself evidence of a conversion
    followed = {fi.name for fi in repo.funcs.values() if fi.module is Rec_write.module and fi.cls in (None, Rec_write.cls)} - direct
    verdict, bad, nw, npaths, used = True, [], 0, 0, set()
    if len(states) > 256:
        states, verdict = states[:256], None        # not every state looked at: a pass would not be a pass
    for s0 in states:
        try:
            wpaths = [st for k, _, st in _PX(repo, stop=direct, budget=40000).run(Rec_write, {}, st=_St(heap=dict(s0.heap), facts=s0.facts))
                      if k == "return"]
        except _TooBig:
            verdict = None if verdict is not False else False
            continue
        npaths += len(wpaths)
        for st in wpaths:
            for w in _calls(st, "Write"):
                nw += 1
                x = w["args"][0] if w["args"] else None
                if x is None:
                    verdict = None if verdict is not False else False
                    continue
                xt = norm(x)
                converted = None
                for c in ast.walk(x):
                    if isinstance(c, ast.Call) and (call_name(c) in conv or call_name(c) in _SWAP_PRIMS):
                        converted = call_name(c)
                for e in st.events[:w["nev"]]:
                    if e["kind"] == "call" and e["name"] in conv and e["name"] not in followed and any(norm(a) == xt for a in e["args"]):
                        converted = e["name"]       # converted in place by a converter that is taken as a whole
                    if e["kind"] == "call" and e["name"] in _SWAP_PRIMS and e["recv"] is not None and norm(e["recv"]) == xt:
                        converted = e["name"]
                if converted:
                    used.add(converted)
                    continue
                # the guards this path passed inside Recfile.write; those that hold for every handle in this state are dropped
                guards, excused, unknown = [], False, False
                for k, v, expr in _refined_facts(st.facts[len(s0.facts):w["nfacts"]], s0.facts):
                    text = " ".join(map(str, k[1:]))
                    pol = _atom(expr)[1] if isinstance(expr, ast.AST) else True
                    shown = norm(expr) if isinstance(expr, ast.AST) else text
                    guards.append("`%s` is %s" % (shown if len(shown) <= 90 else shown[:40] + " ... " + shown[-45:], v if pol else (not v)))
                    if k[0] == "is" and "None" in k[1:] and v is False and isinstance(expr, ast.Compare) \
                            and _fresh_object(expr.comparators[0] if _is_none(expr.left) else expr.left):
                        continue        # `<constructed object> is None` is false for every handle in this state
                    if _BYTE_ORDER_WORDS.search(text) or re.search(r"\b%s\b" % re.escape(chunk), text):
                        excused = True
                    elif "__unk" in text or "__ret" in text:
                        unknown = True
                    elif typed:
                        pass            # a term over the state of the handle only (the chunk does not occur in it): it says
                        #                 nothing about the byte order of the chunk
                    elif re.fullmatch(r"self\.robj", " ".join(t for t in k[1:] if t != "None")):
                        pass            # the handle is open
                    else:
                        unknown = True
                if excused or unknown or premise is None:
                    res = None
                else:
                    res = False
                bad.append("line %s: Write(%s)%s" % (w["line"], xt[:50], (" on the path where [%s]" % "; ".join(guards)[:200]) if guards else " unconditionally"))
                verdict = False if (res is False or verdict is False) else None
    if not nw:
        verdict = None
    chk.ob("R03.7", key, verdict, Rec_write.where(),
           "%sfor every state of a text handle after Recfile.open (%d state(s)%s) and every path of Recfile.write (%d), the array "
           "handed to Records::Write has been converted to native byte order (%d Write call(s); converters seen: %s)"
           % ("" if not bad else "text chunk NOT converted to native byte order: " + " | ".join(sorted(set(bad))[:2]) + " -- rule: ",
              len(states), "" if typed else ", open() not enumerable: flag assumed", npaths, nw, sorted(used)))
