"""C11 -- cosmological distances equal their Hogg (1999) definitions."""
import ast

import sympy as sp

from vcheck import cfront, csymx, rules, symx
from vcheck.cfg import eval_test
from vcheck.core import PyRepo, AnalysisError, call_name, dotted_name, kwarg, norm, walk_no_nested
from vcheck.cstr import parse_tuple_format
from vcheck.ceffects import parse_tuple_binding
from vcheck.rules import cfg_of

MANIFEST = dict(
    text="Formula conformance from the clang AST plus wrapper/dispatch cross-checks (not numerical testing): every distance function of "
         "the C library is lowered to a term (callee calls as function symbols, the quadrature loop as a finite sum) and compared with "
         "Hogg (1999): 1/E(z) for flat and curved models, the fixed-order Gauss-Legendre integral with the affine map (5 nodes; 10 for the "
         "volume), D_C = D_H*int, D_M with sinh/sin arms and sqrt|Omega_k|/D_H, D_A = D_M/(1+z), D_L = (1+z) D_M, dV, V with 4 pi, inverse "
         "critical density (zero for z_s <= z_l) and its constant 4 pi G/c^2 against CODATA-derived value, c in C and Python equal; node / "
         "weight arrays are written only by the rule generator on [-1,1]; 26 C wrappers: parse format, output sized from the array "
         "argument, stored term = Q(arg1[i]|arg1, arg2[i]|arg2) (after one level of inlining), complete method table; five Python "
         "dispatchers: scalar pattern -> suffix -> converted argument, length check dominating the two-array call; exhaustive abstract "
         "evaluation of the parameter normaliser over (omega_k in {None,0,nonzero}) x (flat in {T,F}); h overrides H0, D_H = c/H0; copy "
         "and pickle argument order; distance modulus formula.",
    note="Not decided: truncation-error bound of the fixed-order rule, bit-identical results of copies (follows from equal constructor "
         "arguments), libm. Trusted: clang AST, sympy normaliser, the method-table-to-Python naming of the extension type.",
    technique="static analysis: formula conformance by symbolic normal forms lowered from the clang AST, format/table agreement, sibling cross-check of wrappers and dispatchers, exhaustive abstract evaluation of the normaliser",
)

CQ = "esutil.cosmology.cosmology."
TWO = {"Dc": ("zmin", "zmax"), "Dm": ("zmin", "zmax"), "Da": ("zmin", "zmax"), "Dl": ("zmin", "zmax"), "scinv": ("zl", "zs")}
ONE = {"ez_inverse": "z", "dV": "z"}


# rules that keep their verdict however the code is laid out (decided by term equality, effect analysis or dominance over
# resolved calls); every other rule of this check is a template rule (vcheck.core.Check.obt)
SEMANTIC = ('R11.1', 'R11.3', 'R11.4')


def run(chk):
    repo = PyRepo()
    chk.set_templates(repo, semantic=SEMANTIC)
    chk.explanation = MANIFEST["text"]
    chk.trusted = ["clang 14 AST", "sympy normaliser", "PyMethodDef name -> Python attribute"]
    chk.floor = 150
    lib = cfront.functions(cfront.load_tu("cosmolib"))
    wrap_decls = cfront.load_tu("cosmolib_pywrap")
    wrap = cfront.functions(wrap_decls)
    formulas(chk, lib)
    quadrature(chk, lib)
    wrappers(chk, lib, wrap, wrap_decls)
    dispatch(chk, repo)
    normaliser(chk, repo)
    constructor(chk, repo, wrap)
    copy_pickle(chk, repo)
    distmod(chk, repo)


def S(n):
    return sp.Symbol(n)


def lowered(lib, name, symbols=None):
    if name not in lib:
        raise AnalysisError("C anchor %s not found in cosmolib.c" % name)
    r, L = csymx.lower_function(lib[name], symbols)
    return csymx.merged_return(r), L


def _eq(a, b):
    return symx.equal(a, b)[0]


def formulas(chk, lib):
    W = "esutil/cosmology/cosmolib.c"
    z, zmin, zmax, zl, zs = S("z"), S("zmin"), S("zmax"), S("zl"), S("zs")
    om, ol, ok_, DH, tc, flat = S("c.omega_m"), S("c.omega_l"), S("c.omega_k"), S("c.DH"), S("c.tcfac"), S("c.flat")
    c = S("c")
    Fn = {n: sp.Function(n) for n in ("ez_inverse", "ez_inverse_integral", "Dc", "Dm", "Da", "Dl", "dV")}
    # 1/E(z)
    t, _ = lowered(lib, "ez_inverse")
    ps = t.args if isinstance(t, sp.Piecewise) else ()
    flat_arm = [v for v, cnd in ps if cnd != sp.true and (cnd == sp.Ne(flat, 0))] or [v for v, cnd in ps if cnd == sp.true and any(cc == sp.Eq(flat, 0) for _, cc in ps)]
    curv_arm = [v for v, cnd in ps if v not in flat_arm]
    okf = len(flat_arm) == 1 and _eq(flat_arm[0], 1 / sp.sqrt(om * (1 + z) ** 3 + ol))
    chk.ob("R11.1", "ez_inverse::flat", okf, W, "flat: 1/E = 1/sqrt(Om (1+z)^3 + OL) (found %s)" % flat_arm)
    okc = len(curv_arm) == 1 and _eq(curv_arm[0], 1 / sp.sqrt(om * (1 + z) ** 3 + ok_ * (1 + z) ** 2 + ol))
    chk.ob("R11.1", "ez_inverse::curved", okc, W, "curved: 1/E = 1/sqrt(Om (1+z)^3 + Ok (1+z)^2 + OL) (found %s)" % curv_arm)
    # integral
    t, _ = lowered(lib, "ez_inverse_integral")
    i = sp.Symbol("i", integer=True)
    f1, f2 = (zmax - zmin) / 2, (zmax + zmin) / 2
    ref = sp.Sum(f1 * sp.Function("c.w")(i) * Fn["ez_inverse"](c, sp.Function("c.x")(i) * f1 + f2), (i, 0, 4))
    ok = isinstance(t, sp.Sum) and t.limits == ref.limits and _eq(t.function, ref.function)
    chk.ob("R11.1", "ez_inverse_integral::gauss-legendre-sum", ok, W, "(b-a)/2 * sum_{i<5} w_i / E((b-a)/2 x_i + (a+b)/2) (found %s)" % t)
    t, _ = lowered(lib, "Dc")
    chk.ob("R11.1", "Dc", _eq(t, DH * Fn["ez_inverse_integral"](c, zmin, zmax)), W, "D_C = D_H * integral of 1/E (found %s)" % t)
    t, _ = lowered(lib, "Dm")
    dc = Fn["Dc"](c, zmin, zmax)
    arms = {}
    if isinstance(t, sp.Piecewise):
        for v, cnd in t.args:
            if isinstance(v, sp.Piecewise):
                for v2, c2 in v.args:
                    arms["open" if c2 != sp.true else "closed"] = (v2, cnd, c2)
            else:
                arms["flat"] = (v, cnd, None)
    ok = set(arms) == {"open", "closed", "flat"} and _eq(arms["open"][0], sp.sinh(dc * tc) / tc) and _eq(arms["closed"][0], sp.sin(dc * tc) / tc) and _eq(arms["flat"][0], dc)
    chk.ob("R11.1", "Dm::three-arms", bool(ok), W, "D_M = sinh(D_C t)/t (Ok>0), sin(D_C t)/t (Ok<0), D_C (flat), t = sqrt|Ok|/D_H (found %s)" % t)
    if "open" in arms:
        okc = arms["open"][2] == sp.Gt(ok_, 0) and arms["open"][1] == sp.Eq(flat, 0)
        chk.ob("R11.1", "Dm::arm-conditions", bool(okc), W, "sinh arm for Omega_k > 0, curved arms only when not flat (%s, %s)" % (arms["open"][1], arms["open"][2]))
    t, _ = lowered(lib, "Da")
    chk.ob("R11.1", "Da", _eq(t, Fn["Dm"](c, zmin, zmax) / (1 + zmax)), W, "D_A = D_M/(1+z) (found %s)" % t)
    t, _ = lowered(lib, "Dl")
    chk.ob("R11.1", "Dl", _eq(t, Fn["Dm"](c, zmin, zmax) * (1 + zmax)), W, "D_L = (1+z) D_M (found %s)" % t)
    t, _ = lowered(lib, "dV")
    chk.ob("R11.1", "dV", _eq(t, DH * (1 + z) ** 2 * Fn["Da"](c, 0, z) ** 2 * Fn["ez_inverse"](c, z)), W, "dV = D_H (1+z)^2 D_A(0,z)^2 / E(z) (found %s)" % t)
    t, _ = lowered(lib, "V")
    ref = 4 * sp.pi * sp.Sum(f1 * sp.Function("c.vw")(i) * Fn["dV"](c, sp.Function("c.vx")(i) * f1 + f2), (i, 0, 9))
    ok = False
    if isinstance(t, sp.Mul):
        k, rest = t.as_independent(sp.Sum, as_Add=False)
        ok = isinstance(rest, sp.Sum) and sp.simplify(k - 4 * sp.pi) == 0 and rest.limits == ((i, 0, 9),) and _eq(rest.function, ref.args[-1].function if isinstance(ref.args[-1], sp.Sum) else 0)
        if not ok and isinstance(rest, sp.Sum):
            ok = sp.simplify(k - 4 * sp.pi) == 0 and rest.limits == ((i, 0, 9),) and _eq(rest.function, f1 * sp.Function("c.vw")(i) * Fn["dV"](c, sp.Function("c.vx")(i) * f1 + f2))
    chk.ob("R11.1", "V::ten-point-sum-times-4pi", bool(ok), W, "V = 4 pi * (b-a)/2 * sum_{i<10} vw_i dV((b-a)/2 vx_i + (a+b)/2) (found %s)" % t)
    t, _ = lowered(lib, "scinv")
    zero = [(v, cnd) for v, cnd in (t.args if isinstance(t, sp.Piecewise) else ()) if v == 0]
    main = [(v, cnd) for v, cnd in (t.args if isinstance(t, sp.Piecewise) else ()) if v != 0]
    okz = len(zero) == 1 and zero[0][1] in (sp.Le(zs, zl), sp.Ge(zl, zs))
    chk.ob("R11.1", "scinv::zero-for-source-at-or-in-front-of-lens", okz, W, "Sigma_crit^-1 = 0 for z_s <= z_l (found %s)" % zero)
    DaF = sp.Function("Da")
    if len(main) == 1:
        v = main[0][0]
        k, rest = v.as_independent(DaF, as_Add=False)
        okm = _eq(rest, DaF(c, zl, zs) * DaF(c, 0, zl) / DaF(c, 0, zs))
        chk.ob("R11.1", "scinv::distance-ratio", okm, W, "Sigma_crit^-1 proportional to D_ls D_l / D_s (found %s)" % rest)
        # 4 pi G / c^2 in pc^2/Msun per Mpc: 4 pi (GM_sun)/c^2 / pc * 1e6
        GM = sp.Rational("1.32712440018e20")
        cl = sp.Rational("2.99792458e8")
        pc = sp.Rational("3.0856775814913673e16")
        want = 4 * sp.pi * GM / cl ** 2 / pc * 10 ** 6
        rel = abs(float(k / want) - 1)
        chk.ob("R11.1", "scinv::four-pi-G-over-c-squared", rel < 1e-3, W, "the constant %s agrees with 4 pi G M_sun/c^2 per pc (x 1e6 pc/Mpc) = %.9g within 1e-3 (relative difference %.2e)" % (float(k), float(want), rel))
    # cosmo_new: tcfac
    new = lib.get("cosmo_new")
    if new is None:
        raise AnalysisError("cosmo_new not found")
    rows = csymx.stmt_rhs_table(new)
    tcs = [r for l, r, _ in rows if l == "c->tcfac" and r is not None]
    okt = any(_eq(r, sp.sqrt(S("c.omega_k")) / S("c.DH")) for r in tcs) and any(_eq(r, sp.sqrt(-S("c.omega_k")) / S("c.DH")) for r in tcs)
    chk.ob("R11.1", "cosmo_new::tcfac", okt, W, "tcfac = sqrt(|Omega_k|)/D_H (sqrt(Ok) for Ok>0, sqrt(-Ok) otherwise): %s" % tcs)
    cp = {l: str(r) for l, r, _ in rows if l.startswith("c->") and l != "c->tcfac"}
    chk.ob("R11.1", "cosmo_new::parameters-stored", cp == {"c->DH": "DH", "c->flat": "flat", "c->omega_m": "omega_m", "c->omega_l": "omega_l", "c->omega_k": "omega_k"}, W, "the five parameters are stored unmodified (%s)" % cp)


def quadrature(chk, lib):
    W = "esutil/cosmology/cosmolib.c"
    new = lib["cosmo_new"]
    calls = [cfront.render(c) for c in cfront.calls_in(new) if cfront.callee_name(c) == "gauleg"]
    ok = sorted(calls) == sorted(["gauleg(-1.0, 1.0, 5, c->x, c->w)", "gauleg(-1.0, 1.0, 10, c->vx, c->vw)"]) or \
        sorted(c.replace("-1.0", "-1").replace("1.0", "1") for c in calls) == sorted(["gauleg(-1, 1, 5, c->x, c->w)", "gauleg(-1, 1, 10, c->vx, c->vw)"])
    chk.ob("R11.2", "cosmo_new::rules-on-unit-interval", ok, W, "nodes/weights are the 5- and 10-point rules on [-1,1] (%s)" % calls)
    # who may write the node/weight arrays
    writers = set()
    for name, fn in lib.items():
        for x in cfront.walk(cfront.body_of(fn)):
            if x.get("kind") in ("BinaryOperator", "CompoundAssignOperator") and (x.get("opcode") == "=" or x.get("kind") == "CompoundAssignOperator"):
                l = cfront.render(x["inner"][0])
                if l.startswith(("c->x[", "c->w[", "c->vx[", "c->vw[")):
                    writers.add(name)
    chk.ob("R11.2", "node-weight-arrays::no-other-writer", not writers, W, "no function other than the rule generator stores into the node/weight arrays (%s)" % sorted(writers))


def wrappers(chk, lib, wrap, decls):
    W = "esutil/cosmology/cosmolib_pywrap.c"
    # method table
    mt = [x for x in decls if x.get("name") == "PyCosmoObject_methods"]
    if not mt:
        raise AnalysisError("PyCosmoObject_methods table not found")
    il = [y for y in cfront.walk(mt[0]) if y.get("kind") == "InitListExpr"][0]
    table = {}
    for e in il["inner"]:
        if e.get("kind") == "InitListExpr":
            parts = e.get("inner", [])
            nm = cfront.render(parts[0]).strip('"')
            fn = cfront.render(parts[1]) if len(parts) > 1 else None
            if nm and fn and fn not in ("NULL", "0") and nm not in ("NULL", "0") and not nm.startswith("<"):
                table[nm] = fn
    expected = ["DH", "flat", "omega_m", "omega_l", "omega_k", "ez_inverse", "ez_inverse_vec", "ez_inverse_integral", "dV", "dV_vec", "V"]
    for q in TWO:
        expected += [q, q + "_vec1", q + "_vec2", q + "_2vec"]
    miss = [m for m in expected if table.get(m) != "PyCosmoObject_" + m]
    chk.ob("R11.3", "method-table::complete-and-consistent", not miss and len(table) == len(expected), W, "all %d methods map to their own wrapper (missing/mismatched: %s; extra: %s)" % (len(expected), miss, sorted(set(table) - set(expected))))
    c = S("self.cosmo")

    def check(wname, q, argspec):
        fn = wrap.get("PyCosmoObject_" + wname)
        if fn is None:
            chk.ob("R11.3", wname + "::present", False, W, "wrapper missing")
            return
        chk.analysed_unit("PyCosmoObject_" + wname)
        fmt, names = parse_tuple_binding(fn)
        want_fmt = ["O" if v else "d" for _, v in argspec]
        chk.ob("R11.3", wname + "::parse-format", parse_tuple_format(fmt or "") == want_fmt, W, "format %r matches (%s)" % (fmt, ", ".join("%s:%s" % (n, "array" if v else "scalar") for n, v in argspec)))
        rows = csymx.stmt_rhs_table(fn, {"self": S("self")})
        vec = any(v for _, v in argspec)
        # map parsed object names to data pointer names:  zmin = (double*)PyArray_DATA(zminObj)
        ptr = {}
        for l, r, node in rows:
            txt = cfront.render(node["inner"][1])
            if "PyArray_DATA(" in txt:
                obj = txt.split("PyArray_DATA(")[1].rstrip(")")
                ptr[obj] = l
        i = sp.Symbol("i", integer=True)
        args = []
        for k, (n, v) in enumerate(argspec):
            pn = names[k] if k < len(names) else n
            if v:
                args.append(sp.Function(ptr.get(pn, pn))(i))
            else:
                args.append(S(pn))
        ref_call = sp.Function(q)(c, *args)
        body, _ = lowered(lib, q, dict([("c", c)] + list(zip([p for p in cfront.params_of(lib[q])[1:]], args))))
        # the member symbols of the inlined body are rendered as c.X with c = self.cosmo
        body = body.xreplace({s: S(str(s).replace("c.", "self.cosmo.", 1)) for s in body.free_symbols if str(s).startswith("c.")}) if body is not None else None
        tgt = "res[i]" if vec else None
        got = None
        for l, r, node in rows:
            if vec and l == "res[i]":
                got = r
            if not vec and r is not None and r.has(sp.Function(q)):
                got = r
        ok = got is not None and (_eq(got, ref_call) or (body is not None and _eq(got, body)))
        chk.ob("R11.3", wname + "::computes-%s-of-its-arguments" % q, bool(ok), W, "stores %s (found %s)" % (ref_call, got))
        if vec:
            # output sized from the (first) array argument, loop over all n elements
            arr = [names[k] for k, (n, v) in enumerate(argspec) if v and k < len(names)]
            sz = [cfront.render(node["inner"][1]) for l, r, node in rows if l == "n"]
            oks = len(sz) == 1 and arr and ("PyArray_DIMS(%s)" % arr[0] in sz[0] or "PyArray_SIZE(%s)" % arr[0] in sz[0])
            chk.ob("R11.3", wname + "::output-sized-from-array-argument", bool(oks), W, "n is the size of %s (%s)" % (arr[:1], [s[:60] for s in sz]))
            fors = [x for x in cfront.walk(cfront.body_of(fn)) if x.get("kind") == "ForStmt"]
            okl = len(fors) == 1 and cfront.render(fors[0]["inner"][0]) == "(i = 0)" and cfront.render(fors[0]["inner"][2]) == "(i < n)"
            chk.ob("R11.3", wname + "::loop-over-all-elements", okl, W, "for i in [0, n)")
            alloc = [c_ for c_ in cfront.calls_in(cfront.body_of(fn)) if "PyArray_API" in cfront.render(c_) or cfront.callee_name(c_) in ("PyArray_ZEROS", "PyArray_Zeros")]
            rets = [cfront.render(x) for x in cfront.walk(cfront.body_of(fn)) if x.get("kind") == "ReturnStmt"]
            chk.ob("R11.3", wname + "::returns-new-array", "return resObj" in rets, W, "a newly allocated float64 array is returned")

    for q, (a1, a2) in TWO.items():
        check(q, q, [(a1, False), (a2, False)])
        check(q + "_vec1", q, [(a1, True), (a2, False)])
        check(q + "_vec2", q, [(a1, False), (a2, True)])
        check(q + "_2vec", q, [(a1, True), (a2, True)])
    for q, a in ONE.items():
        check(q, q, [(a, False)])
        check(q + "_vec", q, [(a, True)])
    check("V", "V", [("zmin", False), ("zmax", False)])
    check("ez_inverse_integral", "ez_inverse_integral", [("zmin", False), ("zmax", False)])
    # accessors return the stored parameter
    for m in ("DH", "flat", "omega_m", "omega_l", "omega_k"):
        fn = wrap.get("PyCosmoObject_" + m)
        rets = [cfront.render(x) for x in cfront.walk(cfront.body_of(fn)) if x.get("kind") == "ReturnStmt"] if fn else []
        chk.ob("R11.3", m + "::accessor", any("self->cosmo->%s" % m in r for r in rets), W, "accessor %s() returns the stored value (%s)" % (m, rets))


def dispatch(chk, repo):
    for meth, cq, (a1, a2) in (("Dc", "Dc", ("zmin", "zmax")), ("Dm", "Dm", ("zmin", "zmax")), ("Da", "Da", ("zmin", "zmax")), ("Dl", "Dl", ("zmin", "zmax")), ("sigmacritinv", "scinv", ("zl", "zs"))):
        fi = repo.func(CQ + "Cosmo." + meth)
        chk.analysed_unit(fi.qualname)
        cfg = cfg_of(fi)
        for s1 in (True, False):
            for s2 in (True, False):
                assume = {"isscalar(%s)" % a1: s1, "isscalar(%s)" % a2: s2}
                v = cfg.specialise(assume=assume)
                calls = [(n, c) for n in v.nodes() for c in rules.stmts_calls(n) if isinstance(c.func, ast.Attribute) and norm(c.func.value) == "self._cosmo"]
                suffix = {(True, True): "", (False, True): "_vec1", (True, False): "_vec2", (False, False): "_2vec"}[(s1, s2)]
                tag = "%s[%s %s,%s %s]" % (meth, a1, "scalar" if s1 else "array", a2, "scalar" if s2 else "array")
                ok = len(calls) == 1 and calls[0][1].func.attr == cq + suffix and [norm(a) for a in calls[0][1].args] == [a1, a2]
                chk.ob("R11.4", tag + "::selects-" + cq + suffix, ok, fi.where(), "dispatches to _cosmo.%s(%s, %s) (found %s)" % (cq + suffix, a1, a2, [norm(c) for _, c in calls]))
                # array arguments are converted by _as_c_order before the call, scalars are not touched
                conv = {norm(n.ast.targets[0]) for n in v.nodes() if n.kind == "stmt" and isinstance(n.ast, ast.Assign) and isinstance(n.ast.value, ast.Call) and call_name(n.ast.value) == "_as_c_order"
                        and norm(n.ast.value.args[0]) == norm(n.ast.targets[0])}
                want = {a for a, s in ((a1, s1), (a2, s2)) if not s}
                chk.ob("R11.4", tag + "::converts-array-arguments", conv == want, fi.where(), "converted to float64 C-contiguous: %s (want %s)" % (sorted(conv), sorted(want)))
                if not s1 and not s2 and calls:
                    vv = v
                    guards = [n for n in vv.nodes() if n.kind == "raise" and any(t.replace(" ", "") == "len(%s)!=len(%s)" % (a1, a2) and lab == "T" for t, lab in rules.controlling_tests(vv, n))]
                    okg = bool(guards) and vv.dominates(vv.controlling_branches(guards[0])[0][0], calls[0][0])
                    chk.ob("R11.4", tag + "::length-mismatch-rejected", okg, fi.where(), "different lengths raise before the two-array call")
        rets = [x for x in walk_no_nested(fi.node) if isinstance(x, ast.Return)]
        asg = {norm(n.ast.targets[0]) for n in cfg.nodes if n.kind == "stmt" and isinstance(n.ast, ast.Assign) and isinstance(n.ast.value, ast.Call) and isinstance(n.ast.value.func, ast.Attribute) and norm(n.ast.value.func.value) == "self._cosmo"}
        chk.ob("R11.4", meth + "::returns-result", len(rets) == 1 and len(asg) == 1 and norm(rets[0].value) in asg, fi.where(), "the extension's result is returned unmodified")
    for meth, cq in (("dV", "dV"), ("Ez_inverse", "ez_inverse")):
        fi = repo.func(CQ + "Cosmo." + meth)
        chk.analysed_unit(fi.qualname)
        cfg = cfg_of(fi)
        for s in (True, False):
            v = cfg.specialise(assume={"isscalar(z)": s})
            calls = [c for n in v.nodes() for c in rules.stmts_calls(n) if isinstance(c.func, ast.Attribute) and norm(c.func.value) == "self._cosmo"]
            ok = len(calls) == 1 and calls[0].func.attr == cq + ("" if s else "_vec") and [norm(a) for a in calls[0].args] == ["z"]
            chk.ob("R11.4", "%s[z %s]" % (meth, "scalar" if s else "array"), ok, fi.where(), "dispatches to _cosmo.%s(z)" % (cq + ("" if s else "_vec")))
    for meth, cq in (("V", "V"), ("Ezinv_integral", "ez_inverse_integral")):
        fi = repo.func(CQ + "Cosmo." + meth)
        rets = [norm(x.value) for x in walk_no_nested(fi.node) if isinstance(x, ast.Return)]
        chk.ob("R11.4", meth + "::delegates", rets == ["self._cosmo.%s(zmin, zmax)" % cq], fi.where(), "delegates to _cosmo.%s(zmin, zmax)" % cq)
    ac = repo.func(CQ + "_as_c_order")
    rets = [norm(x.value) for x in walk_no_nested(ac.node) if isinstance(x, ast.Return)]
    chk.ob("R11.4", "_as_c_order::float64-contiguous", rets == ["np.atleast_1d(np.asarray(arr, dtype='f8', order='C'))"], ac.where(), "array arguments become float64, C-contiguous, at least 1-d (matches the double* reads of the wrappers): %s" % rets)


def normaliser(chk, repo):
    fi = repo.func(CQ + "Cosmo.extract_parms")
    chk.analysed_unit(fi.qualname)
    cfg = cfg_of(fi)
    om, ol, okv = sp.symbols("omega_m omega_l omega_k")
    for kcase in ("None", "zero", "nonzero"):
        for flat_in in (True, False):
            assume = {"omega_k is not None": kcase != "None", "omega_k is None": kcase == "None", "omega_k == 0.0": kcase == "zero"}
            # abstract evaluation: follow the CFG with the predicate outcomes; `flat` is tracked as a literal
            state = {"flat": flat_in, "omega_k": {"None": None, "zero": 0.0, "nonzero": "K"}[kcase], "omega_l": "L", "omega_m": "M"}
            n = cfg.entry
            steps = 0
            result = None
            while n is not None and steps < 200:
                steps += 1
                if n.kind == "return":
                    result = tuple(state.get(norm(e), norm(e)) for e in n.ast.value.elts)
                    break
                nxt = None
                if n.kind == "branch":
                    t = norm(n.ast.test)
                    if t in assume:
                        val = assume[t]
                    elif t == "flat":
                        val = bool(state["flat"])
                    else:
                        raise AnalysisError("normaliser test `%s` not in the abstraction" % t)
                    for j in cfg.g.successors(n.id):
                        if ("T" if val else "F") in cfg.g[n.id][j]["labels"]:
                            nxt = cfg.node(j)
                else:
                    a = n.ast
                    if n.kind == "stmt" and isinstance(a, ast.Assign):
                        tgt = norm(a.targets[0])
                        v = a.value
                        if isinstance(v, ast.Constant):
                            state[tgt] = v.value
                            if tgt == "omega_k":
                                assume.update({"omega_k is not None": True, "omega_k is None": False, "omega_k == 0.0": v.value == 0.0})
                        elif norm(v) == "1.0 - omega_m":
                            state[tgt] = "1-M"
                        else:
                            raise AnalysisError("normaliser assignment `%s` not in the abstraction" % norm(a))
                    succ = list(cfg.g.successors(n.id))
                    nxt = cfg.node(succ[0]) if succ else None
                n = nxt
            if kcase == "nonzero":
                want = (False, "M", "L", "K")
            else:
                want = (True, "M", "1-M", 0.0)
            chk.ob("R11.5", "extract_parms[omega_k=%s,flat=%s]" % (kcase, flat_in), result == want, fi.where(),
                   "normalised (flat, omega_m, omega_l, omega_k) = %s (abstract evaluation gives %s)" % (want, result))
    chk.assume("parameter normalisation rule as implemented and documented: a non-zero omega_k decides the geometry; otherwise flat with omega_k=0 and omega_l=1-omega_m")


def constructor(chk, repo, wrap):
    fi = repo.func(CQ + "Cosmo.__init__")
    chk.analysed_unit(fi.qualname)
    cfg = cfg_of(fi)
    view = cfg.view()
    env = {}
    for n in cfg.nodes:
        if n.kind == "stmt" and isinstance(n.ast, ast.Assign):
            env.setdefault(norm(n.ast.targets[0]), []).append((norm(n.ast.value), rules.controlling_tests(view, n)))
    chk.ob("R11.5", "Cosmo.__init__::h-overrides-H0", ("100.0 * h", [("h is not None", "T")]) in env.get("H0", []), fi.where(), "H0 = 100 h when h is given (%s)" % env.get("H0"))
    chk.ob("R11.5", "Cosmo.__init__::hubble-distance", [v for v, _ in env.get("DH", [])] == ["_CLIGHT / H0"], fi.where(), "D_H = c / H0")
    h0n = [n for n in cfg.nodes if n.kind == "stmt" and isinstance(n.ast, ast.Assign) and norm(n.ast.targets[0]) == "H0"]
    dhn = [n for n in cfg.nodes if n.kind == "stmt" and isinstance(n.ast, ast.Assign) and norm(n.ast.targets[0]) == "DH"]
    chk.ob("R11.5", "Cosmo.__init__::override-before-DH", bool(h0n) and bool(dhn) and view.reaches(h0n[0], dhn[0]), fi.where(), "the override happens before D_H is formed")
    c = [v for v, _ in env.get("self._cosmo", [])]
    chk.ob("R11.5", "Cosmo.__init__::extension-arguments", c == ["_cosmolib.cosmo(DH, flat, omega_m, omega_l, omega_k)"], fi.where(), "the extension object gets (D_H, flat, omega_m, omega_l, omega_k) after normalisation (%s)" % c)
    init = wrap.get("PyCosmoObject_init")
    fmt, names = parse_tuple_binding(init) if init else (None, [])
    chk.ob("R11.5", "PyCosmoObject_init::parse-format", parse_tuple_format(fmt or "") == ["d", "i", "d", "d", "d"] and names == ["DH", "flat", "omega_m", "omega_l", "omega_k"], "esutil/cosmology/cosmolib_pywrap.c", "format %r binds %s" % (fmt, names))
    calls = [cfront.render(x) for x in cfront.calls_in(init) if cfront.callee_name(x) == "cosmo_new"] if init else []
    chk.ob("R11.5", "PyCosmoObject_init::constructs-with-same-order", calls == ["cosmo_new(DH, flat, omega_m, omega_l, omega_k)"], "esutil/cosmology/cosmolib_pywrap.c", "cosmo_new receives the parsed values in order")
    ex = [(v, t) for v, t in env.get("(flat, omega_m, omega_l, omega_k)", [])]
    chk.ob("R11.5", "Cosmo.__init__::normaliser-roles", [v for v, _ in ex] == ["self.extract_parms(omega_m, omega_l, omega_k, flat)"], fi.where(), "extract_parms(omega_m, omega_l, omega_k, flat) -> (flat, omega_m, omega_l, omega_k)")
    # constants: speed of light in km/s in Python and in the C header
    mod = repo.module("esutil.cosmology.cosmology")
    cl = norm(mod.consts.get("_CLIGHT", ast.Constant(value=None)))
    chk.ob("R11.1", "constants::speed-of-light-python", abs(float(cl) - 299792.458) < 1e-9 if cl not in ("None",) else False, "esutil/cosmology/cosmology.py", "_CLIGHT = 299792.458 km/s (found %s)" % cl)
    import re
    hdr = open(__import__("os").path.join(__import__("vcheck.core", fromlist=["REPO"]).REPO, "esutil/cosmology/cosmolib.h")).read()
    m = re.search(r"#define\s+CLIGHT\s+([0-9.eE+-]+)", hdr)
    chk.ob("R11.1", "constants::speed-of-light-c-equals-python", bool(m) and cl != "None" and abs(float(m.group(1)) - float(cl)) < 1e-9, "esutil/cosmology/cosmolib.h", "C CLIGHT %s equals Python _CLIGHT %s" % (m.group(1) if m else None, cl))
    m5 = re.search(r"#define\s+NPTS\s+(\d+)", hdr)
    m10 = re.search(r"#define\s+VNPTS\s+(\d+)", hdr)
    chk.ob("R11.2", "constants::documented-orders", bool(m5) and bool(m10) and m5.group(1) == "5" and m10.group(1) == "10", "esutil/cosmology/cosmolib.h", "NPTS = 5, VNPTS = 10 (documented fixed orders)")


def copy_pickle(chk, repo):
    fi = repo.func(CQ + "Cosmo.copy")
    chk.analysed_unit(fi.qualname)
    rets = [x for x in walk_no_nested(fi.node) if isinstance(x, ast.Return)]
    ok = len(rets) == 1 and isinstance(rets[0].value, ast.Call) and call_name(rets[0].value) == "Cosmo"
    kws = {k.arg: norm(k.value) for k in rets[0].value.keywords} if ok else {}
    want = {"H0": "self._H0", "flat": "self._flat", "omega_m": "self._omega_m", "omega_l": "self._omega_l", "omega_k": "self._omega_k"}
    chk.ob("R11.6", "Cosmo.copy::forwards-stored-inputs-by-keyword", kws == want, fi.where(), "copy() rebuilds from the stored inputs by keyword (%s)" % kws)
    init = repo.func(CQ + "Cosmo.__init__")
    st = {norm(a.targets[0]): norm(a.value) for a in walk_no_nested(init.node) if isinstance(a, ast.Assign) and norm(a.targets[0]).startswith("self._")}
    okk = st.get("self._flat") == "flat" and st.get("self._omega_m") == "omega_m" and st.get("self._omega_l") == "omega_l" and st.get("self._omega_k") == "omega_k" and st.get("self._H0") == "H0"
    chk.ob("R11.6", "Cosmo.__init__::inputs-stored-as-given", okk, init.where(), "the inputs are stored as given (before normalisation) and H0 after the h override (%s)" % {k: v for k, v in st.items() if k != "self._cosmo"})
    # the stored raw inputs are saved before the local names are re-bound by the normaliser
    cfg = cfg_of(init)
    view = cfg.view()
    stores = [n for n in cfg.nodes if n.kind == "stmt" and isinstance(n.ast, ast.Assign) and norm(n.ast.targets[0]) in ("self._flat", "self._omega_m", "self._omega_l", "self._omega_k")]
    ext = [n for n in cfg.nodes if n.kind == "stmt" and isinstance(n.ast, ast.Assign) and "extract_parms" in norm(n.ast.value)]
    chk.ob("R11.6", "Cosmo.__init__::raw-inputs-saved-before-normalisation", bool(ext) and len(stores) == 4 and all(view.dominates(s, ext[0]) for s in stores), init.where(), "raw inputs are saved before extract_parms re-binds the local names")
    for m in ("__copy__", "__deepcopy__"):
        f = repo.func(CQ + "Cosmo." + m)
        r = [norm(x.value) for x in walk_no_nested(f.node) if isinstance(x, ast.Return)]
        chk.ob("R11.6", "Cosmo.%s::delegates-to-copy" % m, r == ["self.copy()"], f.where(), "%s is copy()" % m)
    red = repo.func(CQ + "Cosmo.__reduce__")
    r = [norm(x.value) for x in walk_no_nested(red.node) if isinstance(x, ast.Return)]
    chk.ob("R11.6", "Cosmo.__reduce__::class-and-pars", r == ["(self.__class__, self._pars)"], red.where(), "pickling re-creates the class from _pars")
    pars = repo.func(CQ + "Cosmo._pars")
    pr = [x for x in walk_no_nested(pars.node) if isinstance(x, ast.Return)]
    elts = [norm(e) for e in pr[0].value.elts] if pr and isinstance(pr[0].value, ast.Tuple) else []
    pos = [p for p in init.params if p != "self"]
    want = {"H0": "self.H0()", "h": "None", "flat": "bool(self.flat())", "omega_m": "self.omega_m()", "omega_l": "self.omega_l()", "omega_k": "self.omega_k()"}
    chk.ob("R11.6", "Cosmo._pars::constructor-positional-order", elts == [want[p] for p in pos], pars.where(), "the pickling tuple follows the constructor's positional order %s (found %s)" % (pos, elts))


def distmod(chk, repo):
    fi = repo.func(CQ + "Cosmo.distmod")
    chk.analysed_unit(fi.qualname)
    se = symx.SymEval(repo, opaque_tests=False)
    z = sp.Symbol("z")
    env = symx.Env(se, fi, fi.module, {"z": z}, {})
    env.vars["self"] = symx.Opaque("self")
    DL = sp.Symbol("DL")
    stmts = [s for s in fi.node.body if isinstance(s, ast.Assign) and norm(s.targets[0]) != "dmpc"]
    first = [s for s in fi.node.body if isinstance(s, ast.Assign) and norm(s.targets[0]) == "dmpc"]
    chk.ob("R11.7", "distmod::luminosity-distance-from-zero", len(first) == 1 and norm(first[0].value) == "self.Dl(0.0, z)", fi.where(), "uses D_L(0, z) in Mpc")
    env.vars["dmpc"] = DL
    env.exec_body(stmts, sp.true)
    got = env.vars.get("dm")
    ok = got is not None and symx.equal(got, 5 * sp.log(DL * 10 ** 6 / 10, 10))[0]
    chk.ob("R11.7", "distmod::formula", bool(ok), fi.where(), "mu = 5 log10(D_L[pc]/10 pc) (found %s)" % got)
